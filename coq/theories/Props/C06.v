(* C06 — Every candidate plate is scored once; the minimum-score allowed plate is chosen.
   Statements only; every proof is `exact <lemma from Proofs/>`.  Model: Model/Scores.v.
   A screen is the list of its rows (plate id, observed bit, sample id, treatment ids) in
   storage order; scores are integer order keys (finite, -inf, ties); the scorer and the
   policy are arbitrary functions (the policy constrained by "returns only candidates").
   "valid batch" = empty, or at least one of its ids is a plate of the screen (otherwise the
   code raises, C06_unknown_batch_rejected); ids of observed plates and unknown ids may be
   mixed in. *)
From Coq Require Import ZArith List Sorted Permutation.
From Batchie Require Import Lib.Sexp Model.Scores
  Proofs.C06Split Proofs.C06Rows Proofs.C06Select Proofs.C06Main.
From Batchie Require Import Generated.SrcScoring Proofs.C06Source.
Import ListNotations.
Open Scope Z_scope.

(* ---- the model is what the source says NOW ----
   `src_select_next_plate` and `src_score_chunk` are the whole functions select_next_plate and score_chunk of
   /repo's current batchie/scoring/main.py, re-translated statement by statement on every run (harness/py2gal.py
   with the configurations C06_SELECT / C06_SCORE_CHUNK of harness/src_functions.py -> Generated/SrcScoring.v:
   the default-argument tests, the comprehensions, the optional policy, the early `return`, the batch test, the
   conditioning loop, the dict of plates, the holder-filling loop, every raise of the primitives).  They equal the
   hand-written models for ALL arguments, so every theorem below is a theorem about the translated source.
   Representation: batch_plate_ids None is the model's []; the code returns the Plate object
   screen.get_plate(id) where the model returns the id. *)
Theorem C06_model_is_source_select_next_plate : forall (scores : holder) (s : screen) (policy : option policy_t)
    (batch : option (list Z)) (rng : option rng_t),
  src_select_next_plate scores s policy batch rng
  = dor r <- select_next policy s (match batch with Some b => b | None => [] end) scores;
    Ok (option_map (get_plate s) r).
Proof. exact src_select_next_plate_is_model. Qed.
Print Assumptions C06_model_is_source_select_next_plate.

(* the scorer is ANY function from the dict it is handed (plate id -> rows, in dict order) to the dict it returns;
   the model's score_chunk is exactly what it is handed, chunk_holder_of_answer the holder built from its answer *)
Theorem C06_model_is_source_score_chunk : forall (scorer : scorer_fn) (s : screen) (rng : option rng_t)
    (n_chunks chunk_index : Z) (batch : option (list Z)),
  src_score_chunk scorer s rng n_chunks chunk_index batch
  = dor ps <- score_chunk s (match batch with Some b => b | None => [] end) n_chunks chunk_index;
    chunk_holder_of_answer ps (scorer ps).
Proof. exact src_score_chunk_is_model. Qed.
Print Assumptions C06_model_is_source_score_chunk.

(* in particular the model's chunk_holder (a scorer returning one score per handed plate) *)
Theorem C06_model_is_source_chunk_holder : forall (scorer : scorer_t) (s : screen) (rng : option rng_t)
    (n_chunks chunk_index : Z) (batch : list Z),
  src_score_chunk (fun ps => map (fun p => (fst p, scorer (fst p) (snd p))) ps) s rng n_chunks chunk_index (Some batch)
  = chunk_holder scorer s batch n_chunks chunk_index.
Proof. exact src_score_chunk_chunk_holder. Qed.
Print Assumptions C06_model_is_source_chunk_holder.

(* ChunkedScoresHolder's methods, translated with its two numpy arrays as lists: a model holder h is represented by
   holder_arrays h = (scores, plate_ids, current_index) = (map snd slots, map fst slots, current index);
   `a[i] = v` past the end, argmin of an empty array and the ValueError of concat come from the translation /
   the primitives; the declared size is not touched by these methods *)
Theorem C06_model_is_source_add_score : forall (h : holder) (pid sc : Z),
  src_add_score (map snd (h_slots h)) (map fst (h_slots h)) (Z.of_nat (h_cur h)) pid sc
  = dor h' <- add_score h pid sc; Ok (holder_arrays h').
Proof. exact src_add_score_is_model. Qed.
Print Assumptions C06_model_is_source_add_score.

Theorem C06_model_is_source_combine : forall (a b : holder),
  src_combine (map snd (h_slots a)) (map fst (h_slots a)) (Z.of_nat (h_cur a))
              (map snd (h_slots b)) (map fst (h_slots b))
  = Ok (holder_arrays (h_combine a b)).
Proof. exact src_combine_is_model. Qed.
Print Assumptions C06_model_is_source_combine.

Theorem C06_model_is_source_plate_id_with_minimum_score : forall (h : holder) (eligible : option (list Z)),
  src_plate_id_with_minimum_score (map snd (h_slots h)) (map fst (h_slots h)) eligible = min_plate h eligible.
Proof. exact src_plate_id_with_minimum_score_is_model. Qed.
Print Assumptions C06_model_is_source_plate_id_with_minimum_score.

Theorem C06_model_is_source_concat : forall hs : list holder, src_concat hs = h_concat hs.
Proof. exact src_concat_is_model. Qed.
Print Assumptions C06_model_is_source_concat.

(* ---- np.array_split ---- *)
Theorem C06_array_split_concat : forall (A : Type) (l : list A) (n : nat),
  (0 < n)%nat -> concat (array_split l n) = l.
Proof. exact @array_split_concat. Qed.
Print Assumptions C06_array_split_concat.

Theorem C06_array_split_sizes : forall (A : Type) (l : list A) (n : nat), (0 < n)%nat ->
  length (array_split l n) = n /\
  forall k, (k < n)%nat ->
    length (nth k (array_split l n) []) = (length l / n + (if k <? length l mod n then 1 else 0))%nat.
Proof. exact @array_split_sizes_all. Qed.
Print Assumptions C06_array_split_sizes.

(* ---- which plates are scored ---- *)
(* the candidate list of score_chunk / select_next_plate: strictly ascending ids, exactly the
   plates of the screen that have an unobserved row and are not in the batch *)
Theorem C06_candidates_spec : forall (s : screen) (batch : list Z),
  StronglySorted Z.lt (map p_id (candidates s batch)) /\
  forall pid, In pid (map p_id (candidates s batch)) <->
    In pid (map r_plate s) /\ (exists r, In r s /\ r_plate r = pid /\ r_obs r = false) /\ ~ In pid batch.
Proof. exact candidates_spec. Qed.
Print Assumptions C06_candidates_spec.

(* all n_chunks >= 1 (also > number of candidates): every chunk index succeeds, and the plate
   ids handed to the scorer, concatenated over chunk indices 0..n-1, are the candidate list *)
Theorem C06_chunks_partition : forall (s : screen) (batch : list Z) (n : nat),
  (0 < n)%nat ->
  (batch = [] \/ exists b, In b batch /\ In b (map r_plate s)) ->
  exists pss,
    res_map_all (score_chunk s batch (Z.of_nat n)) (map Z.of_nat (seq 0 n)) = Ok pss /\
    length pss = n /\
    map fst (concat pss) = map p_id (candidates s batch).
Proof. exact chunks_partition. Qed.
Print Assumptions C06_chunks_partition.

(* the same, in the words of the property: each candidate exactly once, nothing else *)
Theorem C06_chunks_cover_once : forall (s : screen) (batch : list Z) (n : nat),
  (0 < n)%nat ->
  (batch = [] \/ exists b, In b batch /\ In b (map r_plate s)) ->
  exists pss,
    res_map_all (score_chunk s batch (Z.of_nat n)) (map Z.of_nat (seq 0 n)) = Ok pss /\
    NoDup (map fst (concat pss)) /\
    forall pid, In pid (map fst (concat pss)) <->
      In pid (map r_plate s) /\ (exists r, In r s /\ r_plate r = pid /\ r_obs r = false) /\ ~ In pid batch.
Proof. exact chunks_cover_once. Qed.
Print Assumptions C06_chunks_cover_once.

Theorem C06_chunks_disjoint : forall (s : screen) (batch : list Z) (n k1 k2 : nat) pid ps1 ps2,
  (k1 < n)%nat -> (k2 < n)%nat -> k1 <> k2 ->
  score_chunk s batch (Z.of_nat n) (Z.of_nat k1) = Ok ps1 ->
  score_chunk s batch (Z.of_nat n) (Z.of_nat k2) = Ok ps2 ->
  In pid (map fst ps1) -> In pid (map fst ps2) -> False.
Proof. exact chunks_disjoint. Qed.
Print Assumptions C06_chunks_disjoint.

(* what the code does with a non-empty batch none of whose ids is a plate of the screen:
   ScreenSubset.concat([]) raises, for every chunk *)
Theorem C06_unknown_batch_rejected : forall (s : screen) (batch : list Z) n k,
  batch <> [] -> (forall b, In b batch -> ~ In b (map r_plate s)) ->
  exists tag, score_chunk s batch n k = Err tag.
Proof. exact score_chunk_unknown_batch. Qed.
Print Assumptions C06_unknown_batch_rejected.

(* ---- on which rows a candidate is scored ---- *)
Theorem C06_unconditioned_rows : forall (s : screen) n k ps pid rows,
  score_chunk s [] n k = Ok ps -> In (pid, rows) ps ->
  rows = sub_rows s (Z.eqb pid) /\
  (forall i r, In (i, r) rows <-> nth_error s i = Some r /\ r_plate r = pid) /\
  StronglySorted lt (map fst rows).
Proof. exact unconditioned_rows. Qed.
Print Assumptions C06_unconditioned_rows.

(* with a batch: union = the rows of the screen, in storage order, whose plate is the candidate
   or in the batch; the scorer gets first-occurrence-unique(union) on (sample id, treatment ids):
   no two kept rows share a condition, every condition of the union is kept, nothing else *)
Theorem C06_conditioned_rows : forall (s : screen) (batch : list Z) n k ps pid rows,
  batch <> [] -> score_chunk s batch n k = Ok ps -> In (pid, rows) ps ->
  let union := union_rows s batch pid in
  rows = uniq_first [] union /\
  (forall i r, In (i, r) union <-> nth_error s i = Some r /\ (r_plate r = pid \/ In (r_plate r) batch)) /\
  StronglySorted lt (map fst union) /\
  NoDup (map row_key rows) /\
  (forall key, In key (map row_key rows) <-> In key (map row_key union)) /\
  (forall x, In x rows -> In x union).
Proof. exact conditioned_rows. Qed.
Print Assumptions C06_conditioned_rows.

(* which duplicate survives: a row of the union is kept iff no EARLIER row of the union (storage
   order, not candidate-first) has the same (sample id, treatment ids) *)
Theorem C06_conditioned_first_occurrence : forall (s : screen) (batch : list Z) pid pre x post,
  union_rows s batch pid = pre ++ x :: post ->
  (In x (uniq_first [] (union_rows s batch pid)) <-> ~ In (row_key x) (map row_key pre)).
Proof. exact conditioned_first_occurrence. Qed.
Print Assumptions C06_conditioned_first_occurrence.

(* ---- the holder ---- *)
Theorem C06_exact_fill : forall (scorer : scorer_t) s batch n k ps,
  score_chunk s batch n k = Ok ps ->
  chunk_holder scorer s batch n k
  = Ok (mkholder (Z.of_nat (length ps)) (map (fun p => (fst p, scorer (fst p) (snd p))) ps) (length ps)).
Proof. exact chunk_holder_exact. Qed.
Print Assumptions C06_exact_fill.

Theorem C06_overfill_raises : forall h pid sc,
  (length (h_slots h) <= h_cur h)%nat -> add_score h pid sc = Err 4.
Proof. exact overfill_raises. Qed.
Print Assumptions C06_overfill_raises.

Theorem C06_save_load : forall h,
  h_slots (h_load (h_save h)) = h_slots h /\ h_cur (h_load (h_save h)) = h_cur h /\
  h_size (h_load (h_save h)) = Z.of_nat (length (h_slots h)).
Proof. exact save_load. Qed.
Print Assumptions C06_save_load.

(* ---- selection ---- *)
(* chunks listed in [order] are scored, saved, loaded and combined in that order; [order] is any
   list of chunk indices that contains every index (repeats allowed).  The pipeline does not
   raise; the plate returned is a candidate (unobserved, not in the batch), allowed by the
   policy, and no allowed plate has a strictly smaller score; None only if nothing is allowed. *)
Theorem C06_select_sound : forall (scorer : scorer_t) (policy : option policy_t) (s : screen)
    (batch : list Z) (n : Z) (order : list Z),
  (forall f, policy = Some f -> forall b c, incl (f b c) c) ->
  1 <= n ->
  (batch = [] \/ exists b, In b batch /\ In b (map r_plate s)) ->
  (forall k, 0 <= k < n -> In k order) -> (forall k, In k order -> 0 <= k < n) ->
  exists r, pipeline scorer policy s batch n order = Ok r /\
    match r with
    | None => eligible_plates policy s batch = []
    | Some pid =>
        (In pid (map r_plate s) /\ (exists r, In r s /\ r_plate r = pid /\ r_obs r = false) /\ ~ In pid batch) /\
        In pid (map p_id (eligible_plates policy s batch)) /\
        forall q, In q (eligible_plates policy s batch) ->
          plate_score scorer s batch pid <= plate_score scorer s batch (p_id q)
    end.
Proof. exact select_sound_rows. Qed.
Print Assumptions C06_select_sound.

(* the literal quantifier: every permutation of the chunk indices *)
Theorem C06_select_sound_perm : forall (scorer : scorer_t) (policy : option policy_t) (s : screen)
    (batch : list Z) (n : nat) (order : list Z),
  (forall f, policy = Some f -> forall b c, incl (f b c) c) ->
  (0 < n)%nat ->
  (batch = [] \/ exists b, In b batch /\ In b (map r_plate s)) ->
  Permutation order (map Z.of_nat (seq 0 n)) ->
  exists r, pipeline scorer policy s batch (Z.of_nat n) order = Ok r /\
    match r with
    | None => eligible_plates policy s batch = []
    | Some pid =>
        (In pid (map r_plate s) /\ (exists r, In r s /\ r_plate r = pid /\ r_obs r = false) /\ ~ In pid batch) /\
        In pid (map p_id (eligible_plates policy s batch)) /\
        forall q, In q (eligible_plates policy s batch) ->
          plate_score scorer s batch pid <= plate_score scorer s batch (p_id q)
    end.
Proof. exact select_sound_perm_rows. Qed.
Print Assumptions C06_select_sound_perm.

Theorem C06_none_iff : forall (scorer : scorer_t) (policy : option policy_t) (s : screen)
    (batch : list Z) (n : Z) (order : list Z),
  (forall f, policy = Some f -> forall b c, incl (f b c) c) ->
  1 <= n ->
  (batch = [] \/ exists b, In b batch /\ In b (map r_plate s)) ->
  (forall k, 0 <= k < n -> In k order) -> (forall k, In k order -> 0 <= k < n) ->
  (pipeline scorer policy s batch n order = Ok None <-> eligible_plates policy s batch = []).
Proof. exact none_iff. Qed.
Print Assumptions C06_none_iff.

Theorem C06_none_iff_no_policy : forall (scorer : scorer_t) (s : screen) (batch : list Z) (n : Z) (order : list Z),
  1 <= n ->
  (batch = [] \/ exists b, In b batch /\ In b (map r_plate s)) ->
  (forall k, 0 <= k < n -> In k order) -> (forall k, In k order -> 0 <= k < n) ->
  (pipeline scorer None s batch n order = Ok None <->
   forall pid, ~ (In pid (map r_plate s) /\ (exists r, In r s /\ r_plate r = pid /\ r_obs r = false) /\ ~ In pid batch)).
Proof. exact none_iff_no_policy. Qed.
Print Assumptions C06_none_iff_no_policy.

(* ---- ties: numpy argmin = first minimum in storage order ---- *)
Theorem C06_ties_first : forall h (eligible : list Z) pid,
  min_plate h (Some eligible) = Ok pid ->
  exists pre sc post,
    h_slots h = pre ++ (pid, sc) :: post /\ In pid eligible /\
    (forall i v, In (i, v) pre -> In i eligible -> sc < v) /\
    (forall i v, In (i, v) post -> In i eligible -> sc <= v).
Proof. exact min_plate_first. Qed.
Print Assumptions C06_ties_first.

(* in the pipeline the storage order is: chunks in the order combined, each in ascending id *)
Theorem C06_ties_storage_order : forall (scorer : scorer_t) (policy : option policy_t) (s : screen)
    (batch : list Z) (n : Z) (order : list Z),
  1 <= n ->
  (batch = [] \/ exists b, In b batch /\ In b (map r_plate s)) ->
  (forall k, 0 <= k < n -> In k order) -> (forall k, In k order -> 0 <= k < n) ->
  forall pid, pipeline scorer policy s batch n order = Ok (Some pid) ->
  exists pre post,
    concat (map (fun k => map (fun p => (fst p, scorer (fst p) (snd p)))
                            (map (fun p => (p_id p, rows_for s batch p))
                                 (nth (Z.to_nat k) (array_split (candidates s batch) (Z.to_nat n)) [])))
                order)
    = pre ++ (pid, plate_score scorer s batch pid) :: post /\
    (forall i v, In (i, v) pre -> In i (map p_id (eligible_plates policy s batch)) -> plate_score scorer s batch pid < v) /\
    (forall i v, In (i, v) post -> In i (map p_id (eligible_plates policy s batch)) -> plate_score scorer s batch pid <= v).
Proof. exact pipeline_first_min. Qed.
Print Assumptions C06_ties_storage_order.

(* chunks combined in index order: among tied minimal allowed plates the smallest id wins *)
Theorem C06_ties_identity_order : forall (scorer : scorer_t) (policy : option policy_t) (s : screen)
    (batch : list Z) (n : nat) pid,
  (forall f, policy = Some f -> forall b c, incl (f b c) c) ->
  (0 < n)%nat ->
  (batch = [] \/ exists b, In b batch /\ In b (map r_plate s)) ->
  pipeline scorer policy s batch (Z.of_nat n) (map Z.of_nat (seq 0 n)) = Ok (Some pid) ->
  forall q, In q (eligible_plates policy s batch) ->
    plate_score scorer s batch (p_id q) = plate_score scorer s batch pid -> pid <= p_id q.
Proof. exact ties_identity_order. Qed.
Print Assumptions C06_ties_identity_order.

(* ---- non-vacuity: concrete instances ---- *)
(* 5 plates interleaved in storage order; plate 3 observed; plate 4 partly observed (= unobserved);
   duplicate conditions across plates 0/1/2 *)
Definition ex_screen : screen :=
  [ mkrow 2 false 0 [0; 1]; mkrow 0 false 0 [0; 1]; mkrow 1 false 0 [0; 1]; mkrow 0 false 1 [0; 1];
    mkrow 2 false 0 [0; 2]; mkrow 1 false 1 [0; 1]; mkrow 3 true 2 [0; 1]; mkrow 4 true 0 [0; 1];
    mkrow 4 false 2 [-1; 2] ].
Definition ex_scorer : scorer_t := fun pid rows => if pid =? 0 then 7 else if pid =? 2 then -3 else if pid =? 4 then -3 else 1.
Definition ex_policy : policy_t := fun _ c => filter (fun p => negb (p_id p =? 2)) c.

Example C06_example_candidates : map p_id (candidates ex_screen [1]) = [0; 2; 4].
Proof. vm_compute. reflexivity. Qed.
(* more chunks than candidates: chunks 3 and 4 are empty; plate 0 is scored on rows 1,3 only
   (rows 2,5 of batch plate 1 duplicate its conditions and come later in storage order);
   plate 2 on rows 0,4,5 (row 2 of plate 1 duplicates row 0); plate 4 on rows 2,5,8: its OWN row 7
   is dropped because row 2 of batch plate 1 has the same condition and comes first *)
Example C06_example_chunks :
  res_map_all (fun k => dor ps <- score_chunk ex_screen [1] 5 k; Ok (map (fun p => (fst p, map fst (snd p))) ps))
              [0; 1; 2; 3; 4]
  = Ok [[(0, [1; 3]%nat)]; [(2, [0; 4; 5]%nat)]; [(4, [2; 5; 8]%nat)]; []; []].
Proof. vm_compute. reflexivity. Qed.
(* tie between plates 2 and 4 at -3: storage order decides; with the policy excluding plate 2, plate 4 *)
Example C06_example_select_tie_a : pipeline ex_scorer None ex_screen [1] 3 [2; 0; 1] = Ok (Some 4).
Proof. vm_compute. reflexivity. Qed.
Example C06_example_select_tie_b : pipeline ex_scorer None ex_screen [1] 3 [0; 1; 2] = Ok (Some 2).
Proof. vm_compute. reflexivity. Qed.
Example C06_example_select_policy : pipeline ex_scorer (Some ex_policy) ex_screen [1] 3 [0; 1; 2; 1] = Ok (Some 4).
Proof. vm_compute. reflexivity. Qed.
Example C06_example_policy_is_sub : forall b c, incl (ex_policy b c) c.
Proof. intros b c p H. apply filter_In in H. tauto. Qed.
Example C06_example_none : pipeline ex_scorer (Some (fun _ _ => [])) ex_screen [1] 2 [1; 0] = Ok None
  /\ pipeline ex_scorer None ex_screen [0; 1; 2; 4; 9] 2 [1; 0] = Ok None.
Proof. vm_compute. split; reflexivity. Qed.
Example C06_example_unknown_batch : score_chunk ex_screen [9] 2 0 = Err 3.
Proof. vm_compute. reflexivity. Qed.
(* outside the property (a scorer returning fewer scores than plates, as the mock in
   scoring/main_test.py does): the unfilled zero-initialised slot (plate id 0, score 0.0) is a
   phantom entry for plate 0 — here it beats plate 1's real score 5 although plate 0 was never scored *)
Example C06_example_underfilled_zero_slot :
  (dor h <- add_scores (holder_new 2) [(1, 5)]; min_plate h (Some [0; 1])) = Ok 0.
Proof. vm_compute. reflexivity. Qed.
(* a chunk file left out: the argmin silently ranges over the plates that were scored *)
Example C06_example_missing_chunk : pipeline ex_scorer None ex_screen [1] 3 [0; 2] = Ok (Some 4).
Proof. vm_compute. reflexivity. Qed.

(* ---- the command-line wrappers select_next_plate.main and calculate_scores.main is what the source says NOW ----
   `src_cli_select_next_plate` / `src_cli_calculate_scores` are the whole functions main of /repo's current
   batchie/cli/select_next_plate.py / calculate_scores.py, re-translated on every run (configurations CLI_SELECT_NEXT_PLATE /
   CLI_CALCULATE_SCORES of harness/src_functions.py -> Generated/SrcCli.v).
   Model/Cli.v: the parsed arguments are a record of the plain argparse results (get_args() is not translated), `L` is a
   record of the library functions the wrapper calls over abstract types (each component stands for the library function
   of that name with its parameter list; `*_load_*` = what loading the file at a path yields), a main() denotes the list
   of (path, content) files it writes, Err = the exception that ends it.  The links hold for EVERY such record. *)
From Batchie Require Lib.PyRt Model.Cli Generated.SrcCli Proofs.C06SourceCli Proofs.C06SourceCliScores.
Theorem C06_model_is_source_cli_select_next_plate : forall (Scr Pl Po H : Type) (L : Cli.sn_lib Scr Pl Po H) (mix : Z -> Z) (a : Cli.sn_args),
  SrcCli.src_cli_select_next_plate Scr Pl Po H L mix a
  = Cli.cli_select_next_plate L mix a.
Proof. exact C06SourceCli.src_cli_select_next_plate_is_model. Qed.
Print Assumptions C06_model_is_source_cli_select_next_plate.

Theorem C06_model_is_source_cli_calculate_scores : forall (Scr Pl Th Dm Sc H : Type) (L : Cli.cs_lib Scr Pl Th Dm Sc H) (mix : Z -> Z) (a : Cli.cs_args),
  SrcCli.src_cli_calculate_scores Scr Pl Th Dm Sc H L mix a
  = Cli.cli_calculate_scores L mix a.
Proof. exact C06SourceCli.src_cli_calculate_scores_is_model. Qed.
Print Assumptions C06_model_is_source_cli_calculate_scores.

(* instances over this property's vocabulary (Model/Scores.v), with the library calls standing for the TRANSLATED library
   functions (Generated/SrcScoring.v): select_next_plate.main = select_next on the concatenation (h_concat) of the loaded
   score files, in argument order, with the --batch-plate-id list; it writes the chosen plate's id, or -1 exactly when
   select_next answers None.  calculate_scores.main = score_chunk on the loaded screen with the --batch-plate-ids list,
   the scorer answering on the concatenated thetas / distance matrix and the generator derived from --seed, its answer
   stored by chunk_holder_of_answer, saved. *)
Theorem C06_model_is_source_cli_select_next_plate_scores : forall load_screen mk_policy load_scores (mix : Z -> Z) (a : Cli.sn_args),
  SrcCli.src_cli_select_next_plate _ _ _ _ (C06SourceCliScores.sn_scores_lib load_screen mk_policy load_scores) mix a
  = dor s <- load_screen (Cli.sn_data a);
    dor policy <- match Cli.sn_policy a with Some _ => dor p <- mk_policy; Ok (Some p) | None => Ok None end;
    dor rng <- Cli.prng_of_seed mix (Cli.sn_seed a);
    dor hs <- res_map_all load_scores (Cli.sn_scores a);
    dor h <- h_concat hs;
    dor r <- select_next (option_map (fun p => p (Some rng)) policy) s (Cli.sn_batch_plate_id a) h;
    Ok [(Cli.sn_output a, match r with Some id => id | None => -1 end)].
Proof. exact C06SourceCliScores.src_cli_select_next_plate_scores. Qed.
Print Assumptions C06_model_is_source_cli_select_next_plate_scores.

Theorem C06_model_is_source_cli_calculate_scores_scores : forall (Th Dm : Type) load_screen mk_scorer load_thetas concat_thetas
    load_dist concat_dist (mix : Z -> Z) (a : Cli.cs_args),
  SrcCli.src_cli_calculate_scores _ _ _ _ _ _
    (C06SourceCliScores.cs_scores_lib Th Dm load_screen mk_scorer load_thetas concat_thetas load_dist concat_dist) mix a
  = dor s <- load_screen (Cli.cs_data a);
    dor sc <- mk_scorer;
    dor ths <- res_map_all load_thetas (Cli.cs_thetas a);
    dor th <- concat_thetas ths;
    dor dms <- res_map_all load_dist (Cli.cs_distance_matrix a);
    dor dm <- concat_dist dms;
    dor rng <- Cli.prng_of_seed mix (Cli.cs_seed a);
    dor ps <- score_chunk s (Cli.cs_batch_plate_ids a) (Cli.cs_n_chunks a) (Cli.cs_chunk_index a);
    dor h <- chunk_holder_of_answer ps (sc th dm (Some rng) ps);
    Ok [(Cli.cs_output a, h)].
Proof. exact C06SourceCliScores.src_cli_calculate_scores_scores. Qed.
Print Assumptions C06_model_is_source_cli_calculate_scores_scores.

(* the translated wrapper on a library whose select_next_plate answers None / plate 0: -1 / 0 is written (id 0 is not "nothing") *)
Example C06_example_cli_writes_minus_one_iff_none :
  let lib r := Cli.mk_sn_lib (fun _ => Ok 0) (Ok 0) (fun _ => Ok 0) (fun _ => Ok 0) (fun _ _ _ _ _ => Ok r) (fun p : Z => p) in
  let a := Cli.mk_sn_args [100] [[101]; [102]] None [103] 7 [] in
  SrcCli.src_cli_select_next_plate Z Z Z Z (lib None) (fun s => s) a = Ok [([103], -1)] /\
  SrcCli.src_cli_select_next_plate Z Z Z Z (lib (Some 0)) (fun s => s) a = Ok [([103], 0)].
Proof. vm_compute. split; reflexivity. Qed.

(* ---- source-translation links: ChunkedScoresHolder.__init__ / get_score / save_h5 / load_h5 (Generated/SrcHolderIO.v,
   configurations C06_HOLDER_* of harness/src_functions.py).  The Python object is the record [pyholder] of its four
   attributes, a model holder h is represented by [holder_obj h]; the translated save_h5 denotes the raw HDF5 content
   [shraw] it writes (datasets and attributes by name), load_h5 reads one; [shraw_close] is the representation map to the
   model's file (slots, current_index).  All in the last part of Model/Scores.v. ---- *)
From Batchie Require Import Generated.SrcHolderIO Proofs.C06SourceIO.

(* __init__ on any fresh instance: the holder of `size` zero slots, ValueError for a negative size *)
Theorem C06_model_is_source_init : forall (self : pyholder) (size : Z),
  src_holder_init self size = if size <? 0 then Err 1 else Ok (holder_obj (holder_new (Z.to_nat size))).
Proof. exact src_holder_init_is_model. Qed.
Print Assumptions C06_model_is_source_init.

(* get_score: the score of the ONLY slot carrying that plate id; no such slot or several: ValueError *)
Theorem C06_model_is_source_get_score : forall (h : holder) (pid : Z),
  src_holder_get_score (holder_obj h) pid = h_get_score h pid.
Proof. exact src_holder_get_score_is_model. Qed.
Print Assumptions C06_model_is_source_get_score.

(* what the translated save_h5 wrote, read back by name, is the model's file *)
Theorem C06_model_is_source_save_h5 : forall h : holder,
  (dor w <- src_holder_save_h5 (holder_obj h); shraw_close w) = Ok (h_save h).
Proof. exact src_holder_save_h5_is_model. Qed.
Print Assumptions C06_model_is_source_save_h5.

(* on every raw file that represents a model file f, the translated load_h5 returns the object of the model's h_load f *)
Theorem C06_model_is_source_load_h5 : forall (w : shraw) (f : list slot * nat),
  shraw_close w = Ok f -> src_holder_load_h5 w = Ok (holder_obj (h_load f)).
Proof. exact src_holder_load_h5_is_model. Qed.
Print Assumptions C06_model_is_source_load_h5.

(* hence C06_save_load is a theorem about the translated source: the object the translated load_h5 makes of what the
   translated save_h5 wrote has the saved score array, plate-id array and current_index; its size is len(scores) *)
Theorem C06_source_save_load : forall h : holder,
  exists o, (dor w <- src_holder_save_h5 (holder_obj h); src_holder_load_h5 w) = Ok o
    /\ ph_scores o = ph_scores (holder_obj h) /\ ph_pids o = ph_pids (holder_obj h) /\ ph_cur o = ph_cur (holder_obj h)
    /\ ph_size o = Z.of_nat (length (ph_scores (holder_obj h))).
Proof. exact src_holder_round_trip. Qed.
Print Assumptions C06_source_save_load.

(* ... and get_score answers the same before and after the round trip *)
Theorem C06_source_get_score_after_reload : forall (h : holder) (pid : Z),
  (dor w <- src_holder_save_h5 (holder_obj h); dor o <- src_holder_load_h5 w; src_holder_get_score o pid) = h_get_score h pid.
Proof. exact src_holder_get_score_after_reload. Qed.
Print Assumptions C06_source_get_score_after_reload.

(* not vacuous: a holder of declared size 3 with two filled slots (ids 5 and 7) and one unfilled slot (id 0) *)
Example C06_source_holder_io_example :
  let h := mkholder 3 [(5, 11); (7, -2); (0, 0)] 2 in
  (dor w <- src_holder_save_h5 (holder_obj h); src_holder_load_h5 w) = Ok (mkpyholder 3 [11; -2; 0] [5; 7; 0] 2)
  /\ src_holder_get_score (holder_obj h) 7 = Ok (-2)
  /\ src_holder_get_score (holder_obj h) 6 = Err 8
  /\ src_holder_get_score (holder_obj (mkholder 2 [(5, 1); (5, 2)] 2)) 5 = Err 8
  /\ src_holder_init ph_blank 2 = Ok (mkpyholder 2 [0; 0] [0; 0] 0)
  /\ src_holder_init ph_blank (-1) = Err 1
  /\ src_holder_load_h5 shraw_empty = Err 30.
Proof. vm_compute. repeat split; reflexivity. Qed.
(* ================= the data.py PRIMITIVES of the scoring links are theorems =================
   C06_SELECT / C06_SCORE_CHUNK (harness/src_functions.py) give `screen.plates`, `screen.get_plate(i)`, `p.plate_id`,
   `p.is_observed` and `p.plate_name` the meanings [plates], [get_plate], [p_id], [is_observed], [plate_name] of Model/Scores.v.
   These helpers are translated themselves (Generated/SrcViews.v, Generated/SrcPlates.v, equal to the models of Model/Views.v by
   Props/C14.v); read through the representation [sc_rows] (row i of the Scores screen = the i-th plate id, mask bit, sample id
   and treatment ids of the Views screen) / [sc_subset] (the (position, row) pairs at the positions a view selects), each
   translation is the meaning the primitive was given.  Side conditions: [screen_wf] (every constructed screen), [view_ok]
   (every constructed view). *)
From Batchie Require Import Lib.PyRt Model.Encode Model.Screen Model.Views Generated.SrcViews Generated.SrcPlates
  Proofs.C14Defs Proofs.C06SourceHelpers.

(* `screen.get_plate(i)` -> [get_plate] and `screen.plates` -> [plates]: one plate per sorted distinct plate id, each the view
   get_plate builds, whose (position, row) pairs are the model plate's rows *)
Theorem C06_model_is_source_get_plate_plates :
  (forall (t : Z) (p : Screen.screen) (pid : Z), screen_wf p ->
     exists v, src_get_plate (t, p) pid = Ok v /\ sc_plate pid v = Scores.get_plate (sc_rows p) pid /\
               v_tag v = t /\ v_parent v = p /\ view_ok v) /\
  (forall (t : Z) (p : Screen.screen), screen_wf p ->
     exists vs, src_plates (t, p) = Ok vs /\
       Scores.plates (sc_rows p) = map (fun iv => sc_plate (fst iv) (snd iv)) (combine (Encode.sort_uniq Z.compare (s_pids p)) vs) /\
       length vs = length (Encode.sort_uniq Z.compare (s_pids p)) /\
       Forall (fun v => v_tag v = t /\ v_parent v = p /\ view_ok v) vs).
Proof. exact (conj src_get_plate_is_scores_get_plate src_plates_is_scores_plates). Qed.
Print Assumptions C06_model_is_source_get_plate_plates.

(* `p.plate_id` -> [p_id]: the plate get_plate(pid) returns, pid a plate id of the screen, answers pid *)
Theorem C06_model_is_source_plate_id : forall (t : Z) (p : Screen.screen) (pid : Z), screen_wf p -> In pid (s_pids p) ->
  exists v, src_get_plate (t, p) pid = Ok v /\ src_plate_id v = Ok (Scores.p_id (Scores.get_plate (sc_rows p) pid)).
Proof. exact src_plate_id_is_scores_p_id. Qed.
Print Assumptions C06_model_is_source_plate_id.

(* `p.is_observed` -> [is_observed]: np.all of the mask at the selected rows *)
Theorem C06_model_is_source_is_observed : forall (pid : Z) (v : view), screen_wf (v_parent v) -> view_ok v ->
  src_view_is_observed v = Ok (Scores.is_observed (sc_plate pid v)).
Proof. exact src_view_is_observed_is_scores. Qed.
Print Assumptions C06_model_is_source_is_observed.

(* `p.plate_name` -> [plate_name]: the model answers the POSITION of the plate's first row; the translated property returns
   the plate name stored at that position and raises IndexError exactly when the model refuses *)
Theorem C06_model_is_source_plate_name : forall (pid : Z) (v : view), screen_wf (v_parent v) -> view_ok v ->
  match Scores.plate_name (sc_plate pid v) with
  | Ok i => src_plate_name v = Ok (nth i (map Screen.r_plate (s_rows (v_parent v))) [])
  | Err _ => src_plate_name v = Err 98%Z
  end.
Proof. exact src_plate_name_is_scores_plate_name. Qed.
Print Assumptions C06_model_is_source_plate_name.

(* ---- SizeScorer.score (scoring/size.py), re-translated on every run (Generated/SrcScoring.v, configuration L10B_SIZE_SCORER;
   proof Proofs/C06SourceSize.v): on every plates dict - its keys are distinct, as in any Python dict - the scores dict has the
   same plate ids in the same order, each with the number of rows of its plate; the other four arguments are not read ---- *)
From Batchie Require Lib.PyRt Proofs.C06SourceSize.
Theorem C06_model_is_source_size_scorer_score : forall plates : list (Z * subset),
  NoDup (map fst plates) -> src_size_scorer_score plates = Ok (size_scorer plates).
Proof. exact C06SourceSize.src_size_scorer_is_model. Qed.
Print Assumptions C06_model_is_source_size_scorer_score.

(* without the side condition: the comprehension inserts from the left (a repeated key keeps its place, gets the last size) *)
Theorem C06_model_is_source_size_scorer_score_general : forall plates : list (Z * subset),
  src_size_scorer_score plates
  = Ok (fold_left (fun d x => PyRt.dict_set d (fst x) (Z.of_nat (length (snd x)))) plates []).
Proof. exact C06SourceSize.src_size_scorer_general. Qed.
Print Assumptions C06_model_is_source_size_scorer_score_general.
(* ---- the argument-handling glue of select_next_plate is what the source says NOW ----
   `src_sn_get_args` is the WHOLE function get_args of /repo's current batchie/cli/select_next_plate.py (parser.parse_args() is the primitive that
   yields the raw namespace; the statements after it - class lookup by name, required-argument annotations, cast of the KEY=VALUE
   parameters - are translated), `src_cli_select_next_plate_cmd` is main() once more as a whole command, in which get_args() is the translated
   get_args and `args.policy_cls( **args.policy_params)` is `construct` on the two namespace attributes; both re-translated on every run (configurations
   ARGS_GET_ARGS_SN / ARGS_CMD_SN -> Generated/SrcCliArgs.v).  Model: the last part of Model/Cli.v; `I` = introspection.get_class /
   get_required_init_args_with_annotations (linked to their own translations in Props/C18.v), `P` = s.lower(), int(s), float(s), the call of
   another annotation object; cast_dict_to_type is the translated function (Props/C18.v).  The statements hold for EVERY such record. *)
From Batchie Require Proofs.C06SourceArgs Proofs.C18SourceIntrospect Generated.SrcCliArgs.
Theorem C06_model_is_source_cli_args_get_args : forall (Cls F O : Type) (I : Cli.introspect Cls) (P : Cli.pyprims F O)
  (raw : Cli.sn_ns Cls F O),
  SrcCliArgs.src_sn_get_args Cls F O I P raw = Cli.sn_get_args I P raw.
Proof. exact C06SourceArgs.src_sn_get_args_is_model. Qed.
Print Assumptions C06_model_is_source_cli_args_get_args.

(* the whole command: sn_mk_policy of C06_model_is_source_cli_select_next_plate IS the class found under the name --policy,
   instantiated with the cast --policy-param values (no policy, and no class lookup at all, when --policy is absent) *)
Theorem C06_model_is_source_cli_args_select_next_plate :
  forall (Cls F O : Type) (I : Cli.introspect Cls) (P : Cli.pyprims F O) (Scr Pl Po H : Type)
         (construct : Cls -> list (Cli.str * Cli.pval F O) -> result Po) (L : Cli.sn_lib Scr Pl Po H) (mix : Z -> Z)
         (raw : Cli.sn_ns Cls F O),
  SrcCliArgs.src_cli_select_next_plate_cmd Cls F O I P Scr Pl Po H construct L mix raw
  = Cli.cli_select_next_plate_cmd I P construct L mix raw.
Proof. exact C06SourceArgs.src_cli_select_next_plate_cmd_is_model. Qed.
Print Assumptions C06_model_is_source_cli_args_select_next_plate.

(* everything from the source: the introspection record made of the translated get_class / get_required_init_args... *)
Theorem C06_model_is_source_cli_args_select_next_plate_world :
  forall (Mod Obj F O : Type) (W : Cli.pyworld Mod Obj) (P : Cli.pyprims F O) (Scr Pl Po H : Type)
         (construct : Obj -> list (Cli.str * Cli.pval F O) -> result Po) (L : Cli.sn_lib Scr Pl Po H) (mix : Z -> Z)
         (raw : Cli.sn_ns Obj F O),
  SrcCliArgs.src_cli_select_next_plate_cmd Obj F O (C18SourceIntrospect.introspect_src W) P Scr Pl Po H construct L mix raw
  = Cli.cli_select_next_plate_cmd (Cli.introspect_of W) P construct L mix raw.
Proof. exact C06SourceArgs.src_cli_select_next_plate_cmd_world. Qed.
Print Assumptions C06_model_is_source_cli_args_select_next_plate_world.

(* ---- the argparse option tables: get_parser() of calculate_scores / select_next_plate, re-read from /repo on every run by the fail-closed reader
   harness/argparse_reader.py (Generated/SrcParser_<command>.v; a get_parser that is not a plain sequence of literal
   parser.add_argument calls is refused and these theorems stop compiling).  What the argument records of Model/Cli.v assume of
   the namespace parse_args() yields - the premise of the C??_model_is_source_cli_* links - is provided by the declared options:
   Cli.declares = the attribute is the dest of EXACTLY ONE option, which stores the assumed kind of value and can be None exactly
   where the record has an option type; Cli.dests_derived = the dest the reader computed is argparse's derivation from the flags;
   Cli.dests_distinct = no dest and no flag is declared twice; Cli.seed_declared = --seed is an int option with a non-negative int
   default (get_prng_from_seed_argument never sees None); Cli.coordinates_int = --n-chunks / --chunk-index / --n-chains /
   --chain-index are int options that are never None; Cli.params_kv = every --*-param option accumulates through KVAppendAction;
   Cli.fraction_declared = --holdout-fraction is a float option with a default in [0, 1]. ---- *)

From Batchie Require Model.Cli Proofs.C18Parser Generated.SrcParser_calculate_scores Proofs.C18SourceParser_calculate_scores Generated.SrcParser_select_next_plate Proofs.C18SourceParser_select_next_plate.
Theorem C06_source_parser_calculate_scores_fields :
  forall f, In f (Cli.cs_fields ++ Cli.logging_fields) -> Cli.declares SrcParser_calculate_scores.src_parser_calculate_scores f.
Proof. exact C18SourceParser_calculate_scores.parser_calculate_scores_fields. Qed.
Print Assumptions C06_source_parser_calculate_scores_fields.

Theorem C06_source_parser_calculate_scores_dests_derived :
  Cli.dests_derived SrcParser_calculate_scores.src_parser_calculate_scores.
Proof. exact C18SourceParser_calculate_scores.parser_calculate_scores_dests_derived. Qed.
Print Assumptions C06_source_parser_calculate_scores_dests_derived.

Theorem C06_source_parser_calculate_scores_dests_distinct :
  Cli.dests_distinct SrcParser_calculate_scores.src_parser_calculate_scores.
Proof. exact C18SourceParser_calculate_scores.parser_calculate_scores_dests_distinct. Qed.
Print Assumptions C06_source_parser_calculate_scores_dests_distinct.

Theorem C06_source_parser_calculate_scores_seed :
  Cli.seed_declared SrcParser_calculate_scores.src_parser_calculate_scores.
Proof. exact C18SourceParser_calculate_scores.parser_calculate_scores_seed. Qed.
Print Assumptions C06_source_parser_calculate_scores_seed.

Theorem C06_source_parser_calculate_scores_coordinates :
  Cli.coordinates_int SrcParser_calculate_scores.src_parser_calculate_scores.
Proof. exact C18SourceParser_calculate_scores.parser_calculate_scores_coordinates. Qed.
Print Assumptions C06_source_parser_calculate_scores_coordinates.

Theorem C06_source_parser_calculate_scores_params :
  Cli.params_kv SrcParser_calculate_scores.src_parser_calculate_scores.
Proof. exact C18SourceParser_calculate_scores.parser_calculate_scores_params. Qed.
Print Assumptions C06_source_parser_calculate_scores_params.

Theorem C06_source_parser_select_next_plate_fields :
  forall f, In f (Cli.sn_fields ++ Cli.logging_fields) -> Cli.declares SrcParser_select_next_plate.src_parser_select_next_plate f.
Proof. exact C18SourceParser_select_next_plate.parser_select_next_plate_fields. Qed.
Print Assumptions C06_source_parser_select_next_plate_fields.

Theorem C06_source_parser_select_next_plate_dests_derived :
  Cli.dests_derived SrcParser_select_next_plate.src_parser_select_next_plate.
Proof. exact C18SourceParser_select_next_plate.parser_select_next_plate_dests_derived. Qed.
Print Assumptions C06_source_parser_select_next_plate_dests_derived.

Theorem C06_source_parser_select_next_plate_dests_distinct :
  Cli.dests_distinct SrcParser_select_next_plate.src_parser_select_next_plate.
Proof. exact C18SourceParser_select_next_plate.parser_select_next_plate_dests_distinct. Qed.
Print Assumptions C06_source_parser_select_next_plate_dests_distinct.

Theorem C06_source_parser_select_next_plate_seed :
  Cli.seed_declared SrcParser_select_next_plate.src_parser_select_next_plate.
Proof. exact C18SourceParser_select_next_plate.parser_select_next_plate_seed. Qed.
Print Assumptions C06_source_parser_select_next_plate_seed.

Theorem C06_source_parser_select_next_plate_params :
  Cli.params_kv SrcParser_select_next_plate.src_parser_select_next_plate.
Proof. exact C18SourceParser_select_next_plate.parser_select_next_plate_params. Qed.
Print Assumptions C06_source_parser_select_next_plate_params.

(* ---- gap review G6.1: scorers that are NOT a function of the plate, chunks repeated ----
   RandomScorer (an anchored file) or a DBAL scorer that sub-samples triples answer differently at every call: with a chunk
   file repeated in the combine order one plate carries two different scores in the combined holder.  [pscorer_t]: the
   scorer of the call at position pos of the combine order; [pipeline_pos] = pipeline with the call at position pos made by
   scorer pos (for a constant family it IS pipeline).  The selection clause in that generality: the pipeline does not raise;
   the plate returned is a candidate, allowed by the policy, and the score SOME call stored for it is <= the score ANY call
   stored for ANY allowed plate (so a change that keeps only the last score of a plate before selecting is refuted);
   None only if nothing is allowed; and every allowed plate is scored by at least one call. *)
From Batchie Require Proofs.C06AnyScorer.
Theorem C06_select_sound_any_scorer : forall (scorer : Scores.pscorer_t) (policy : option Scores.policy_t) (s : Scores.screen)
    (batch : list Z) (n : Z) (order : list Z),
  (forall f, policy = Some f -> forall b c, incl (f b c) c) ->
  (1 <= n)%Z ->
  (batch = [] \/ exists b, In b batch /\ In b (map Scores.r_plate s)) ->
  (forall k, (0 <= k < n)%Z -> In k order) -> (forall k, In k order -> (0 <= k < n)%Z) ->
  exists r, Scores.pipeline_pos scorer policy s batch n order = Ok r /\
    match r with
    | None => Scores.eligible_plates policy s batch = []
    | Some pid =>
        (In pid (map Scores.r_plate s) /\ (exists r, In r s /\ Scores.r_plate r = pid /\ Scores.r_obs r = false) /\ ~ In pid batch) /\
        In pid (map Scores.p_id (Scores.eligible_plates policy s batch)) /\
        exists pos k ps,
          nth_error order pos = Some k /\ Scores.score_chunk s batch n k = Ok ps
          /\ In (pid, Scores.rows_for s batch (Scores.get_plate s pid)) ps /\
          forall q pos' k' ps', In q (Scores.eligible_plates policy s batch) -> nth_error order pos' = Some k' ->
            Scores.score_chunk s batch n k' = Ok ps' -> In (Scores.p_id q, Scores.rows_for s batch q) ps' ->
            (scorer pos pid (Scores.rows_for s batch (Scores.get_plate s pid)) <= scorer pos' (Scores.p_id q) (Scores.rows_for s batch q))%Z
    end.
Proof. exact C06AnyScorer.select_sound_pos_rows. Qed.
Print Assumptions C06_select_sound_any_scorer.

Theorem C06_any_scorer_allowed_is_scored : forall (policy : option Scores.policy_t) (s : Scores.screen) (batch : list Z) (n : Z) (order : list Z),
  (forall f, policy = Some f -> forall b c, incl (f b c) c) ->
  (1 <= n)%Z ->
  (batch = [] \/ exists b, In b batch /\ In b (map Scores.r_plate s)) ->
  (forall k, (0 <= k < n)%Z -> In k order) -> (forall k, In k order -> (0 <= k < n)%Z) ->
  forall q, In q (Scores.eligible_plates policy s batch) ->
  exists pos k ps, nth_error order pos = Some k /\ Scores.score_chunk s batch n k = Ok ps /\ In (Scores.p_id q, Scores.rows_for s batch q) ps.
Proof. exact C06AnyScorer.allowed_is_scored_pos_rows. Qed.
Print Assumptions C06_any_scorer_allowed_is_scored.

Theorem C06_pipeline_pos_constant : forall (scorer : Scores.scorer_t) policy s batch n order,
  Scores.pipeline_pos (fun _ => scorer) policy s batch n order = Scores.pipeline scorer policy s batch n order.
Proof. exact C06AnyScorer.pipeline_pos_constant. Qed.
Print Assumptions C06_pipeline_pos_constant.

(* ---- gap review G6.3: the three conditioning primitives of the score_chunk link are theorems ----
   C06_SCORE_CHUNK gives `ScreenSubset.concat(l)`, `a.combine(b)` and `filter_dataset_to_unique_treatments(x)` the meanings
   Scores.subset_concat, Scores.subset_union and Scores.uniq_first [] - the whole clause "scored on the union of its own and the
   batch plates' experiments reduced to one experiment per distinct condition" rests on them.  The three helpers are translated
   themselves (Generated/SrcViews.v, Generated/SrcPlates.v; equal to Model/Views.v by Props/C14.v); read through the
   representation [sc_rows] / [sc_subset] of the helper links above, each translation IS the meaning the primitive was given,
   and so is their composition as score_chunk makes it.  A condition = (sample id, treatment ids in column order) on both sides. *)
From Batchie Require Proofs.C06SourceBridge.
Theorem C06_model_is_source_conditioning_helpers :
  (forall a b c : view, view_ok a -> view_ok b -> v_parent b = v_parent a -> src_view_combine a b = Ok c ->
     sc_subset c = Scores.subset_union (sc_rows (v_parent a)) (sc_subset a) (sc_subset b)) /\
  (forall (p : Screen.screen) (vs : list view) (c : view),
     Forall (fun v => v_parent v = p /\ view_ok v) vs -> src_view_concat vs = Ok c ->
     Scores.subset_concat (sc_rows p) (map sc_subset vs) = Ok (sc_subset c)) /\
  (forall v v' : view, view_ok v -> screen_wf (v_parent v) -> src_filter_unique_view v = Ok v' ->
     sc_subset v' = Scores.uniq_first [] (sc_subset v)).
Proof.
  exact (conj C06SourceBridge.src_combine_is_subset_union
          (conj C06SourceBridge.src_concat_is_subset_concat C06SourceBridge.src_filter_unique_is_uniq_first)).
Qed.
Print Assumptions C06_model_is_source_conditioning_helpers.

(* composed as score_chunk composes them: filter_dataset_to_unique_treatments(plate.combine(ScreenSubset.concat(batch plates))) *)
Theorem C06_model_is_source_conditioning :
  forall (p : Screen.screen) (plate : view) (batch_plates : list view) (u c f : view),
  screen_wf p -> v_parent plate = p -> view_ok plate ->
  Forall (fun v => v_parent v = p /\ view_ok v) batch_plates ->
  src_view_concat batch_plates = Ok u -> src_view_combine plate u = Ok c -> src_filter_unique_view c = Ok f ->
  exists su, Scores.subset_concat (sc_rows p) (map sc_subset batch_plates) = Ok su /\
    sc_subset f = Scores.uniq_first [] (Scores.subset_union (sc_rows p) (sc_subset plate) su).
Proof. exact C06SourceBridge.src_conditioning_is_scores. Qed.
Print Assumptions C06_model_is_source_conditioning.
