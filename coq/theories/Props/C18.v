(* C18 — Randomised steps are deterministic in their inputs and the given generator/seed.
   Statements only; every proof is `exact <lemma from Proofs/C18RandProg.v>`.

   What these theorems are about: the MODEL of a randomised step (Model/RandProg.v), a program that
   can obtain randomness only by asking its generator.  They say that such a step is a function of
   (inputs, answers consumed), whatever serves the answers, and that it frames out any global
   generator state.  That the IMPLEMENTATION is such a step (makes no hidden draws) is not proved
   in general; it is checked at run time by harness/c18.py (trace conformance + trapping), level `other`.
   For FOUR functions it is a theorem (last part of this file, `C18_model_is_source_*`): their source is
   re-translated on every run into a program of this very type (Generated/SrcRand.v), in which a request can
   only come from a call on the function's own generator argument, and the hand-written program is proved
   equal to the translation. *)
From Coq Require Import ZArith List Bool.
From Batchie Require Import Lib.Sexp Lib.PyRt Model.RandProg Proofs.C18RandProg Generated.SrcRand Proofs.C18Source.
Import ListNotations.
Open Scope Z_scope.

(* output and request trace depend on the program and the consumed prefix of the answers only *)
Theorem C18_explicit_stream : forall (Req Ans Out : Type) (p : prog Req Ans Out) a o rs,
  run p a = Ok (o, rs) ->
  forall a', firstn (length rs) a' = firstn (length rs) a -> run p a' = Ok (o, rs).
Proof. exact (@run_prefix). Qed.
Print Assumptions C18_explicit_stream.

(* executing against ANY generator state machine is replaying the answers it gave *)
Theorem C18_exec_is_replay : forall (Req Ans Out S : Type) (gen : S -> Req -> Ans * S) (p : prog Req Ans Out) s,
  run p (o_answers (exec gen p s)) = Ok (o_out (exec gen p s), o_reqs (exec gen p s))
  /\ length (o_answers (exec gen p s)) = length (o_reqs (exec gen p s)).
Proof. exact (@exec_is_replay). Qed.
Print Assumptions C18_exec_is_replay.

(* two worlds of any kind that gave the same answers produced the same output and request trace *)
Theorem C18_answers_determine_run :
  forall (Req Ans Out S1 S2 : Type) (g1 : S1 -> Req -> Ans * S1) (g2 : S2 -> Req -> Ans * S2)
         (p : prog Req Ans Out) s1 s2,
  o_answers (exec g1 p s1) = o_answers (exec g2 p s2) ->
  o_out (exec g1 p s1) = o_out (exec g2 p s2) /\ o_reqs (exec g1 p s1) = o_reqs (exec g2 p s2).
Proof. exact (@answers_determine_run). Qed.
Print Assumptions C18_answers_determine_run.

(* identically seeded generator (same transition function, equal state): everything is equal,
   including the final generator state *)
Theorem C18_replay_deterministic :
  forall (Req Ans Out S : Type) (g1 g2 : S -> Req -> Ans * S) (p : prog Req Ans Out) s1 s2,
  (forall s r, g1 s r = g2 s r) -> s1 = s2 -> exec g1 p s1 = exec g2 p s2.
Proof. exact (@replay_deterministic). Qed.
Print Assumptions C18_replay_deterministic.

(* world = (own generator state, global generator state); if every request is served by the own
   generator, the global state is returned untouched and has no influence *)
Theorem C18_frame :
  forall (Req Ans Out S G : Type) (gen : S -> Req -> Ans * S) (wstep : S * G -> Req -> Ans * (S * G))
         (p : prog Req Ans Out),
  (forall s g r, wstep (s, g) r = (fst (gen s r), (snd (gen s r), g))) ->
  forall s g,
    o_out (exec wstep p (s, g)) = o_out (exec gen p s)
    /\ o_reqs (exec wstep p (s, g)) = o_reqs (exec gen p s)
    /\ o_answers (exec wstep p (s, g)) = o_answers (exec gen p s)
    /\ o_final (exec wstep p (s, g)) = (o_final (exec gen p s), g).
Proof. exact (@frame). Qed.
Print Assumptions C18_frame.

(* the quantifier of the property: two runs, any prior global state, any global activity in between *)
Theorem C18_two_runs_interleaved :
  forall (Req Ans Out S G : Type) (gen : S -> Req -> Ans * S) (wstep : S * G -> Req -> Ans * (S * G))
         (p : prog Req Ans Out) (perturb : G -> G),
  (forall s g r, wstep (s, g) r = (fst (gen s r), (snd (gen s r), g))) ->
  forall s g,
    let run1 := exec wstep p (s, g) in
    let run2 := exec wstep p (s, perturb (snd (o_final run1))) in
    o_out run1 = o_out run2 /\ o_reqs run1 = o_reqs run2 /\ o_answers run1 = o_answers run2
    /\ fst (o_final run1) = fst (o_final run2)
    /\ snd (o_final run1) = g /\ snd (o_final run2) = perturb g.
Proof. exact (@two_runs_interleaved). Qed.
Print Assumptions C18_two_runs_interleaved.

(* pipelines that thread one generator through several steps consume the stream left to right *)
Theorem C18_bind_sequential :
  forall (Req Ans A B : Type) (p : prog Req Ans A) (f : A -> prog Req Ans B) a1 a2 x r1 y r2,
  run p a1 = Ok (x, r1) -> length a1 = length r1 -> run (f x) a2 = Ok (y, r2) ->
  run (bind p f) (a1 ++ a2) = Ok (y, r1 ++ r2).
Proof. exact (@bind_sequential). Qed.
Print Assumptions C18_bind_sequential.

Theorem C18_for_each_trace :
  forall (Req Ans A B : Type) (rq : A -> Req) (post : A -> Ans -> B) l answers,
  (length l <= length answers)%nat ->
  run (for_each (fun x => Draw (rq x) (fun a => Ret (post x a))) l) answers
  = Ok (map (fun xa => post (fst xa) (snd xa)) (combine l answers), map rq l).
Proof. exact (@for_each_trace). Qed.
Print Assumptions C18_for_each_trace.

(* the mirrored operations *)
Theorem C18_random_scorer_trace : forall plates answers,
  (length plates <= length answers)%nat ->
  run (random_scorer_prog plates) answers
  = Ok (map (fun xa => (fst xa, hd 0 (snd xa))) (combine plates answers),
        map (fun _ => RRandom) plates).
Proof. exact random_scorer_trace. Qed.
Print Assumptions C18_random_scorer_trace.

Theorem C18_balanced_holdout_trace : forall plates num den answers out reqs,
  run (balanced_holdout_prog plates num den) answers = Ok (out, reqs) ->
  reqs = map (balanced_holdout_req num den) (filter (fun pl => negb (snd pl)) plates).
Proof. exact balanced_holdout_trace. Qed.
Print Assumptions C18_balanced_holdout_trace.

(* the hypothesis of C18_frame is necessary: a step served from the GLOBAL component (the legacy
   Gibbs sampler's np.random.normal / np.random.gamma) depends on it and perturbs it *)
Theorem C18_global_draws_refuted :
  exists (p : prog req ans Z) (ggen : Z -> req -> ans * Z) (s g1 g2 : Z),
    o_out (exec (from_global ggen) p (s, g1)) <> o_out (exec (from_global ggen) p (s, g2))
    /\ snd (o_final (exec (from_global ggen) p (s, g1))) <> g1.
Proof. exact global_draws_refuted. Qed.
Print Assumptions C18_global_draws_refuted.

(* ---------------------------------------------------------------- non-vacuity *)

(* random scorer on plates 3,1: answers consumed in plate order; a third answer is ignored *)
Example C18_random_scorer_example :
  run (random_scorer_prog [3; 1]) [[50]; [70]; [90]] = Ok ([(3, 50); (1, 70)], [RRandom; RRandom]).
Proof. vm_compute. reflexivity. Qed.
Example C18_random_scorer_short_example : run (random_scorer_prog [3; 1]) [[50]] = Err 1.
Proof. vm_compute. reflexivity. Qed.

(* balanced hold-out: plates {0,2} unobserved, {1} observed, {3,4,5} unobserved, fraction 1/2 *)
Example C18_balanced_holdout_example :
  run (balanced_holdout_prog [([0; 2], false); ([1], true); ([3; 4; 5], false)] 1 2) [[2]; [5; 3]]
  = Ok ([2; 3; 5], [RChoice [0; 2] 1 false; RChoice [3; 4; 5] 2 false]).
Proof. vm_compute. reflexivity. Qed.
Example C18_balanced_holdout_contract_example :
  answers_ok [RChoice [0; 2] 1 false; RChoice [3; 4; 5] 2 false] [[2]; [5; 3]] = true
  /\ answers_ok [RChoice [0; 2] 1 false; RChoice [3; 4; 5] 2 false] [[2]; [5; 5]] = false.
Proof. vm_compute. split; reflexivity. Qed.

Example C18_random_holdout_example :
  run (random_holdout_prog 5 1 2) [[4; 0; 2]] = Ok ([0; 2; 4], [RChoice [0; 1; 2; 3; 4] 3 false]).
Proof. vm_compute. reflexivity. Qed.

Example C18_dbal_subsample_example :
  run (dbal_subsample_prog 8 30) [[1; 2; 3]] = Ok (Ok [1; 2; 3], [RChoiceN 56 30 false])
  /\ run (dbal_subsample_prog 2 30) [] = Ok (Err 4, []).
Proof. vm_compute. split; reflexivity. Qed.

(* the frame hypothesis is satisfiable (own_only) and the conclusion is non-trivial: a counter
   generator as own state, any global value *)
Example C18_frame_hypothesis_example :
  forall (s g : Z) (r : req), own_only counter_gen (s, g) r = (fst (counter_gen s r), (snd (counter_gen s r), g)).
Proof. exact (@own_only_is_own req ans Z Z counter_gen). Qed.
Example C18_frame_example :
  exec (own_only counter_gen) (random_scorer_prog [3; 1]) (10, 77)
  = mk_outcome [(3, 10); (1, 11)] [RRandom; RRandom] [[10]; [11]] (12, 77).
Proof. vm_compute. reflexivity. Qed.
(* ... and the same program served from the global state reads and moves it *)
Example C18_leak_example :
  exec (from_global counter_gen) (random_scorer_prog [3; 1]) (10, 77)
  = mk_outcome [(3, 77); (1, 78)] [RRandom; RRandom] [[77]; [78]] (10, 79).
Proof. vm_compute. reflexivity. Qed.

(* sequential composition: scorer on [3] then on [1] with one stream = scorer on [3;1] *)
Example C18_bind_example :
  run (bind (random_scorer_prog [3]) (fun x => bind (random_scorer_prog [1]) (fun y => Ret (x ++ y)))) [[50]; [70]]
  = Ok ([(3, 50); (1, 70)], [RRandom; RRandom]).
Proof. vm_compute. reflexivity. Qed.

(* ---------------------------------------------------------------- source-translation links
   Generated/SrcRand.v is the translation (harness/py2gal.py, configurations C18_* of harness/src_functions.py) of
     RandomScorer.score, create_random_holdout, create_plate_balanced_holdout_set_among_masked_plates (whole functions)
     and of the statement run of dbal_fast_gauss_scoring_vectorized that sub-samples the theta triples
   into programs of type [rprog T] = [prog req ans (result T)].  The translator is fail-closed: the only primitives that
   contain a request are the three calls on the function's own generator argument (rng.random(), rng.choice(array, k,
   replace=False), rng.choice(n, size=k, replace=False)); a call of a module-level numpy.random function, of an
   argument-less default_rng(), or any other undeclared call inside such a function is refused and these theorems are not
   re-established.  Being of type [prog], the translated source is subject to every theorem above (explicit stream,
   exec = replay, frame, two interleaved runs) directly; the links below say in addition that it is the hand-written
   program the trace theorems and the trace conformance are about.
   [prog_eq_on okA p q]: same requests in the same order and the same output, for all answers admitted by okA. *)

(* what program equality means for replay and for execution against a generator *)
Theorem C18_prog_eq_replay : forall (Req Ans Out : Type) (p q : prog Req Ans Out),
  prog_eq_on any_answer p q -> forall answers, run p answers = run q answers.
Proof. exact peq_run_any. Qed.
Print Assumptions C18_prog_eq_replay.

Theorem C18_prog_eq_replay_valid : forall (Req Ans : Type) (okA : Req -> Ans -> bool) (Out : Type) (p q : prog Req Ans Out),
  prog_eq_on okA p q ->
  forall answers o rs, run p answers = Ok (o, rs) -> all_ok okA rs answers = true -> run q answers = Ok (o, rs).
Proof. exact (@peq_run). Qed.
Print Assumptions C18_prog_eq_replay_valid.

Theorem C18_prog_eq_exec : forall (Req Ans : Type) (okA : Req -> Ans -> bool) (Out S : Type) (gen : S -> Req -> Ans * S)
                                  (p q : prog Req Ans Out),
  (forall s r, okA r (fst (gen s r)) = true) -> prog_eq_on okA p q -> forall s, exec gen p s = exec gen q s.
Proof. exact (@peq_exec). Qed.
Print Assumptions C18_prog_eq_exec.

(* RandomScorer.score; [plates] = the keys of the dict in iteration order, pairwise distinct in every reachable call *)
Theorem C18_model_is_source_random_scorer : forall plates, NoDup plates ->
  prog_eq_on any_answer (src_random_scorer_score plates) (lift_ok (random_scorer_prog plates)).
Proof. exact src_random_scorer_is_model. Qed.
Print Assumptions C18_model_is_source_random_scorer.

(* create_random_holdout, for ANY screen type, size function and meaning of the two Screen(...) constructions;
   answers restricted to numpy's contract (rng.choice returns k distinct elements of its pool) *)
Theorem C18_model_is_source_random_holdout :
  forall (Scr : Type) (scr_size : Scr -> Z) (mk_keep mk_hold : Scr -> list bool -> result Scr) num den screen,
  prog_eq_on valid_answer
    (src_random_holdout Scr scr_size mk_keep mk_hold num den screen)
    (if (num <? 0) || (den <? num) then Ret (Err 5)
     else bind (random_holdout_prog (scr_size screen) num den)
               (fun held => Ret (holdout_finish mk_keep mk_hold screen (mask_of (scr_size screen) held)))).
Proof. exact src_random_holdout_is_model. Qed.
Print Assumptions C18_model_is_source_random_holdout.

(* create_plate_balanced_holdout_set_among_masked_plates.  Hypotheses = facts about every reachable screen (every row
   lies on exactly one plate): the plates' index lists have screen.size entries in all, each a row number *)
Theorem C18_model_is_source_balanced_holdout :
  forall (Scr : Type) (scr_size : Scr -> Z) (scr_plates : Scr -> list plate_t)
         (mk_keep mk_hold : Scr -> list bool -> result Scr) num den screen,
  scr_size screen = zlen (concat (map fst (scr_plates screen))) ->
  (forall pl i, In pl (scr_plates screen) -> In i (fst pl) -> 0 <= i < scr_size screen) ->
  prog_eq_on valid_answer
    (src_balanced_holdout_prog Scr scr_size scr_plates mk_keep mk_hold num den screen)
    (if (num <? 0) || (den <? num) then Ret (Err 5)
     else bind (balanced_holdout_prog (scr_plates screen) num den)
               (fun held => Ret (holdout_finish mk_keep mk_hold screen (mask_of (scr_size screen) held)))).
Proof. exact src_balanced_holdout_is_model. Qed.
Print Assumptions C18_model_is_source_balanced_holdout.

(* the triple sub-sampling of dbal_fast_gauss_scoring_vectorized: the same term *)
Theorem C18_model_is_source_dbal_subsample : forall n_thetas max_combos,
  src_dbal_subsample n_thetas max_combos = dbal_subsample_prog n_thetas max_combos.
Proof. exact src_dbal_subsample_is_model. Qed.
Print Assumptions C18_model_is_source_dbal_subsample.

(* FixedSizeSmoother._smooth_plates (whole method), for ANY screen type, size / plates functions and meaning of
   screen.subset(v).to_screen(); all answers *)
Theorem C18_model_is_source_fixed_size_smoother :
  forall (Scr : Type) (scr_size : Scr -> Z) (scr_plates : Scr -> list (list bool)) (mk_subset : Scr -> list bool -> result Scr)
         plate_size screen,
  prog_eq_on any_answer
    (src_fixed_size_smooth Scr scr_size scr_plates mk_subset plate_size screen)
    (bind (size_smoother_prog (scr_plates screen) (scr_size screen) plate_size) (fun v => Ret (mk_subset screen v))).
Proof. exact src_fixed_size_is_model. Qed.
Print Assumptions C18_model_is_source_fixed_size_smoother.

(* OptimalSizeSmoother._smooth_plates (whole method); the three numpy statements that pick the size are ANY request-free
   function [opt_size] of the list of plate sizes, possibly raising *)
Theorem C18_model_is_source_optimal_size_smoother :
  forall (Scr : Type) (scr_size : Scr -> Z) (scr_plates : Scr -> list (list bool)) (mk_subset : Scr -> list bool -> result Scr)
         (opt_size : list Z -> result Z) screen,
  prog_eq_on any_answer
    (src_optimal_size_smooth Scr scr_size scr_plates mk_subset opt_size screen)
    (match opt_size (map count_true (scr_plates screen)) with
     | Err e => Ret (Err e)
     | Ok t => bind (size_smoother_prog (scr_plates screen) (scr_size screen) t) (fun v => Ret (mk_subset screen v))
     end).
Proof. exact src_optimal_size_is_model. Qed.
Print Assumptions C18_model_is_source_optimal_size_smoother.

(* PlatePermutationPlateGenerator._generate_plates (whole method): everything around its ONE request is request-free, for ANY
   screen type and meaning of screen.subset(v).to_screen(), of the Screen(...) construction and of a.combine(b) *)
Theorem C18_model_is_source_plate_permutation :
  forall (Scr : Type) (scr_size : Scr -> Z) (scr_plate_names : Scr -> list Z) (mk_subset : Scr -> list bool -> result Scr)
         (mk_renamed : Scr -> list Z -> result Scr) (mk_combine : Scr -> Scr -> result Scr) force screen,
  prog_eq_on any_answer
    (src_plate_permutation Scr scr_size scr_plate_names mk_subset mk_renamed mk_combine force screen)
    (match pp_split mk_subset screen (pp_selection force (scr_plate_names screen) (scr_size screen)) with
     | Err e => Ret (Err e)
     | Ok (tp, np) => bind (plate_permutation_prog (scr_plate_names tp))
                           (fun new_names => Ret (pp_finish mk_renamed mk_combine tp np new_names))
     end).
Proof. exact src_plate_permutation_is_model. Qed.
Print Assumptions C18_model_is_source_plate_permutation.

(* SampleSegregatingPermutationPlateGenerator._generate_plates (whole method) *)
Theorem C18_model_is_source_sample_segregating :
  forall (Scr : Type) (scr_size : Scr -> Z) (scr_sample_ids : Scr -> list Z) (scr_sample_rows : Scr -> Z -> list Z)
         (mk_labelled : Scr -> list Z -> result Scr) max_plate_size screen,
  prog_eq_on any_answer
    (src_sample_segregating Scr scr_size scr_sample_ids scr_sample_rows mk_labelled max_plate_size screen)
    (bind (sample_seg_prog (map (scr_sample_rows screen) (scr_sample_ids screen)) (scr_size screen) max_plate_size)
          (fun r => Ret (match r with Ok labels => mk_labelled screen labels | Err e => Err e end))).
Proof. exact src_sample_segregating_is_model. Qed.
Print Assumptions C18_model_is_source_sample_segregating.

(* the trace theorems, now about the translated source *)
Theorem C18_source_fixed_size_smoother_trace :
  forall (Scr : Type) (scr_size : Scr -> Z) (scr_plates : Scr -> list (list bool)) (mk_subset : Scr -> list bool -> result Scr)
         plate_size screen answers out reqs,
  run (src_fixed_size_smooth Scr scr_size scr_plates mk_subset plate_size screen) answers = Ok (out, reqs) ->
  reqs = map (size_smoother_req (scr_size screen) plate_size) (filter (fun v => plate_size <? count_true v) (scr_plates screen)).
Proof. exact src_fixed_size_trace. Qed.
Print Assumptions C18_source_fixed_size_smoother_trace.

Theorem C18_source_random_scorer_trace : forall plates answers, NoDup plates ->
  (length plates <= length answers)%nat ->
  run (src_random_scorer_score plates) answers
  = Ok (Ok (map (fun xa => (fst xa, hd 0 (snd xa))) (combine plates answers)), map (fun _ => RRandom) plates).
Proof. exact src_random_scorer_trace. Qed.
Print Assumptions C18_source_random_scorer_trace.

Theorem C18_source_balanced_holdout_trace :
  forall (Scr : Type) (scr_size : Scr -> Z) (scr_plates : Scr -> list plate_t)
         (mk_keep mk_hold : Scr -> list bool -> result Scr) num den screen answers out reqs,
  scr_size screen = zlen (concat (map fst (scr_plates screen))) ->
  (forall pl i, In pl (scr_plates screen) -> In i (fst pl) -> 0 <= i < scr_size screen) ->
  (num <? 0) || (den <? num) = false ->
  run (src_balanced_holdout_prog Scr scr_size scr_plates mk_keep mk_hold num den screen) answers = Ok (out, reqs) ->
  all_ok valid_answer reqs answers = true ->
  reqs = map (balanced_holdout_req num den) (filter (fun pl => negb (snd pl)) (scr_plates screen)).
Proof. exact src_balanced_holdout_trace. Qed.
Print Assumptions C18_source_balanced_holdout_trace.

(* non-vacuity: the translations compute, and agree with the hand-written programs' examples above *)
Example C18_source_random_scorer_example :
  run (src_random_scorer_score [3; 1]) [[50]; [70]; [90]] = Ok (Ok [(3, 50); (1, 70)], [RRandom; RRandom]).
Proof. vm_compute. reflexivity. Qed.

(* a toy screen type: the screen is its observation mask; the kept / held screens are the vectors themselves *)
Example C18_source_random_holdout_example :
  run (src_random_holdout (list bool) zlen (fun _ v => Ok (map negb v)) (fun _ v => Ok v) 1 2 [false; false; false; false; false])
      [[4; 0; 2]]
  = Ok (Ok ([false; true; false; true; false], [true; false; true; false; true]), [RChoice [0; 1; 2; 3; 4] 3 false])
  /\ mask_of 5 [0; 2; 4] = [true; false; true; false; true].
Proof. vm_compute. split; reflexivity. Qed.
(* an answer outside numpy's contract (row 7 of 5) is the IndexError of the index-array store, a fraction above 1 the ValueError *)
Example C18_source_random_holdout_raises_example :
  run (src_random_holdout (list bool) zlen (fun _ v => Ok (map negb v)) (fun _ v => Ok v) 1 2 [false; false; false; false; false])
      [[7; 0; 2]] = Ok (Err 98, [RChoice [0; 1; 2; 3; 4] 3 false])
  /\ run (src_random_holdout (list bool) zlen (fun _ v => Ok (map negb v)) (fun _ v => Ok v) 3 2 [false]) [] = Ok (Err 5, []).
Proof. vm_compute. split; reflexivity. Qed.

(* the hypotheses of the balanced link are satisfiable: 6 rows on the plates {0,2}, {1} (observed), {3,4,5} *)
Example C18_source_balanced_holdout_example :
  let plates := [([0; 2], false); ([1], true); ([3; 4; 5], false)] in
  run (src_balanced_holdout_prog unit (fun _ => 6) (fun _ => plates) (fun _ v => Ok tt) (fun _ v => if nth 2 v false then Ok tt else Err 7)
                                 1 2 tt) [[2]; [5; 3]]
  = Ok (Ok (tt, tt), [RChoice [0; 2] 1 false; RChoice [3; 4; 5] 2 false])
  /\ 6 = zlen (concat (map fst plates)).
Proof. vm_compute. split; reflexivity. Qed.

Example C18_source_dbal_subsample_example :
  run (src_dbal_subsample 8 30) [[1; 2; 3]] = Ok (Ok [1; 2; 3], [RChoiceN 56 30 false])
  /\ run (src_dbal_subsample 2 30) [] = Ok (Err 4, []).
Proof. vm_compute. split; reflexivity. Qed.

(* 6 rows; plates {0,1,2}, {3,4}, {5}; size 2: the first is sub-sampled to the answer, the second kept, the third dropped *)
Example C18_source_fixed_size_example :
  let plates := [[true; true; true; false; false; false]; [false; false; false; true; true; false];
                 [false; false; false; false; false; true]] in
  run (src_fixed_size_smooth unit (fun _ => 6) (fun _ => plates) (fun _ v => if nth 5 v false then Err 7 else Ok tt) 2 tt) [[2; 0]]
  = Ok (Ok tt, [RChoice [0; 1; 2] 2 false])
  /\ run (size_smoother_prog plates 6 2) [[2; 0]] = Ok ([true; false; true; true; true; false], [RChoice [0; 1; 2] 2 false]).
Proof. vm_compute. split; reflexivity. Qed.
Example C18_source_optimal_size_example :
  let plates := [[true; true; true; false; false; false]; [false; false; false; true; true; false]] in
  run (src_optimal_size_smooth unit (fun _ => 6) (fun _ => plates) (fun _ _ => Ok tt) (fun sizes => Ok (fold_right Z.min 9 sizes)) tt) [[1; 2]]
  = Ok (Ok tt, [RChoice [0; 1; 2] 2 false])
  /\ run (src_optimal_size_smooth unit (fun _ => 6) (fun _ => plates) (fun _ _ => Ok tt) (fun _ => Err 3) tt) [] = Ok (Err 3, []).
Proof. vm_compute. split; reflexivity. Qed.

(* plate names 7 7 8 9 with 9 force-included: the names 7 7 8 of the first three rows are permuted *)
Example C18_source_plate_permutation_example :
  run (src_plate_permutation (list Z) zlen (fun s => s) (fun s v => Ok (map snd (filter fst (combine v s))))
                             (fun _ new_names => Ok new_names) (fun a b => Ok (a ++ b)) (Some [9]) [7; 7; 8; 9]) [[8; 7; 7]]
  = Ok (Ok [8; 7; 7; 9], [RPermutation [7; 7; 8]])
  /\ valid_answer (RPermutation [7; 7; 8]) [8; 7; 7] = true /\ valid_answer (RPermutation [7; 7; 8]) [8; 8; 7] = false.
Proof. vm_compute. repeat split; reflexivity. Qed.

(* samples 0 (rows 0 2 4 5 6) and 1 (rows 1 3), at most 2 rows per plate: sample 0 is permuted and split 2 + 2 + 1 *)
Example C18_source_sample_segregating_example :
  run (src_sample_segregating unit (fun _ => 7) (fun _ => [0; 1]) (fun _ i => if i =? 0 then [0; 2; 4; 5; 6] else [1; 3])
                              (fun _ labels => if nth 6 labels 0 =? 1 then Ok tt else Err 7) 2 tt) [[5; 0; 6; 2; 4]]
  = Ok (Ok tt, [RPermutation [0; 2; 4; 5; 6]])
  /\ run (sample_seg_prog [[0; 2; 4; 5; 6]; [1; 3]] 7 2) [[5; 0; 6; 2; 4]]
     = Ok (Ok [0; 3; 1; 3; 2; 0; 1], [RPermutation [0; 2; 4; 5; 6]])
  /\ run (sample_seg_prog [[0; 2; 4]] 3 0) [] = Ok (Err 94, []).
Proof. vm_compute. repeat split; reflexivity. Qed.

(* ---- the command-line wrapper calculate_scores.main is what the source says NOW ----
   `src_cli_calculate_scores` is the whole function main of /repo's current batchie/cli/calculate_scores.py and
   `src_get_prng_from_seed_argument` the whole function of cli/argument_parsing.py, re-translated on every run (harness/py2gal.py,
   configurations CLI_CALCULATE_SCORES / CLI_PRNG -> Generated/SrcCli.v).  The wrapper hands score_chunk the generator derived from
   --seed (rng = Some ..., never the library's unseeded default) - the defect repaired by 9b38441 was exactly its absence.
   Model/Cli.v: the parsed arguments are a record of the plain argparse results (get_args() is not translated), `L` is a
   record of the library functions the wrapper calls over abstract types (each component stands for the library function
   of that name with its parameter list; `*_load_*` = what loading the file at a path yields), a main() denotes the list
   of (path, content) files it writes, Err = the exception that ends it.  The links hold for EVERY such record. *)
From Batchie Require Lib.PyRt Model.Cli Generated.SrcCli Proofs.C06SourceCli.
Theorem C18_model_is_source_cli_get_prng_from_seed_argument : forall (mix : Z -> Z) (seed : Z),
  SrcCli.src_get_prng_from_seed_argument mix seed
  = Cli.prng_of_seed mix seed.
Proof. exact C06SourceCli.src_get_prng_is_model. Qed.
Print Assumptions C18_model_is_source_cli_get_prng_from_seed_argument.

Theorem C18_model_is_source_cli_calculate_scores : forall (Scr Pl Th Dm Sc H : Type) (L : Cli.cs_lib Scr Pl Th Dm Sc H) (mix : Z -> Z) (a : Cli.cs_args),
  SrcCli.src_cli_calculate_scores Scr Pl Th Dm Sc H L mix a
  = Cli.cli_calculate_scores L mix a.
Proof. exact C06SourceCli.src_cli_calculate_scores_is_model. Qed.
Print Assumptions C18_model_is_source_cli_calculate_scores.

(* ---- the argument-handling glue of the command-line wrappers is what the source says NOW ----
   How command-line strings become the class and the parameter dict that main() instantiates.  Re-translated on every run
   (harness/py2gal.py, configurations ARGS_* of harness/src_functions.py -> Generated/SrcCliArgs.v): the WHOLE functions
   str_to_bool, cast_dict_to_type and KVAppendAction.__call__ of cli/argument_parsing.py, get_class / create_instance /
   get_required_init_args_with_annotations of introspection.py, the WHOLE function get_args of cli/calculate_scores.py
   (parser.parse_args() is the primitive that yields the raw namespace) and main() once more as a whole command, in which
   get_args() is the translated get_args and `args.scorer_cls( **args.scorer_params)` is `construct` on the two namespace
   attributes.  Model: the last part of Model/Cli.v (a str = the list of its code points; dicts = insertion-ordered association
   lists; `pyprims` = s.lower(), int(s), float(s), the call of another annotation; `pyworld` = importlib / pkgutil / inspect).
   Every statement holds for EVERY record of primitives. *)
From Batchie Require Proofs.C18SourceArgs Proofs.C18Args Proofs.C18SourceIntrospect Generated.SrcCliArgs.

Theorem C18_model_is_source_cli_args_str_to_bool : forall (F O : Type) (P : Cli.pyprims F O) (s : Cli.str),
  SrcCliArgs.src_str_to_bool F O P s = Cli.str_to_bool P s.
Proof. exact (@C18SourceArgs.src_str_to_bool_is_model). Qed.
Print Assumptions C18_model_is_source_cli_args_str_to_bool.

Theorem C18_model_is_source_cli_args_cast_dict_to_type : forall (F O : Type) (P : Cli.pyprims F O)
  (k_v_string : list (Cli.str * Cli.str)) (k_v_types : list (Cli.str * Cli.ann)),
  SrcCliArgs.src_cast_dict_to_type F O P k_v_string k_v_types = Cli.cast_dict P k_v_string k_v_types.
Proof. exact C18SourceArgs.src_cast_dict_is_model. Qed.
Print Assumptions C18_model_is_source_cli_args_cast_dict_to_type.

(* `dest` = the namespace seen at the action's destination attribute (None before the first occurrence of the option) *)
Theorem C18_model_is_source_cli_args_kv_append_action : forall (dest : option (list (Cli.str * Cli.str))) (values : list Cli.str),
  SrcCliArgs.src_kv_append dest values = Cli.kv_append dest values.
Proof. exact C18SourceArgs.src_kv_append_is_model. Qed.
Print Assumptions C18_model_is_source_cli_args_kv_append_action.

Theorem C18_model_is_source_cli_args_get_args : forall (Cls F O : Type) (I : Cli.introspect Cls) (P : Cli.pyprims F O)
  (raw : Cli.cs_ns Cls F O),
  SrcCliArgs.src_cs_get_args Cls F O I P raw = Cli.cs_get_args I P raw.
Proof. exact C18SourceArgs.src_cs_get_args_is_model. Qed.
Print Assumptions C18_model_is_source_cli_args_get_args.

(* the whole command: cs_mk_scorer of C18_model_is_source_cli_calculate_scores IS the class found under the name --scorer,
   instantiated with the --scorer-param values cast by the annotations of its required __init__ arguments *)
Theorem C18_model_is_source_cli_args_calculate_scores :
  forall (Cls F O : Type) (I : Cli.introspect Cls) (P : Cli.pyprims F O) (Scr Pl Th Dm Sc H : Type)
         (construct : Cls -> list (Cli.str * Cli.pval F O) -> result Sc) (L : Cli.cs_lib Scr Pl Th Dm Sc H) (mix : Z -> Z)
         (raw : Cli.cs_ns Cls F O),
  SrcCliArgs.src_cli_calculate_scores_cmd Cls F O I P Scr Pl Th Dm Sc H construct L mix raw
  = (dor cp <- Cli.resolve I P Cli.BScorer (Cli.cs_scorer raw) (Cli.cs_scorer_param raw);
     Cli.cli_calculate_scores (Cli.cs_with_mk L (Cli.instantiate construct (fst cp) (snd cp))) mix (Cli.cs_plain raw)).
Proof. exact C18SourceArgs.src_cli_calculate_scores_cmd_spelled. Qed.
Print Assumptions C18_model_is_source_cli_args_calculate_scores.

Theorem C18_model_is_source_cli_args_get_class : forall (Mod Obj : Type) (W : Cli.pyworld Mod Obj)
  (package_name class_name : Cli.str) (base : Cli.base_class),
  SrcCliArgs.src_get_class Mod Obj W package_name class_name base = Cli.get_class W package_name class_name base.
Proof. exact (@C18SourceIntrospect.src_get_class_is_model). Qed.
Print Assumptions C18_model_is_source_cli_args_get_class.

Theorem C18_model_is_source_cli_args_create_instance : forall (Mod Obj : Type) (W : Cli.pyworld Mod Obj) (V Inst : Type)
  (construct : Obj -> V -> result Inst) (package_name class_name : Cli.str) (base : Cli.base_class) (kwargs : V),
  SrcCliArgs.src_create_instance Mod Obj W V Inst construct package_name class_name base kwargs
  = Cli.create_instance W construct package_name class_name base kwargs.
Proof. exact (@C18SourceIntrospect.src_create_instance_is_model). Qed.
Print Assumptions C18_model_is_source_cli_args_create_instance.

Theorem C18_model_is_source_cli_args_get_required_init_args_with_annotations :
  forall (Mod Obj : Type) (W : Cli.pyworld Mod Obj) (c : option Obj),
  SrcCliArgs.src_get_required_init_args Mod Obj W c = Cli.required_args W c.
Proof. exact (@C18SourceIntrospect.src_get_required_init_args_is_model). Qed.
Print Assumptions C18_model_is_source_cli_args_get_required_init_args_with_annotations.

(* everything from the source: the introspection record made of the translated get_class / get_required_init_args... *)
Theorem C18_model_is_source_cli_args_calculate_scores_world :
  forall (Mod Obj F O : Type) (W : Cli.pyworld Mod Obj) (P : Cli.pyprims F O) (Scr Pl Th Dm Sc H : Type)
         (construct : Obj -> list (Cli.str * Cli.pval F O) -> result Sc) (L : Cli.cs_lib Scr Pl Th Dm Sc H) (mix : Z -> Z)
         (raw : Cli.cs_ns Obj F O),
  SrcCliArgs.src_cli_calculate_scores_cmd Obj F O (C18SourceIntrospect.introspect_src W) P Scr Pl Th Dm Sc H construct L mix raw
  = Cli.cli_calculate_scores_cmd (Cli.introspect_of W) P construct L mix raw.
Proof. exact C18SourceIntrospect.src_cli_calculate_scores_cmd_world. Qed.
Print Assumptions C18_model_is_source_cli_args_calculate_scores_world.

(* -- what the linked models say (hence the source): booleans -- *)
(* an unknown spelling raises; the ten known ones (after lower()) give their value; 'no' & co. can never read as True *)
Theorem C18_cli_args_unknown_bool_raises : forall (F O : Type) (P : Cli.pyprims F O) (s : Cli.str),
  ~ In (Cli.p_lower P s) Cli.true_words -> ~ In (Cli.p_lower P s) Cli.false_words -> Cli.str_to_bool P s = Err 22.
Proof. exact (@C18Args.str_to_bool_unknown). Qed.
Print Assumptions C18_cli_args_unknown_bool_raises.

Theorem C18_cli_args_bool_spellings : forall (F O : Type) (P : Cli.pyprims F O) (s : Cli.str),
  (In (Cli.p_lower P s) Cli.true_words -> Cli.str_to_bool P s = Ok true) /\
  (In (Cli.p_lower P s) Cli.false_words -> Cli.str_to_bool P s = Ok false) /\
  (forall b, Cli.str_to_bool P s = Ok b -> In (Cli.p_lower P s) (if b then Cli.true_words else Cli.false_words)).
Proof. exact (@C18Args.bool_spellings). Qed.
Print Assumptions C18_cli_args_bool_spellings.

(* -- the converter table, entry by entry: bool through str_to_bool (NOT bool(s)), int / float / str through the builtin,
      an unannotated argument cannot be given (TypeError), any other annotation is called on the string -- *)
Theorem C18_cli_args_converter_table : forall (F O : Type) (P : Cli.pyprims F O) (v : Cli.str),
  Cli.convert P Cli.ABool v = (dor b <- Cli.str_to_bool P v; Ok (Cli.VBool b)) /\
  Cli.convert P Cli.AInt v = (dor z <- Cli.p_int P v; Ok (Cli.VInt z)) /\
  Cli.convert P Cli.AFloat v = (dor f <- Cli.p_float P v; Ok (Cli.VFloat f)) /\
  Cli.convert P Cli.AStr v = Ok (Cli.VStr v) /\
  Cli.convert P Cli.ANone v = Err 26 /\
  (forall n, Cli.convert P (Cli.AOther n) v = (dor o <- Cli.p_call_other P n v; Ok (Cli.VOther o))).
Proof. exact (@C18Args.converter_table). Qed.
Print Assumptions C18_cli_args_converter_table.

(* -- cast_dict_to_type: exactly the typed values, in the dict's order; the first failing item's exception (KeyError 25 for a KEY
      that is not a required argument, else the converter's) -- *)
Theorem C18_cli_args_cast_exact : forall (F O : Type) (P : Cli.pyprims F O) (d : list (Cli.str * Cli.str))
  (types : list (Cli.str * Cli.ann)),
  NoDup (map fst d) -> Cli.cast_dict P d types = res_map_all (C18Args.cast_item P types) d.
Proof. exact (@C18Args.cast_dict_exact). Qed.
Print Assumptions C18_cli_args_cast_exact.

(* -- KVAppendAction on one word: KEY=VALUE without further '=' is stored (a repeated KEY keeps its place, the later VALUE
      wins); a word without '=' is an ArgumentError; and - maxsplit is 2, not 1 - so is a word whose VALUE contains '=' -- *)
Theorem C18_cli_args_kv_word : forall (dest : option (list (Cli.str * Cli.str))) (k v w : Cli.str),
  (~ In 61 k -> ~ In 61 v ->
   Cli.kv_append dest [k ++ 61 :: v] = Ok (Some (kdict_set PyRt.str_eqb (opt_or_empty dest) k v))) /\
  (~ In 61 w -> Cli.kv_append dest [w] = Err 21) /\
  (~ In 61 k -> In 61 v -> Cli.kv_append dest [k ++ 61 :: v] = Err 21).
Proof. exact C18Args.kv_word_cases. Qed.
Print Assumptions C18_cli_args_kv_word.

(* -- end to end: the words KEY=VALUE ... of one option (distinct keys, no '=' inside keys or values), accumulated by the action
      in command-line order and cast by get_args(), are exactly the typed values, in command-line order -- *)
Theorem C18_cli_args_words_cast_exactly : forall (F O : Type) (P : Cli.pyprims F O) (kvs : list (Cli.str * Cli.str))
  (types : list (Cli.str * Cli.ann)),
  (forall kv, In kv kvs -> ~ In 61 (fst kv) /\ ~ In 61 (snd kv)) -> NoDup (map fst kvs) ->
  (dor d <- Cli.kv_parse None (map C18Args.kv_word kvs); Cli.cast_params P d types)
  = res_map_all (C18Args.cast_item P types) kvs.
Proof. exact (@C18Args.words_cast_exactly). Qed.
Print Assumptions C18_cli_args_words_cast_exactly.

(* -- class lookup: what get_class returns is truthy and a subclass of the requested base class; a name no module of the package
      defines ends get_args() with TypeError "The given object is not a class." (29); the required-argument table never holds
      the empty marker nor "self" -- *)
Theorem C18_cli_args_get_class_subclass : forall (Mod Obj : Type) (W : Cli.pyworld Mod Obj) (package_name class_name : Cli.str)
  (base : Cli.base_class) (o : Obj),
  Cli.get_class W package_name class_name base = Ok (Some o) ->
  Cli.w_truthy W o = true /\ Cli.w_issubclass W o base = Ok true.
Proof. exact (@C18SourceIntrospect.get_class_some). Qed.
Print Assumptions C18_cli_args_get_class_subclass.

Theorem C18_cli_args_unknown_class_is_type_error : forall (Mod Obj : Type) (W : Cli.pyworld Mod Obj) (F O : Type)
  (P : Cli.pyprims F O) (base : Cli.base_class) (name : Cli.str) (param : option (list (Cli.str * Cli.str))),
  Cli.get_class W Cli.s_batchie name base = Ok None -> Cli.resolve (Cli.introspect_of W) P base name param = Err 29.
Proof. exact (@C18SourceIntrospect.unknown_class_is_type_error). Qed.
Print Assumptions C18_cli_args_unknown_class_is_type_error.

Theorem C18_cli_args_required_args_table : forall (Mod Obj : Type) (W : Cli.pyworld Mod Obj) (c : option Obj)
  (req : list (Cli.str * Cli.ann)),
  Cli.required_args W c = Ok req -> forall k t, In (k, t) req -> t <> Cli.AEmpty /\ k <> Cli.s_self.
Proof. exact (@C18SourceIntrospect.required_args_no_empty). Qed.
Print Assumptions C18_cli_args_required_args_table.

(* concrete instances (ASCII lower-casing; int() of one digit; no floats / other annotations): "k=3" "flag=No" are cast to
   k = 3 (int), flag = False (bool); "flag=Nope" raises (22); "k=a=b" is refused by the action (21); an optional argument
   (not in the required table) is a KeyError (25) *)
Definition ex_lower (s : Cli.str) : Cli.str := map (fun c => if (65 <=? c) && (c <=? 90) then c + 32 else c) s.
Definition ex_int (s : Cli.str) : result Z :=
  match s with [c] => if (48 <=? c) && (c <=? 57) then Ok (c - 48) else Err 27 | _ => Err 27 end.
Definition ex_prims : Cli.pyprims unit unit :=
  Cli.mk_pyprims ex_lower ex_int (fun _ => Err 28) (fun _ _ => Err 26).
Definition ex_types : list (Cli.str * Cli.ann) := [([107], Cli.AInt); ([102; 108; 97; 103], Cli.ABool)].
Example C18_cli_args_example :
  (dor d <- Cli.kv_parse None [[107; 61; 51]; [102; 108; 97; 103; 61; 78; 111]]; Cli.cast_params ex_prims d ex_types)
  = Ok [([107], Cli.VInt 3); ([102; 108; 97; 103], Cli.VBool false)] /\
  (dor d <- Cli.kv_parse None [[102; 108; 97; 103; 61; 78; 111; 112; 101]]; Cli.cast_params ex_prims d ex_types) = Err 22 /\
  Cli.kv_parse None [[107; 61; 97; 61; 98]] = Err 21 /\
  (dor d <- Cli.kv_parse None [[122; 61; 51]]; Cli.cast_params ex_prims d ex_types) = Err 25 /\
  SrcCliArgs.src_str_to_bool unit unit ex_prims [89; 69; 83] = Ok true.
Proof. vm_compute. repeat split; reflexivity. Qed.

(* ---- the argparse option tables: get_parser() of calculate_scores / select_next_plate / train_model / prepare_retrospective_simulation / reveal_plate / extract_screen_metadata / calculate_distance_matrix / evaluate_model / analyze_model_evaluation, re-read from /repo on every run by the fail-closed reader
   harness/argparse_reader.py (Generated/SrcParser_<command>.v; a get_parser that is not a plain sequence of literal
   parser.add_argument calls is refused and these theorems stop compiling).  What the argument records of Model/Cli.v assume of
   the namespace parse_args() yields - the premise of the C??_model_is_source_cli_* links - is provided by the declared options:
   Cli.declares = the attribute is the dest of EXACTLY ONE option, which stores the assumed kind of value and can be None exactly
   where the record has an option type; Cli.dests_derived = the dest the reader computed is argparse's derivation from the flags;
   Cli.dests_distinct = no dest and no flag is declared twice; Cli.seed_declared = --seed is an int option with a non-negative int
   default (get_prng_from_seed_argument never sees None); Cli.coordinates_int = --n-chunks / --chunk-index / --n-chains /
   --chain-index are int options that are never None; Cli.params_kv = every --*-param option accumulates through KVAppendAction;
   Cli.fraction_declared = --holdout-fraction is a float option with a default in [0, 1]. ---- *)

From Batchie Require Model.Cli Proofs.C18Parser Generated.SrcParser_calculate_scores Proofs.C18SourceParser_calculate_scores Generated.SrcParser_select_next_plate Proofs.C18SourceParser_select_next_plate Generated.SrcParser_train_model Proofs.C18SourceParser_train_model Generated.SrcParser_prepare_retrospective_simulation Proofs.C18SourceParser_prepare_retrospective_simulation Generated.SrcParser_reveal_plate Proofs.C18SourceParser_reveal_plate Generated.SrcParser_extract_screen_metadata Proofs.C18SourceParser_extract_screen_metadata Generated.SrcParser_calculate_distance_matrix Proofs.C18SourceParser_calculate_distance_matrix Generated.SrcParser_evaluate_model Proofs.C18SourceParser_evaluate_model Generated.SrcParser_analyze_model_evaluation Proofs.C18SourceParser_analyze_model_evaluation.
Theorem C18_source_parser_calculate_scores_fields :
  forall f, In f (Cli.cs_fields ++ Cli.logging_fields) -> Cli.declares SrcParser_calculate_scores.src_parser_calculate_scores f.
Proof. exact C18SourceParser_calculate_scores.parser_calculate_scores_fields. Qed.
Print Assumptions C18_source_parser_calculate_scores_fields.

Theorem C18_source_parser_calculate_scores_dests_derived :
  Cli.dests_derived SrcParser_calculate_scores.src_parser_calculate_scores.
Proof. exact C18SourceParser_calculate_scores.parser_calculate_scores_dests_derived. Qed.
Print Assumptions C18_source_parser_calculate_scores_dests_derived.

Theorem C18_source_parser_calculate_scores_dests_distinct :
  Cli.dests_distinct SrcParser_calculate_scores.src_parser_calculate_scores.
Proof. exact C18SourceParser_calculate_scores.parser_calculate_scores_dests_distinct. Qed.
Print Assumptions C18_source_parser_calculate_scores_dests_distinct.

Theorem C18_source_parser_calculate_scores_seed :
  Cli.seed_declared SrcParser_calculate_scores.src_parser_calculate_scores.
Proof. exact C18SourceParser_calculate_scores.parser_calculate_scores_seed. Qed.
Print Assumptions C18_source_parser_calculate_scores_seed.

Theorem C18_source_parser_calculate_scores_coordinates :
  Cli.coordinates_int SrcParser_calculate_scores.src_parser_calculate_scores.
Proof. exact C18SourceParser_calculate_scores.parser_calculate_scores_coordinates. Qed.
Print Assumptions C18_source_parser_calculate_scores_coordinates.

Theorem C18_source_parser_calculate_scores_params :
  Cli.params_kv SrcParser_calculate_scores.src_parser_calculate_scores.
Proof. exact C18SourceParser_calculate_scores.parser_calculate_scores_params. Qed.
Print Assumptions C18_source_parser_calculate_scores_params.

Theorem C18_source_parser_select_next_plate_fields :
  forall f, In f (Cli.sn_fields ++ Cli.logging_fields) -> Cli.declares SrcParser_select_next_plate.src_parser_select_next_plate f.
Proof. exact C18SourceParser_select_next_plate.parser_select_next_plate_fields. Qed.
Print Assumptions C18_source_parser_select_next_plate_fields.

Theorem C18_source_parser_select_next_plate_dests_derived :
  Cli.dests_derived SrcParser_select_next_plate.src_parser_select_next_plate.
Proof. exact C18SourceParser_select_next_plate.parser_select_next_plate_dests_derived. Qed.
Print Assumptions C18_source_parser_select_next_plate_dests_derived.

Theorem C18_source_parser_select_next_plate_dests_distinct :
  Cli.dests_distinct SrcParser_select_next_plate.src_parser_select_next_plate.
Proof. exact C18SourceParser_select_next_plate.parser_select_next_plate_dests_distinct. Qed.
Print Assumptions C18_source_parser_select_next_plate_dests_distinct.

Theorem C18_source_parser_select_next_plate_seed :
  Cli.seed_declared SrcParser_select_next_plate.src_parser_select_next_plate.
Proof. exact C18SourceParser_select_next_plate.parser_select_next_plate_seed. Qed.
Print Assumptions C18_source_parser_select_next_plate_seed.

Theorem C18_source_parser_select_next_plate_params :
  Cli.params_kv SrcParser_select_next_plate.src_parser_select_next_plate.
Proof. exact C18SourceParser_select_next_plate.parser_select_next_plate_params. Qed.
Print Assumptions C18_source_parser_select_next_plate_params.

Theorem C18_source_parser_train_model_fields :
  forall f, In f (Cli.tm_fields ++ Cli.logging_fields) -> Cli.declares SrcParser_train_model.src_parser_train_model f.
Proof. exact C18SourceParser_train_model.parser_train_model_fields. Qed.
Print Assumptions C18_source_parser_train_model_fields.

Theorem C18_source_parser_train_model_dests_derived :
  Cli.dests_derived SrcParser_train_model.src_parser_train_model.
Proof. exact C18SourceParser_train_model.parser_train_model_dests_derived. Qed.
Print Assumptions C18_source_parser_train_model_dests_derived.

Theorem C18_source_parser_train_model_dests_distinct :
  Cli.dests_distinct SrcParser_train_model.src_parser_train_model.
Proof. exact C18SourceParser_train_model.parser_train_model_dests_distinct. Qed.
Print Assumptions C18_source_parser_train_model_dests_distinct.

Theorem C18_source_parser_train_model_seed :
  Cli.seed_declared SrcParser_train_model.src_parser_train_model.
Proof. exact C18SourceParser_train_model.parser_train_model_seed. Qed.
Print Assumptions C18_source_parser_train_model_seed.

Theorem C18_source_parser_train_model_coordinates :
  Cli.coordinates_int SrcParser_train_model.src_parser_train_model.
Proof. exact C18SourceParser_train_model.parser_train_model_coordinates. Qed.
Print Assumptions C18_source_parser_train_model_coordinates.

Theorem C18_source_parser_train_model_params :
  Cli.params_kv SrcParser_train_model.src_parser_train_model.
Proof. exact C18SourceParser_train_model.parser_train_model_params. Qed.
Print Assumptions C18_source_parser_train_model_params.

Theorem C18_source_parser_prepare_retrospective_simulation_fields :
  forall f, In f (Cli.pr_fields ++ Cli.logging_fields) -> Cli.declares SrcParser_prepare_retrospective_simulation.src_parser_prepare_retrospective_simulation f.
Proof. exact C18SourceParser_prepare_retrospective_simulation.parser_prepare_retrospective_simulation_fields. Qed.
Print Assumptions C18_source_parser_prepare_retrospective_simulation_fields.

Theorem C18_source_parser_prepare_retrospective_simulation_dests_derived :
  Cli.dests_derived SrcParser_prepare_retrospective_simulation.src_parser_prepare_retrospective_simulation.
Proof. exact C18SourceParser_prepare_retrospective_simulation.parser_prepare_retrospective_simulation_dests_derived. Qed.
Print Assumptions C18_source_parser_prepare_retrospective_simulation_dests_derived.

Theorem C18_source_parser_prepare_retrospective_simulation_dests_distinct :
  Cli.dests_distinct SrcParser_prepare_retrospective_simulation.src_parser_prepare_retrospective_simulation.
Proof. exact C18SourceParser_prepare_retrospective_simulation.parser_prepare_retrospective_simulation_dests_distinct. Qed.
Print Assumptions C18_source_parser_prepare_retrospective_simulation_dests_distinct.

Theorem C18_source_parser_prepare_retrospective_simulation_seed :
  Cli.seed_declared SrcParser_prepare_retrospective_simulation.src_parser_prepare_retrospective_simulation.
Proof. exact C18SourceParser_prepare_retrospective_simulation.parser_prepare_retrospective_simulation_seed. Qed.
Print Assumptions C18_source_parser_prepare_retrospective_simulation_seed.

Theorem C18_source_parser_prepare_retrospective_simulation_params :
  Cli.params_kv SrcParser_prepare_retrospective_simulation.src_parser_prepare_retrospective_simulation.
Proof. exact C18SourceParser_prepare_retrospective_simulation.parser_prepare_retrospective_simulation_params. Qed.
Print Assumptions C18_source_parser_prepare_retrospective_simulation_params.

Theorem C18_source_parser_prepare_retrospective_simulation_fraction :
  Cli.fraction_declared SrcParser_prepare_retrospective_simulation.src_parser_prepare_retrospective_simulation.
Proof. exact C18SourceParser_prepare_retrospective_simulation.parser_prepare_retrospective_simulation_fraction. Qed.
Print Assumptions C18_source_parser_prepare_retrospective_simulation_fraction.

Theorem C18_source_parser_reveal_plate_fields :
  forall f, In f (Cli.rp_fields ++ Cli.logging_fields) -> Cli.declares SrcParser_reveal_plate.src_parser_reveal_plate f.
Proof. exact C18SourceParser_reveal_plate.parser_reveal_plate_fields. Qed.
Print Assumptions C18_source_parser_reveal_plate_fields.

Theorem C18_source_parser_reveal_plate_dests_derived :
  Cli.dests_derived SrcParser_reveal_plate.src_parser_reveal_plate.
Proof. exact C18SourceParser_reveal_plate.parser_reveal_plate_dests_derived. Qed.
Print Assumptions C18_source_parser_reveal_plate_dests_derived.

Theorem C18_source_parser_reveal_plate_dests_distinct :
  Cli.dests_distinct SrcParser_reveal_plate.src_parser_reveal_plate.
Proof. exact C18SourceParser_reveal_plate.parser_reveal_plate_dests_distinct. Qed.
Print Assumptions C18_source_parser_reveal_plate_dests_distinct.

Theorem C18_source_parser_extract_screen_metadata_fields :
  forall f, In f (Cli.em_fields ++ Cli.logging_fields) -> Cli.declares SrcParser_extract_screen_metadata.src_parser_extract_screen_metadata f.
Proof. exact C18SourceParser_extract_screen_metadata.parser_extract_screen_metadata_fields. Qed.
Print Assumptions C18_source_parser_extract_screen_metadata_fields.

Theorem C18_source_parser_extract_screen_metadata_dests_derived :
  Cli.dests_derived SrcParser_extract_screen_metadata.src_parser_extract_screen_metadata.
Proof. exact C18SourceParser_extract_screen_metadata.parser_extract_screen_metadata_dests_derived. Qed.
Print Assumptions C18_source_parser_extract_screen_metadata_dests_derived.

Theorem C18_source_parser_extract_screen_metadata_dests_distinct :
  Cli.dests_distinct SrcParser_extract_screen_metadata.src_parser_extract_screen_metadata.
Proof. exact C18SourceParser_extract_screen_metadata.parser_extract_screen_metadata_dests_distinct. Qed.
Print Assumptions C18_source_parser_extract_screen_metadata_dests_distinct.

Theorem C18_source_parser_calculate_distance_matrix_fields :
  forall f, In f (Cli.cd_fields ++ Cli.logging_fields) -> Cli.declares SrcParser_calculate_distance_matrix.src_parser_calculate_distance_matrix f.
Proof. exact C18SourceParser_calculate_distance_matrix.parser_calculate_distance_matrix_fields. Qed.
Print Assumptions C18_source_parser_calculate_distance_matrix_fields.

Theorem C18_source_parser_calculate_distance_matrix_dests_derived :
  Cli.dests_derived SrcParser_calculate_distance_matrix.src_parser_calculate_distance_matrix.
Proof. exact C18SourceParser_calculate_distance_matrix.parser_calculate_distance_matrix_dests_derived. Qed.
Print Assumptions C18_source_parser_calculate_distance_matrix_dests_derived.

Theorem C18_source_parser_calculate_distance_matrix_dests_distinct :
  Cli.dests_distinct SrcParser_calculate_distance_matrix.src_parser_calculate_distance_matrix.
Proof. exact C18SourceParser_calculate_distance_matrix.parser_calculate_distance_matrix_dests_distinct. Qed.
Print Assumptions C18_source_parser_calculate_distance_matrix_dests_distinct.

Theorem C18_source_parser_calculate_distance_matrix_coordinates :
  Cli.coordinates_int SrcParser_calculate_distance_matrix.src_parser_calculate_distance_matrix.
Proof. exact C18SourceParser_calculate_distance_matrix.parser_calculate_distance_matrix_coordinates. Qed.
Print Assumptions C18_source_parser_calculate_distance_matrix_coordinates.

Theorem C18_source_parser_calculate_distance_matrix_params :
  Cli.params_kv SrcParser_calculate_distance_matrix.src_parser_calculate_distance_matrix.
Proof. exact C18SourceParser_calculate_distance_matrix.parser_calculate_distance_matrix_params. Qed.
Print Assumptions C18_source_parser_calculate_distance_matrix_params.

Theorem C18_source_parser_evaluate_model_fields :
  forall f, In f (Cli.ev_fields ++ Cli.logging_fields) -> Cli.declares SrcParser_evaluate_model.src_parser_evaluate_model f.
Proof. exact C18SourceParser_evaluate_model.parser_evaluate_model_fields. Qed.
Print Assumptions C18_source_parser_evaluate_model_fields.

Theorem C18_source_parser_evaluate_model_dests_derived :
  Cli.dests_derived SrcParser_evaluate_model.src_parser_evaluate_model.
Proof. exact C18SourceParser_evaluate_model.parser_evaluate_model_dests_derived. Qed.
Print Assumptions C18_source_parser_evaluate_model_dests_derived.

Theorem C18_source_parser_evaluate_model_dests_distinct :
  Cli.dests_distinct SrcParser_evaluate_model.src_parser_evaluate_model.
Proof. exact C18SourceParser_evaluate_model.parser_evaluate_model_dests_distinct. Qed.
Print Assumptions C18_source_parser_evaluate_model_dests_distinct.

Theorem C18_source_parser_analyze_model_evaluation_fields :
  forall f, In f (Cli.am_fields ++ Cli.logging_fields) -> Cli.declares SrcParser_analyze_model_evaluation.src_parser_analyze_model_evaluation f.
Proof. exact C18SourceParser_analyze_model_evaluation.parser_analyze_model_evaluation_fields. Qed.
Print Assumptions C18_source_parser_analyze_model_evaluation_fields.

Theorem C18_source_parser_analyze_model_evaluation_dests_derived :
  Cli.dests_derived SrcParser_analyze_model_evaluation.src_parser_analyze_model_evaluation.
Proof. exact C18SourceParser_analyze_model_evaluation.parser_analyze_model_evaluation_dests_derived. Qed.
Print Assumptions C18_source_parser_analyze_model_evaluation_dests_derived.

Theorem C18_source_parser_analyze_model_evaluation_dests_distinct :
  Cli.dests_distinct SrcParser_analyze_model_evaluation.src_parser_analyze_model_evaluation.
Proof. exact C18SourceParser_analyze_model_evaluation.parser_analyze_model_evaluation_dests_distinct. Qed.
Print Assumptions C18_source_parser_analyze_model_evaluation_dests_distinct.

(* what seed_declared is for: on the default seed, the generator construction of the wrappers (Cli.prng_of_seed, linked to
   get_prng_from_seed_argument by C18_model_is_source_cli_get_prng_from_seed_argument) succeeds *)
Theorem C18_parser_seed_default_draws : forall (tbl : list Cli.argopt), Cli.seed_declared tbl ->
  forall mix : Z -> Z, exists o z, Cli.opts_with_dest tbl Cli.s_seed = [o] /\ Cli.opt_default o = Cli.LInt z
                                   /\ Cli.prng_of_seed mix z = Ok (Cli.Gen (mix z)).
Proof. exact C18Parser.seed_declared_default_draws. Qed.
Print Assumptions C18_parser_seed_default_draws.

From Coq Require String.
Module ParserExamples.
Import String.
(* the reading of one declaration (Cli.opt_dest / opt_default / opt_kind / opt_may_be_none) on the shapes that occur, and on the
   realistic slips the table theorems exclude: *)
Definition ex_opt (flags : list String.string) (dest : option String.string) (ty : option Cli.argtype) (default : option Cli.pylit)
  (required : bool) (action : Cli.argaction) (nargs : option Cli.argnargs) : Cli.argopt :=
  Cli.mk_argopt (map Cli.str_of_string flags) (option_map Cli.str_of_string dest)
                (Cli.opt_dest (Cli.mk_argopt (map Cli.str_of_string flags) (option_map Cli.str_of_string dest) [] None None false Cli.ActStore None None))
                ty default required action nargs None.
Example C18_parser_reading_examples :
  (* dest derivation: the first long flag, dashes to underscores; an explicit dest= wins *)
  Cli.o_dest (ex_opt ["-P"; "--progress"]%string None None None false Cli.ActStoreTrue None) = Cli.str_of_string "progress" /\
  Cli.o_dest (ex_opt ["--n-chunks"]%string None (Some Cli.TInt) (Some (Cli.LInt 1)) false Cli.ActStore None) = Cli.str_of_string "n_chunks" /\
  Cli.o_dest (ex_opt ["--n-chunks"]%string (Some "chunks"%string) (Some Cli.TInt) (Some (Cli.LInt 1)) false Cli.ActStore None) = Cli.str_of_string "chunks" /\
  (* --seed, type=int, default=0: an int, never None; with default=None it may be None *)
  Cli.opt_kind (ex_opt ["--seed"]%string None (Some Cli.TInt) (Some (Cli.LInt 0)) false Cli.ActStore None) = Some Cli.KInt /\
  Cli.opt_may_be_none (ex_opt ["--seed"]%string None (Some Cli.TInt) (Some (Cli.LInt 0)) false Cli.ActStore None) = false /\
  Cli.opt_may_be_none (ex_opt ["--seed"]%string None (Some Cli.TInt) (Some Cli.LNone) false Cli.ActStore None) = true /\
  (* type=int dropped from --chunk-index: the words stay strings while the default is an int - no kind *)
  Cli.opt_kind (ex_opt ["--chunk-index"]%string None None (Some (Cli.LInt 0)) false Cli.ActStore None) = None /\
  Cli.opt_kind (ex_opt ["--chunk-index"]%string None None None true Cli.ActStore None) = Some Cli.KStr /\
  (* a --*-param option: KVAppendAction with nargs=1 is a KEY=VALUE dict or None; action="append" has no kind here *)
  Cli.opt_kind (ex_opt ["--model-param"]%string None None None false Cli.ActKVAppend (Some (Cli.NInt 1))) = Some Cli.KKV /\
  Cli.opt_kind (ex_opt ["--model-param"]%string None None None false Cli.ActAppend (Some (Cli.NInt 1))) = None /\
  Cli.opt_kind (ex_opt ["--model-param"]%string None None None false Cli.ActKVAppend None) = None /\
  (* nargs="+" with type=int and default=list(): a list of ints, never None; store_true without default: False *)
  Cli.opt_kind (ex_opt ["--plate-id"]%string None (Some Cli.TInt) (Some Cli.LEmptyList) false Cli.ActStore (Some Cli.NPlus)) = Some (Cli.KList Cli.KInt) /\
  Cli.opt_default (ex_opt ["-v"]%string None None None false Cli.ActStoreTrue None) = Cli.LBool false.
Proof. vm_compute. repeat split; reflexivity. Qed.
End ParserExamples.

(* ---- gap review g5 (C18): the globally served step; --seed declared but unread ----
   The mirror image of C18_frame.  A step whose requests are ALL served from the process-global component - the training of the
   variational grid model: set_rng stores the generator made from the seed and nothing reads it; numpy.random.choice,
   torch.randperm and pyro's sample statements draw from the global numpy / torch generators (G is any type, e.g. their pair) -
   is a function of the global state alone: the given generator is returned untouched and has no influence whatever. *)
From Batchie Require Proofs.C18Unread Proofs.C18SourceParserSeedDeclared Proofs.C10SourceCli.

Theorem C18_global_only_frame :
  forall (Req Ans Out S G : Type) (ggen : G -> Req -> Ans * G) (wstep : S * G -> Req -> Ans * (S * G))
         (p : prog Req Ans Out),
  (forall s g r, wstep (s, g) r = (fst (ggen g r), (s, snd (ggen g r)))) ->
  forall s g,
    o_out (exec wstep p (s, g)) = o_out (exec ggen p g)
    /\ o_reqs (exec wstep p (s, g)) = o_reqs (exec ggen p g)
    /\ o_answers (exec wstep p (s, g)) = o_answers (exec ggen p g)
    /\ o_final (exec wstep p (s, g)) = (s, o_final (exec ggen p g)).
Proof. exact C18Unread.global_only_frame. Qed.
Print Assumptions C18_global_only_frame.

(* the seed is not an input of such a step: different given generators, same global state => same everything *)
Theorem C18_given_generator_unread :
  forall (Req Ans Out S G : Type) (ggen : G -> Req -> Ans * G) (p : prog Req Ans Out) (s1 s2 : S) (g : G),
    o_out (exec (from_global ggen) p (s1, g)) = o_out (exec (from_global ggen) p (s2, g))
    /\ o_reqs (exec (from_global ggen) p (s1, g)) = o_reqs (exec (from_global ggen) p (s2, g))
    /\ o_answers (exec (from_global ggen) p (s1, g)) = o_answers (exec (from_global ggen) p (s2, g))
    /\ fst (o_final (exec (from_global ggen) p (s1, g))) = s1
    /\ snd (o_final (exec (from_global ggen) p (s1, g))) = snd (o_final (exec (from_global ggen) p (s2, g))).
Proof. exact C18Unread.given_generator_unread. Qed.
Print Assumptions C18_given_generator_unread.

(* what the harness observation "repeatable modulo the known leak" relies on: from EQUAL global states (numpy / torch reseeded
   identically, every unseeded construction given the same seed) even a globally served step is repeatable, so a difference
   that remains has another cause than the recorded leak *)
Theorem C18_global_only_repeatable_from_equal_global :
  forall (Req Ans Out S G : Type) (ggen : G -> Req -> Ans * G) (p : prog Req Ans Out) (s : S) (g1 g2 : G),
    g1 = g2 -> exec (from_global ggen) p (s, g1) = exec (from_global ggen) p (s, g2).
Proof. exact C18Unread.global_only_repeatable_from_equal_global. Qed.
Print Assumptions C18_global_only_repeatable_from_equal_global.

(* non-vacuity: the witness program of C18_global_draws_refuted run with two different given generators *)
Example C18_given_generator_unread_example :
  o_out (exec (from_global C18RandProg.counter_gen) C18RandProg.leaky_prog (1, 5)) = 5
  /\ o_out (exec (from_global C18RandProg.counter_gen) C18RandProg.leaky_prog (2, 5)) = 5
  /\ o_final (exec (from_global C18RandProg.counter_gen) C18RandProg.leaky_prog (1, 5)) = (1, 6).
Proof. vm_compute. repeat split; reflexivity. Qed.

(* evaluate_model and analyze_model_evaluation DECLARE --seed as the four randomised commands do (analyze_model_evaluation is
   a randomised command: see the end of this section) *)
Theorem C18_source_parser_evaluate_model_seed :
  Cli.seed_declared SrcParser_evaluate_model.src_parser_evaluate_model.
Proof. exact C18SourceParserSeedDeclared.parser_evaluate_model_seed. Qed.
Print Assumptions C18_source_parser_evaluate_model_seed.

Theorem C18_source_parser_analyze_model_evaluation_seed :
  Cli.seed_declared SrcParser_analyze_model_evaluation.src_parser_analyze_model_evaluation.
Proof. exact C18SourceParserSeedDeclared.parser_analyze_model_evaluation_seed. Qed.
Print Assumptions C18_source_parser_analyze_model_evaluation_seed.

(* ... and evaluate_model.main does not need it: the WHOLE function, re-translated on every run, equals Cli.cli_evaluate_model, a
   function of the library record and of Cli.ev_args = (screen, thetas, output) - no seed component, and no generator / draw
   primitive in the configuration's vocabulary (the translator refuses any other call).  The command is deterministic in its
   files; its unread --seed is therefore no violation of the property.  (Same statement as C10_model_is_source_cli_evaluate_model;
   re-stated here so that C18 reports a broken obligation when this main() starts to read args.seed or to draw.) *)
Theorem C18_model_is_source_cli_evaluate_model_seedless :
  forall (Scr Th Pr PrT Ob Nm Ev : Type) (L : Cli.ev_lib Scr Th Pr PrT Ob Nm Ev) (a : Cli.ev_args),
  SrcCli.src_cli_evaluate_model Scr Th Pr PrT Ob Nm Ev L a = Cli.cli_evaluate_model L a.
Proof. exact C10SourceCli.src_cli_evaluate_model_is_model. Qed.
Print Assumptions C18_model_is_source_cli_evaluate_model_seedless.

(* ---- analyze_model_evaluation.main READS its --seed (repair "fix: analyze_model_evaluation ignored --seed"; before it this was
   the known finding analyze-model-evaluation-cli-ignores-seed).  Two of its five plots call seaborn.regplot, which bootstraps
   the confidence band of the regression from numpy.random.default_rng(seed): a function of the integer when one is given,
   seeded from the operating system's entropy when seed is None (CliAnalyze.regplot_rng; of_seed / of_entropy / the types
   of generators and of entropy are arbitrary).  The WHOLE main(), re-translated on every run (configuration CLI_ANALYZE,
   shared with C20), equals CliAnalyze.cli_analyze = cli_analyze_gen true, whose two regplot-drawing calls carry
   seed=args.seed; the events AnScatter / AnScatterSample record the keyword (None when absent). ---- *)
From Batchie Require Model.CliAnalyze Generated.SrcCliAnalyze Proofs.C20SourceCli_AnalyzeMain Proofs.C18CliAnalyze.

(* same statement as C20_model_is_source_cli_analyze; re-stated so that C18 reports a broken obligation when main() stops
   handing --seed to either plot (the call without the keyword translates to an event carrying None) or starts to draw elsewhere
   (no generator / draw primitive in the configuration's vocabulary; the translator refuses any other call) *)
Theorem C18_model_is_source_cli_analyze :
  forall (Scr Th Ev Co F : Type) (L : CliAnalyze.an_lib Scr Th Ev Co F) (a : CliAnalyze.an_args),
  SrcCliAnalyze.src_cli_analyze Scr Th Ev Co F L a = CliAnalyze.cli_analyze L a.
Proof. exact C20SourceCli_AnalyzeMain.src_cli_analyze_is_model. Qed.
Print Assumptions C18_model_is_source_cli_analyze.

(* a run of the translated main() that completes makes exactly two regplot-drawing calls, both with seed = --seed *)
Theorem C18_source_cli_analyze_regplot_seeds :
  forall (Scr Th Ev Co F : Type) (L : CliAnalyze.an_lib Scr Th Ev Co F) (a : CliAnalyze.an_args) evs,
  SrcCliAnalyze.src_cli_analyze Scr Th Ev Co F L a = Ok evs ->
  CliAnalyze.an_regplot_seeds evs = [Some (CliAnalyze.an_seed a); Some (CliAnalyze.an_seed a)].
Proof. exact C18CliAnalyze.src_cli_analyze_regplot_seeds. Qed.
Print Assumptions C18_source_cli_analyze_regplot_seeds.

(* its bootstrap generators are default_rng(--seed), whatever the entropy source answers *)
Theorem C18_source_cli_analyze_bootstrap_seeded :
  forall (Scr Th Ev Co F G W : Type) (of_seed : Z -> G) (of_entropy : W -> G) (L : CliAnalyze.an_lib Scr Th Ev Co F)
         (a : CliAnalyze.an_args) (w : W),
  CliAnalyze.an_bootstrap_rngs of_seed of_entropy (SrcCliAnalyze.src_cli_analyze Scr Th Ev Co F L a) w
  = match SrcCliAnalyze.src_cli_analyze Scr Th Ev Co F L a with
    | Ok _ => [of_seed (CliAnalyze.an_seed a); of_seed (CliAnalyze.an_seed a)]
    | Err _ => []
    end.
Proof. exact C18CliAnalyze.src_cli_analyze_bootstrap_seeded. Qed.
Print Assumptions C18_source_cli_analyze_bootstrap_seeded.

(* two runs with the same files and the same --seed in two arbitrary worlds bootstrap from the same generators (the list of
   effects is the same term: a function of the library record and the parsed arguments) *)
Theorem C18_source_cli_analyze_entropy_free :
  forall (Scr Th Ev Co F G W : Type) (of_seed : Z -> G) (of_entropy : W -> G) (L : CliAnalyze.an_lib Scr Th Ev Co F)
         (a : CliAnalyze.an_args) (w1 w2 : W),
  CliAnalyze.an_bootstrap_rngs of_seed of_entropy (SrcCliAnalyze.src_cli_analyze Scr Th Ev Co F L a) w1
  = CliAnalyze.an_bootstrap_rngs of_seed of_entropy (SrcCliAnalyze.src_cli_analyze Scr Th Ev Co F L a) w2.
Proof. exact C18CliAnalyze.src_cli_analyze_entropy_free. Qed.
Print Assumptions C18_source_cli_analyze_entropy_free.

(* the wrapper BEFORE the repair (cli_analyze_gen false: --seed parsed, the keyword absent at both calls): the generators of a
   completed run are the entropy source's answer, and there are files, a --seed and two answers for which two runs differ *)
Theorem C18_cli_analyze_unseeded_refuted :
  exists (L : CliAnalyze.an_lib unit unit unit unit unit) (a : CliAnalyze.an_args) (w1 w2 : Z),
    CliAnalyze.an_bootstrap_rngs (fun z => z) (fun w => w) (CliAnalyze.cli_analyze_gen false L a) w1
    <> CliAnalyze.an_bootstrap_rngs (fun z => z) (fun w => w) (CliAnalyze.cli_analyze_gen false L a) w2.
Proof. exact C18CliAnalyze.cli_analyze_unseeded_refuted. Qed.
Print Assumptions C18_cli_analyze_unseeded_refuted.

(* non-vacuity: a completed run of the translated main() with --seed 3 (two generators, both of_seed 3, in the worlds 10 and 11),
   and the seed matters: --seed 4 gives other generators *)
Example C18_source_cli_analyze_example :
  CliAnalyze.an_bootstrap_rngs (fun z => z) (fun w : Z => w)
    (SrcCliAnalyze.src_cli_analyze _ _ _ _ _ C18CliAnalyze.ex_unit_lib (C18CliAnalyze.ex_unit_args 3)) 10 = [3; 3]
  /\ CliAnalyze.an_bootstrap_rngs (fun z => z) (fun w : Z => w)
    (SrcCliAnalyze.src_cli_analyze _ _ _ _ _ C18CliAnalyze.ex_unit_lib (C18CliAnalyze.ex_unit_args 3)) 11 = [3; 3]
  /\ CliAnalyze.an_bootstrap_rngs (fun z => z) (fun w : Z => w)
    (SrcCliAnalyze.src_cli_analyze _ _ _ _ _ C18CliAnalyze.ex_unit_lib (C18CliAnalyze.ex_unit_args 4)) 10 = [4; 4]
  /\ CliAnalyze.an_bootstrap_rngs (fun z => z) (fun w : Z => w)
    (CliAnalyze.cli_analyze_gen false C18CliAnalyze.ex_unit_lib (C18CliAnalyze.ex_unit_args 3)) 10 = [10; 10].
Proof. vm_compute. repeat split; reflexivity. Qed.

(* ---- the initial cover (gap review g5, gap 6).  SparseCoverPlateGenerator is linked under C13 in state-passing form (the answer
   stream `ds` an explicit argument, rng.choice(a, size=1) on the function's OWN generator argument the only primitive that reads it:
   Generated/SrcRetroGen.v; np.random.*, default_rng(), torch are no primitives and are refused).  C18's statement for it: output and
   unread rest depend on the consumed prefix of the answers only - of the model, and of the translated source with the fuel C13
   proves sufficient.  (Kept LAST: its import closure is the C13 link file.) *)
From Batchie Require Model.Retro Model.RetroInit Proofs.C18SparseCover.
Theorem C18_sparse_cover_explicit_stream : forall ctrl reveal rows ds out ds',
  RetroInit.sparse_cover ctrl reveal rows ds = Ok (out, ds') ->
  exists used, ds = used ++ ds' /\ forall tail, RetroInit.sparse_cover ctrl reveal rows (used ++ tail) = Ok (out, tail).
Proof. exact C18SparseCover.sparse_cover_explicit_stream. Qed.
Print Assumptions C18_sparse_cover_explicit_stream.

From Batchie Require Generated.SrcRetroGen Proofs.C13SparseTerm Proofs.C18SourceSparseCover.
Theorem C18_source_sparse_cover_explicit_stream : forall ctrl reveal rows ds out ds',
  SrcRetroGen.src_generate_and_unmask_initial_plate
    (fun s d => SrcRetroGen.src_sparse_cover ctrl reveal s d (S (C13SparseTerm.ndistinct (RetroInit.all_tids ctrl rows)))) rows ds = Ok (out, ds') ->
  exists used, ds = used ++ ds' /\
    forall tail, SrcRetroGen.src_generate_and_unmask_initial_plate
                   (fun s d => SrcRetroGen.src_sparse_cover ctrl reveal s d (S (C13SparseTerm.ndistinct (RetroInit.all_tids ctrl rows)))) rows (used ++ tail)
                 = Ok (out, tail).
Proof. exact C18SourceSparseCover.src_sparse_cover_explicit_stream. Qed.
Print Assumptions C18_source_sparse_cover_explicit_stream.

(* non-vacuity: C13's own examples run sparse_cover on concrete screens (Props/C13.v); here only that the prefix may be proper *)
Example C18_sparse_cover_empty_screen_example :
  RetroInit.sparse_cover [] false [] [Retro.DInts [7%nat]] = Ok ([], [Retro.DInts [7%nat]]).
Proof. vm_compute. reflexivity. Qed.
