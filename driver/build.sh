#!/bin/sh
# build.sh <id-lowercase>   e.g. build.sh c07 : driver/gen/c07.ml -> driver/bin/c07
set -e
cd "$(dirname "$0")"
id="$1"
mod="$(echo "$id" | cut -c1 | tr a-z A-Z)$(echo "$id" | cut -c2-)"
mkdir -p bin obj/$id
if [ bin/$id -nt gen/$id.ml ] && [ bin/$id -nt main.ml.in ]; then exit 0; fi
cp gen/$id.ml gen/$id.mli obj/$id/
sed -e "s/@MOD@/$mod/g" -e "s/@RUN@/run_$id/g" main.ml.in > obj/$id/main_$id.ml
cd obj/$id
timeout 300 ocamlfind ocamlopt -w -a -package zarith -linkpkg $id.mli $id.ml main_$id.ml -o ../../bin/$id
