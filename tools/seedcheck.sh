#!/bin/bash
# tools/seedcheck.sh <id-lower> <n> [check-ids...]   (SEED_VERIF=<copy of /verif>: run the checks there, so several can run side by side)
# Confirms a seeded change produced by an isolated sub-agent in /tmp/seed/<id>/out and runs our checks against it.
#  1. in the scratch worktree: apply m<n>.diff, full test suite must pass, demo<n>.py must fail; revert, demo must pass
#  2. apply to /repo, run ./check <ID> quick (or the listed checks), revert /repo straight afterwards
#  3. store /verif/seeded/<ID>-m<n>/{patch.diff,demo.py,meta.json}
set -u
id="$1"; n="$2"; shift 2
ID=$(echo "$id" | tr a-z A-Z)
checks="${*:-$ID}"
wt=/tmp/seed/$id
out=$wt/out
dst=/verif/seeded/$ID-m${SEED_AS:-$n}   # SEED_AS=<k>: store the agent's m<n> as seeded/<ID>-m<k>
[ -f "$out/m$n.diff" ] || { echo "no $out/m$n.diff"; exit 2; }
git -C $wt checkout -q -- src nextflow 2>/dev/null
git -C $wt apply "$out/m$n.diff" || { echo "patch does not apply"; exit 2; }
( cd $wt && PYTHONPATH=$wt/src timeout 1500 /venv/bin/python -m pytest -q -p no:cacheprovider --timeout=900 -x 2>&1 | tail -3 ) > /tmp/seed/$id.tests$n.log
tests_ok=$(grep -c -E "^[0-9]+ passed" /tmp/seed/$id.tests$n.log)
tests_line=$(tail -1 /tmp/seed/$id.tests$n.log)
( cd $wt && PYTHONPATH=$wt/src timeout 600 /venv/bin/python out/demo$n.py >/dev/null 2>&1 ); demo_mut=$?
git -C $wt checkout -q -- src nextflow
( cd $wt && PYTHONPATH=$wt/src timeout 600 /venv/bin/python out/demo$n.py >/dev/null 2>&1 ); demo_clean=$?
echo "tests: $tests_line | demo with change: exit $demo_mut | demo pristine: exit $demo_clean"
mkdir -p $dst
cp "$out/m$n.diff" $dst/patch.diff; cp "$out/demo$n.py" $dst/demo.py
res="{}"
# While other work reads /repo concurrently, the change is applied to the scratch worktree and the checks are pointed
# at it with VERIF_REPO (same effect as `git -C /repo apply` + `git -C /repo checkout -- .`, without disturbing /repo).
git -C $wt apply "$out/m$n.diff" || { echo "patch does not apply"; exit 2; }
declare -A rc
log=""
for c in $checks; do
  o=$(cd ${SEED_VERIF:-/verif} && VERIF_REPO=$wt timeout 1800 ./check $c quick 2>&1 | grep -v "^WARNING conda" | tail -6)
  r=$(echo "$o" | grep -c "^VIOLATION")
  echo "--- check $c: $r VIOLATION line(s)"; echo "$o" | tail -4
  log="$log\n[$c] $o"
  rc[$c]=$r
done
git -C $wt checkout -q -- src nextflow
mkdir -p $dst/replays; for f in $(printf "$log" | grep -o "replay=[^ ]*" | cut -d= -f2 | head -3); do cp "$f" $dst/replays/ 2>/dev/null; done
/venv/bin/python - "$out/meta$n.json" "$dst/meta.json" "$tests_line" "$demo_mut" "$demo_clean" "$checks" "$(printf "$log")" <<'PY'
import json, sys
src, dst, tests, dm, dc, checks, log = sys.argv[1:8]
try:
    m = json.load(open(src))
except Exception:
    m = {}
m["confirmed"] = dict(existing_tests_with_change=tests, demo_exit_with_change=int(dm), demo_exit_pristine=int(dc))
m["checks_run"] = checks.split()
m["detected"] = {c: ("VIOLATION property=%s" % c) in log for c in checks.split()}
m["check_output_tail"] = log[-3000:]
m["what_i_ran"] = "tools/seedcheck.sh: apply in scratch worktree, full pytest (must pass), demo with change (must fail) / pristine (must pass); then ./check <ID> quick with VERIF_REPO pointing at the worktree with the change applied; worktree restored afterwards"
json.dump(m, open(dst, "w"), indent=1)
print("detected:", m["detected"])
PY
