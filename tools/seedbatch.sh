#!/bin/bash
# seedbatch.sh <slot> <id> <k1> <k2>: confirm and check m1,m2 of /tmp/seed/<id> as seeded/<ID>-m<k1>,<k2>
slot=$1; id=$2; k1=$3; k2=$4
cd /verif
SEED_VERIF=/root/wt/sc$slot SEED_AS=$k1 tools/seedcheck.sh $id 1 > /root/seedcheck_${id}_1.log 2>&1
SEED_VERIF=/root/wt/sc$slot SEED_AS=$k2 tools/seedcheck.sh $id 2 > /root/seedcheck_${id}_2.log 2>&1
