#!/usr/bin/env python3
"""Which functions of /repo are re-translated on every run (harness/src_functions.py) and which are not.
Prints per file: translated / total functions and source lines, then the untranslated functions."""
import ast, os, sys
sys.path.insert(0, os.path.join(os.path.dirname(os.path.abspath(__file__)), "..", "harness"))
import src_functions
REPO = os.environ.get("VERIF_REPO", "/repo")
linked, slices = {}, {}
for c in src_functions.ALL:
    linked.setdefault(c["file"], set()).add((c.get("cls"), c["func"]))
    # a configuration with body_slice translates only a run of statements: count those lines, not the function
    slices.setdefault((c["file"], c.get("cls"), c["func"]), []).append(c.get("body_slice"))


def linked_lines(rel, cls, n, body, lines):
    sl = slices.get((rel, cls, n.name), [])
    if not sl or any(x is None for x in sl):
        return lines
    heads = [ast.unparse(st).split("\n")[0] for st in n.body]
    got = set()
    for first, last in sl:
        if heads.count(first) == 1 and heads.count(last) == 1:
            for st in n.body[heads.index(first):heads.index(last) + 1]:
                got.update(range(st.lineno, st.end_lineno + 1))
    return min(lines, len(got))

files = []
for root, _d, fs in os.walk(os.path.join(REPO, "src", "batchie")):
    for f in fs:
        if f.endswith(".py") and not f.endswith("_test.py") and f not in ("conftest.py",):
            files.append(os.path.relpath(os.path.join(root, f), REPO))
files.append("nextflow/scripts/batchie.py")
tot_f = tot_l = lin_f = lin_l = 0
rows, missing = [], []
for rel in sorted(files):
    tree = ast.parse(open(os.path.join(REPO, rel)).read())
    fl = []
    for node in tree.body:
        if isinstance(node, ast.FunctionDef):
            fl.append((None, node))
        if isinstance(node, ast.ClassDef):
            for n in node.body:
                if isinstance(n, ast.FunctionDef):
                    fl.append((node.name, n))
    nf = nl = lf = ll = 0
    for cls, n in fl:
        body = [s for s in n.body if not (isinstance(s, ast.Expr) and isinstance(s.value, ast.Constant) and isinstance(s.value.value, str))]
        if not body or all(isinstance(s, (ast.Pass, ast.Raise)) or (isinstance(s, ast.Return) and isinstance(s.value, ast.Name) and s.value.id == "NotImplemented") for s in body):
            continue       # abstract / empty
        lines = (body[-1].end_lineno - body[0].lineno + 1)
        nf += 1; nl += lines
        if (cls, n.name) in linked.get(rel, ()):
            k = linked_lines(rel, cls, n, body, lines)
            lf += 1; ll += k
            if k < lines:
                missing.append((rel, cls, n.name + "  [statements outside the translated run(s)]", lines - k))
        else:
            missing.append((rel, cls, n.name, lines))
    rows.append((rel, lf, nf, ll, nl))
    tot_f += nf; tot_l += nl; lin_f += lf; lin_l += ll
for rel, lf, nf, ll, nl in rows:
    if nf:
        print("%-55s functions %3d / %3d   body lines %4d / %4d" % (rel, lf, nf, ll, nl))
print("%-55s functions %3d / %3d   body lines %4d / %4d  (%.0f%% of lines)" % ("TOTAL", lin_f, tot_f, lin_l, tot_l, 100.0 * lin_l / max(1, tot_l)))
if "-v" in sys.argv:
    print("\nnot translated:")
    for rel, cls, name, lines in sorted(missing, key=lambda x: -x[3]):
        print("  %4d  %s  %s%s" % (lines, rel, (cls + ".") if cls else "", name))
