#!/usr/bin/env python3
"""tools/link_exposure.py [-v]: for each property, the translated source functions (src_* names of harness/src_functions.py)
that occur in Props/<ID>.v itself ("needed") against those occurring anywhere in the files Props/<ID>.v transitively imports
("exposed").  A refused translation of an exposed function breaks the property's build (harness/gen_consts.py poisons exactly
that definition), so `extra = exposed - needed` measures how far a harmless-but-untranslatable rewrite of an unrelated function
would spread.  Text scan only; what fails is decided by coqc."""
import os, re, sys
sys.path.insert(0, os.path.join(os.path.dirname(os.path.abspath(__file__)), "..", "harness"))
import common, src_functions  # noqa: E402

names = sorted({c["name"] for c in src_functions.ALL})
pat = {n: re.compile(r"(?<![A-Za-z0-9_'])" + re.escape(n) + r"(?![A-Za-z0-9_'])") for n in names}
T = os.path.join(common.COQ, "theories")
tot = 0
for i in range(1, 21):
    pid = "C%02d" % i
    clo = common.import_closure("Props/%s.v" % pid)
    own = open(os.path.join(T, "Props", pid + ".v")).read()
    needed = {n for n in names if pat[n].search(own)}
    exposed, byfile = set(), {}
    for f in sorted(clo):
        if f.startswith("Generated/"):
            continue
        t = open(os.path.join(T, f)).read()
        m = {n for n in names if pat[n].search(t)}
        exposed |= m
        if m - needed:
            byfile[f] = sorted(m - needed)
    tot += len(exposed - needed)
    print("%s needed %3d exposed %3d extra %3d  %s" % (pid, len(needed), len(exposed), len(exposed - needed),
                                                        {k: len(v) for k, v in byfile.items()}))
    if "-v" in sys.argv:
        for k, v in byfile.items():
            print("     %s: %s" % (k, " ".join(v)))
print("total extra:", tot)
