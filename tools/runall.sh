#!/bin/bash
# tools/runall.sh [quick|thorough] : every claimed check on /repo as it is, 4 at a time; prints one line per check.
tier=${1:-quick}
cd "$(dirname "$0")/.."
ids=$(python3 -c "import json;print(' '.join(c['property_id'] for c in json.load(open('MANIFEST.json'))['checks']))")
./check C07 $tier >/dev/null 2>&1   # builds the Coq project and the drivers once
echo $ids | tr ' ' '\n' | xargs -P 4 -I{} sh -c "./check {} $tier 2>&1 | grep -E 'VIOLATION|quick:|thorough:|Error|Traceback' | cut -c1-260"
