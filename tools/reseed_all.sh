#!/bin/bash
# tools/reseed_all.sh [verif-dir] : re-runs EVERY seeded change (seeded/<ID>-m<n>/patch.diff) against the checks of the given
# copy of /verif (default: a scratch git worktree of HEAD with the build copied in, so /verif itself is not disturbed) and
# prints one line per seed: detected / NOT DETECTED / error.  Each patch is applied to a scratch worktree of /repo.
# SHARD=i/N runs every N-th seed starting at the i-th (own scratch copies), so N shards can run side by side.
set -u
V=${1:-}
SH=${SHARD:-0/1}; si=${SH%%/*}; sn=${SH##*/}
if [ -z "$V" ]; then
  V=/root/wt/reseed$si
  git -C /verif worktree remove --force $V 2>/dev/null
  git -C /verif worktree add -q --detach $V HEAD || exit 2
  rsync -a --exclude .git /verif/coq/ $V/coq/; rsync -a /verif/driver/ $V/driver/; mkdir -p $V/.work
fi
R=/tmp/seed/reseed$si
mkdir -p /tmp/seed
git -C /repo worktree remove --force $R 2>/dev/null
git -C /repo worktree add -q --detach $R HEAD || exit 2
n=0; bad=0; k=-1
for d in /verif/seeded/*/; do
  k=$((k+1)); [ $((k % sn)) -eq $si ] || continue
  s=$(basename $d); id=${s%%-*}
  git -C $R checkout -q -- . ; git -C $R clean -fdq
  if ! git -C $R apply $d/patch.diff 2>/dev/null; then echo "$s: patch does not apply"; bad=$((bad+1)); continue; fi
  out=$(cd $V && VERIF_REPO=$R timeout 1800 ./check $id quick 2>&1); rc=$?
  v=$(echo "$out" | grep -c "^VIOLATION property=$id")
  c=$(echo "$out" | grep -c "^VIOLATION property=$id replay=[^ ]*counterexample")
  n=$((n+1))
  if [ "$v" -gt 0 ]; then echo "$s: detected ($v VIOLATION lines, $c counterexample replays, exit $rc)"; else echo "$s: NOT DETECTED (exit $rc) $(echo "$out" | tail -2 | cut -c1-200)"; bad=$((bad+1)); fi
done
git -C /repo worktree remove --force $R
[ "$V" = /root/wt/reseed$si ] && git -C /verif worktree remove --force $V
echo "seeds run: $n, not detected or broken: $bad"
