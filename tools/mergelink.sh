#!/bin/bash
# tools/mergelink.sh <branch> : merge a link branch keeping both sides of additive conflicts, regenerate, and compare every
# generated file that the branch's worktree has with the merged tree's (byte for byte).
b=$1
cd /verif
git merge $b 2>&1 | grep -i "conflict\|Merge made\|Already"
for f in $(git status --short | grep "^UU\|^AA" | cut -c4-); do
  case $f in
    evidence/*) git checkout --theirs $f;;
    KNOWN_FINDINGS.json) python3 - "$b" <<'PY'
import json, subprocess, sys
b = sys.argv[1]
ours = json.loads(subprocess.check_output(["git", "show", "HEAD:KNOWN_FINDINGS.json"]))
theirs = json.loads(subprocess.check_output(["git", "show", b + ":KNOWN_FINDINGS.json"]))
seen = {(e.get("property"), e.get("signature")) for e in ours}
for e in theirs:
    if (e.get("property"), e.get("signature")) not in seen:
        ours.append(e)
json.dump(ours, open("KNOWN_FINDINGS.json", "w"), indent=1)
open("KNOWN_FINDINGS.json", "a").write("\n")
print("resolved KNOWN_FINDINGS.json: union of entries,", len(ours))
PY
    ;;
    *) python3 - "$f" "$b" <<'PY'
import re,sys
p,b=sys.argv[1],sys.argv[2]
s=open(p).read()
s=re.sub(r'^<<<<<<< HEAD\n','',s,flags=re.M); s=re.sub(r'^=======\n','',s,flags=re.M); s=re.sub(r'^>>>>>>> %s\n'%re.escape(b),'',s,flags=re.M)
open(p,'w').write(s); print("resolved (kept both sides)",p)
PY
    ;;
  esac
done
python3 -c "import ast,glob; [ast.parse(open(f).read()) for f in glob.glob('/verif/harness/*.py')]; print('syntax ok')" || { echo "SYNTAX ERROR after keep-both resolution: fix by hand, then git add -A && git commit"; exit 1; }
git add -A; git commit -qm "Merge branch '$b' (source-translation links)" | tail -1
PYTHONPATH=harness /venv/bin/python harness/gen_consts.py || exit 1
for f in /root/wt/$b/coq/theories/Generated/Src*.v; do n=$(basename $f); cmp -s $f coq/theories/Generated/$n || echo "DIFFERS from $b: $n"; done
echo "compared $(ls /root/wt/$b/coq/theories/Generated/Src*.v | wc -l) generated files of $b"
