"""C05 — a plate's DBAL score depends on that plate alone and equals the direct estimator."""
import itertools
import math
from fractions import Fraction

import numpy as np

import common
from common import ImplError, cmp_result, frac, impl_call

ID = "C05"
LEVEL = "proof"
RULE = ("kinds: kernel (dbal_fast_gauss_scoring_vectorized on NaN/0-padded dense arrays built by the harness), hetero, homo "
        "(the two wrappers on ragged plates), scorer (GaussianDBALScorer.score over a real Screen's plates, stub thetas feeding "
        "prescribed rows through the real predict_mean_all/predict_variance_all, ChunkedDistanceMatrix.to_dense), malformed "
        "(shape errors).  n_thetas 3-6, 1-4 plates of 0-4 experiments (unequal), variances 2^k (k in -10..10) or full mantissa, "
        "means k/16 or full mantissa, symmetric non-negative matrices with zeros (some all-zero), max_chunk 1-5, distance_factor "
        "in {1, 1/2, 2}; rng.choice recorded and replayed into the model (all C(n,3) triples enumerated, a minority sub-sampled).  "
        "Non-trivial: everything except malformed; distinct by case description.  "
        "Added after gap review g2 (implementation-side predicates, no Coq model run unless said): kernel-wide (the vectorised kernel on "
        "harness-padded arrays of 5 / 8 / 9 / 17 / 50 plates - max_chunk's production value - with T in {3,4}, 1-3 unequal experiments: "
        "each score = the direct estimator); kernel-many (T in {12, 20, 32}: 220 / 1140 / 4960 triples, all enumerated under the default "
        "budget 5000, ragged plates; T = 40 sub-sampled to 5000 of 9880); scorer with 51-64 plates under the DEFAULT GaussianDBALScorer() "
        "(max_chunk 50 -> two sub-groups; model correspondence included); scorer-overlap (ScreenSubsets whose selection vectors OVERLAP and "
        "interleave: plate k = its own rows plus a common batch block, as score_chunk hands them over; reference = direct estimator on the "
        "selected columns; model correspondence included; invariance under max_chunk / key order / scoring a plate without the others); "
        "dtype (one plate handed over as float32: the scores of the OTHER, float64, plates must not move, and the float32 plate scores "
        "what its own rounded values give in double precision).  "
        "Added with repair fx2 (the dense array takes np.result_type of ALL the arrays, not the dtype of the first): pad-dtype "
        "(pad_ragged_arrays_to_dense_array itself on 0-4 arrays of full-mantissa values handed over as float16 / float32 / float64 in "
        "every order, pad value 0.0 or NaN: every array is read back from the dense array bit for bit, padding cells hold the pad "
        "value, the dense dtype is one of the arrays' dtypes and is the same for the reversed list; the dtype is compared with the "
        "model's pad_dtype, wire op 5).")
THEOREMS = {
    "C05_vectorised_eq_direct": "kernel on the 0-padded means / NaN-padded variances of any plate list = map of the direct one-plate double loop (all T>0, all plate lists incl. size-0/1 plates and a single plate, all means/variances/matrices/distance_factor, all triple lists, all ln/exp)",
    "C05_kernel_on_padding": "kernel on ANY dense arrays holding the plates (own cells agree, 0/NaN elsewhere, any width >= widest plate) = direct estimator per plate",
    "C05_padding_represents": "pad_ragged_arrays_to_dense_array (0 / NaN) produces such a representation",
    "C05_alone_in_list": "score at a plate's position in any plate list = its score when scored alone",
    "C05_triple_order_irrelevant": "direct estimator invariant under permutation of the enumerated triples (logsumexp order-independent)",
    "C05_alone": "scorer (any max_chunk>=1, array_split sub-groups, one draw per group each a permutation of a reference enumeration) = every key paired with the direct estimator of ITS plate, in key order",
    "C05_alone_pairwise": "same plate+key in two scorer calls with different other plates / sizes / max_chunk / order / draws gets the same score",
    "C05_wrappers_agree": "homoscedastic wrapper = heteroscedastic wrapper on row-constant variances, as coded",
    "C05_homo_eq_direct": "homoscedastic wrapper = direct estimator per plate",
    "C05_perm_experiments": "permuting the experiments (columns of means and variances) of one plate leaves all scores of the call unchanged",
    "C05_perm_experiments_direct": "same, for the direct estimator",
    "C05_finite_iff": "score != -inf iff some enumerated triple has non-zero summed distance",
    "C05_relabel": "relabelling posterior samples by any permutation consistently in means, variances and a symmetric matrix leaves every score unchanged when both runs enumerate all triples exactly once (any order)",
    "C05_relabel_direct": "same, for the direct estimator",
    "C05_scorer_checked_ok": "the scorer with its checks and the unranking of one recorded draw per sub-group (what the wire entry point runs) = the pure scorer of C05_alone on well-formed input",
    "C05_checked_ok": "on well-formed input (T>=3, non-empty plate list, square T x T matrix) no ValueError check fires and the heteroscedastic entry point returns the pure value on the unranked draw",
    "C05_model_is_source_score": "the Gallina translation of the WHOLE method GaussianDBALScorer.score regenerated from /repo's current scoring/gaussian_dbal.py on this run (Generated/SrcDbal.v: the empty-dict return, n_subs = np.ceil(len(plates) / self.max_chunk), np.array_split over list(plates.keys()), the loop over the sub-groups with the dict lookups plates[k], the mask loop, the two predict comprehensions, the shape-check loop and its raise, the two padding calls, the kernel call consuming one recorded rng.choice answer, result.update(dict(zip(plate_subgroup, vals))), the final length check and its raise) equals, for EVERY integer max_chunk, every plates dict with distinct keys whose selection vectors have one common length, every matrix and every list of at least ceil(n/max_chunk) recorded answers, the model scorer_checked on the plates' (means, variances) - preceded by ZeroDivisionError for max_chunk = 0 and np.array_split's ValueError for max_chunk < 0 (scorer_py)",
    "C05_model_is_source_score_positive_chunk": "instance: for max_chunk >= 1 the translated score is exactly scorer_checked (the function C05_scorer_checked_ok and C05_alone are about)",
    "C05_model_is_source_pad_ragged_arrays_to_dense_array": "the translation of the whole function pad_ragged_arrays_to_dense_array (np.max of the shapes, pad_value * np.ones(..., dtype=np.result_type(*arrays, pad_value)) - the repaired allocation, matched by its exact text -, the enumerate loop of block assignments) equals for ALL inputs and any element type / pad value: ValueError on no arrays, else the model pad_ragged",
    "C05_model_is_source_pad_means": "the primitive the translated scorer / wrappers use for pad_ragged_arrays_to_dense_array(x, pad_value=0.0) is the translated pad function at pad value 0",
    "C05_model_is_source_pad_vars": "likewise for pad_value=np.nan: the translated pad function at pad value NaN (None) on the variance arrays (every real cell Some)",
    "C05_model_is_source_heteroscedastic": "the translation of the whole function dbal_fast_gaussian_scoring_heteroscedastic (zip loop of shape checks, raise, two padding calls, kernel call with the wrapper's own arguments) equals on the means/variances of ANY plate list the model hetero_checked (ValueError from np.max for the empty list)",
    "C05_model_is_source_homoscedastic": "the translation of the whole function dbal_fast_gaussian_scoring_homoscedastic (n_plates check, n_thetas loop, padding, the enumerate loop building variances[idx][:, None] * np.ones((n_thetas, n_experiments)), padding, kernel call) equals for ALL inputs the model homo_checked (for no predictions: ValueError 25 or np.max's)",
    "C05_model_is_source_kernel_checks": "the translation of the run of the three shape checks that opens dbal_fast_gauss_scoring_vectorized equals the three checks of the model kernel_checked (tags 20, 21, 22), all inputs",
    "C05_model_is_source_kernel_triples": "the translation of the run `n_plates, n_thetas, _ = predictions.shape` .. `idx3 = np.array(idx3)` of dbal_fast_gauss_scoring_vectorized (comb(n_thetas, 3, exact=True), `if not n: raise`, min(n, max_combos), rng.choice(n, size=n_combos, replace=False), get_combination_at_sorted_index(ind, n_thetas, 3) per index, zip(*...) into three arrays): for max_combos >= 1 and a recorded answer obeying numpy's contract for exactly that rng.choice call, ValueError 23 below 3 samples, else the Unrank model applied index by index and split into the three columns",
    "C05_model_is_source_kernel": "the model's kernel_checked = translated shape checks; translated index-to-triple run on the recorded answer; then the (untranslated) tensor expressions `kernel` on the triples that run delivers",
}
ASSUMPTIONS = [
    "ln / exp are oracles (libm on the nearest double) in the model; log1p(s) is rendered ln(1+s); + - * / are exact in the model, float64 in the code (tolerance 1e-9 * max(1,|score|))",
    "scipy.special.logsumexp is modelled after the installed 1.17.1 algorithm (max elements separated, log1p(s/m)+log(m)+max); equal in real arithmetic to log(sum(exp(a-max)))+max",
    "rng.choice is recorded and replayed; its contract (distinct ranks in range(C(n,3)), size min(C(n,3), max_combos)) is checked on every call; the unranking is Model/Unrank.v (property C15)",
    "DOMAIN of the model's agreement with numpy: distance_factor > 0, variances > 0 (hence alpha > 0: C05_domain_alpha_positive), distances >= 0 (C05_domain_distance_term), no NaN / inf inputs - the property's own quantifier, and all the generator produces.  The theorems hold of the MODEL without these hypotheses, but outside them the model is a totalisation (1/0 = 0, ln of a non-positive number = the oracle's value, df * -inf = -inf for every df) that numpy does not share (inf / NaN): there they are not claims about the code",
    "predict_mean_all / predict_variance_all are the identity on the rows returned by the thetas (exercised, not modelled); dict order = insertion order",
]
EXPLANATION = ("Model: Model/Dbal.v (+ Model/Unrank.v for the ranks -> triples step).  Modelled, not verified: numpy broadcasting/"
               "fancy indexing (rendered pointwise), scipy logsumexp, np.array_split, tqdm.  The equality theorems hold for every "
               "ln/exp because padding contributes exact zeros (mask 0 times ln(1/3); exp_factor times 0 mean difference) and every "
               "oracle argument on real cells is the identical rational on both sides.  "
               "Source-translation links (C05_model_is_source_*): GaussianDBALScorer.score, dbal_fast_gaussian_scoring_heteroscedastic, "
               "dbal_fast_gaussian_scoring_homoscedastic and pad_ragged_arrays_to_dense_array are re-translated as WHOLE functions, and the "
               "two non-numeric runs of top-level statements of dbal_fast_gauss_scoring_vectorized (its three shape checks; "
               "`n_plates, n_thetas, ... = predictions.shape` .. `idx3 = np.array(idx3)`) as body slices, from /repo's current "
               "scoring/gaussian_dbal.py on every run (harness/py2gal.py, configurations C05_* at the end of harness/src_functions.py, output "
               "Generated/SrcDbal.v; fail-closed: a construct outside the fragment, a changed parameter list or default, an undeclared "
               "variable or a call matching no primitive stops the build), and the theorems prove the hand-written models equal to the "
               "translations.  Everything structural comes from the translation: the early return, the loops (sub-groups, mask, shape "
               "checks, enumerate), the comprehensions with the dict lookups plates[k], every raise, the None-initialised mask, the dict "
               "result and its final length check, integer comparisons, the threading of the recorded rng answers.  NOT translated: the "
               "tensor expressions of the kernel (mask, nan_to_num, alpha, exp_factor, log_norm_factor, d12/d13/d23, ll, logsumexp) - "
               "they stay with the differential correspondence.  Trusted by the links: the translator (its rendering into Lib/PyRt.v, "
               "extended here by the dict read d[k] = dict_get, KeyError, and the truth value of an int) and exactly these primitives, one "
               "attribute / numpy / library call each, with the meaning written next to them at the end of Model/Dbal.v: "
               "score: self.max_chunk = the integer parameter; np.ceil(a / b) = np_ceil_div (ZeroDivisionError for b = 0, else "
               "-floor(-a/b); exact for ints below 2^53); list(d.keys()) = the keys in insertion order; np.array_split(l, n) = "
               "np_array_split (ValueError unless n > 0, else the model's array_split); distance_matrix.to_dense() = the matrix D; "
               "tqdm.tqdm(total=len(l), disable=not progress_bar) = an unread token, progress_bar.update(..) ignored; len; "
               "p.selection_vector = first component of the plate object; a | b = np_or_vec (pointwise on equal lengths; broadcasting "
               "not represented, excluded by the hypothesis); predict_mean_all(screen=p, thetas=samples) / predict_variance_all(..) = the "
               "plate's means / variances arrays; zip(a, b) = combine; a.shape != b.shape = shape_ne (2-d); "
               "pad_ragged_arrays_to_dense_array(x, pad_value=0.0 / np.nan) = pad_means_py / pad_vars_py (proved to BE the translated pad "
               "function: C05_model_is_source_pad_means / _pad_vars); dbal_fast_gauss_scoring_vectorized(predictions=, variances=, "
               "distance_matrix=, rng=rng, max_combos=self.max_triples) with exactly these keywords = kernel_call (kernel_checked on the "
               "next recorded rng.choice answer, distance_factor 1; kernel_checked itself is tied to the source by "
               "C05_model_is_source_kernel); dict(l) = dict_of_pairs; result.update(d) = dict_update.  "
               "wrappers: zip, shape_ne, the two pad calls as above; the kernel call with exactly the wrapper's own arguments handed on = "
               "kernel_checked on the recorded answer idxs; len; a.shape[0] / a.shape[1] = dim0 / dim1 (2-d), a.shape[0] = length (1-d); "
               "variances[idx] = PyRt.list_get (IndexError); v[:, None] * np.ones((n, e)) = np_col_times_ones (rows x*1 repeated e times; "
               "requires n = len(v), which the function guarantees).  "
               "pad: np.array(a.shape) = shape2z; np.max(l, axis=0) = np_max_axis0 (ValueError on []); pad_value * np.ones((len(l), "
               "*m), dtype=np.result_type(*l, pad_value)) = np_full3 (the constant array; the dtype expression is part of the matched text, so an "
               "allocation with any other dtype - e.g. the pre-repair l[0].dtype - is refused and the link fails closed); "
               "result[i, :a.shape[0], :a.shape[1]] = a = set_block.  "
               "kernel runs: a.shape != b.shape = shape3_ne (3-d); shape[0] / shape[1] = dim0 / dim1 / dim3_1; predictions.shape = shape3z; "
               "comb(n, 3, exact=True) = comb3 (0 below 3, else n(n-1)(n-2)/6); min = Z.min; rng.choice(n, size=k, replace=False) = "
               "rng_choice (ValueError for k < 0 or k > n, else the next recorded answer, refused unless k distinct values of range(n)); "
               "get_combination_at_sorted_index(i, n, 3) = unrank3 (Model/Unrank.v, itself tied to the source by property C15's kernel "
               "translation); zip(*rows) into three names = unzip3 (ValueError on no rows); np.array(tuple of ints) = the same values.  "
               "Hypotheses of the links and why every reachable input satisfies them: distinct dict keys (a dict); selection vectors of "
               "one length (views of one screen - ScreenSubset.__init__ checks the length, C14); one recorded answer per kernel call, "
               "obeying numpy's contract (the harness records and checks it on every call: _contract); max_combos >= 1 for the index run "
               "(with max_combos = 0 the code raises on unpacking an empty zip while the model would return -inf scores: the model is not "
               "claimed for that value).  Arrays are rectangular lists of lists (a 0-row array has no width), as everywhere in Model/Dbal.v.")

# ---- wave 6 of the source link: the constructor of GaussianDBALScorer (Generated/SrcInits.v, Proofs/C05Source_Init_DBALScorer.v) ----
THEOREMS.update({
    "C05_model_is_source_init": "the translated GaussianDBALScorer.__init__ stores (max_chunk, max_triples) (defaults 50 / 5000, checked against the signature): the max_chunk the translated score splits by and the max_triples it hands to the kernel as max_combos are the constructor arguments",
})
EXPLANATION += ("  CONSTRUCTOR: GaussianDBALScorer.__init__ is re-translated on every run (LS_INIT_DBAL -> Generated/SrcInits.v) and proved to store its two "
                "arguments; trusted: the translator only (no primitive): `self.<attr>` is a variable of the translation (attr_vars), the value of the translated __init__ is the tuple of the attributes when it ends; an attribute that is not declared is refused; the statement `super().__init__(**kwargs)` is IGNORED - trusted: the base class Scorer "
                "defines no __init__ (object.__init__ stores nothing; its TypeError for unexpected keyword arguments is not modelled).")

# ---- the dtype of the dense array (repair fx2; Proofs/C05Dtype.v) ----
THEOREMS.update({
    "C05_pad_dtype_holds_every_plate": "the dtype the repaired allocation takes (np.result_type over all the arrays and the pad value = the join of the arrays' floating dtypes, model pad_dtype) holds the dtype of EVERY array of the call: no plate is rounded when it is stored into the dense array, wherever it stands",
    "C05_pad_dtype_stored_exactly": "the same by position: plate k of any call is stored without rounding",
    "C05_pad_dtype_is_a_plate_dtype": "the dense dtype is the dtype of one of the arrays: nothing is widened beyond need (an all-float32 call stays float32, as before the repair)",
    "C05_pad_dtype_order_irrelevant": "permuting the arrays leaves the dense dtype unchanged: which plate stands first does not matter",
    "C05_pad_dtype_first_plate_refuted": "witness about the code BEFORE the repair (dtype of the first array, pad_dtype_of true): for [float32, float64] the dense array is float32 and plate 1 is stored rounded",
    "C05_pad_dtype_first_plate_order_refuted": "witness about the code BEFORE the repair: [float32, float64] and [float64, float32] got different dense dtypes",
})

# ---- composition and domain theorems (gap review g2: G5.3 / G15.1, G5.6) ----
THEOREMS.update({
    "C05_full_draw_complete": "for T >= 3 every rng.choice answer obeying numpy's contract for rng.choice(C(T,3), size=C(T,3), replace=False) unranks WITHOUT ERROR to a complete enumeration (every triple a > b > c below T exactly once) of valid triples: the property's premise 'all triples are enumerated' follows from 'the budget covers C(T,3)' through C15's bijection",
    "C05_draw_valid": "every contract-obeying answer (sub-sampled budgets included) unranks without error to k distinct valid triples: the hypothesis `triples_of_draw T idxs = Ok ts` of C05_checked_ok / C05_scorer_checked_ok always holds",
    "C05_source_score_full_enumeration": "END TO END on the TRANSLATED GaussianDBALScorer.score: T >= 3, square T x T matrix, any max_chunk >= 1, any dict (distinct keys, selection vectors of one length) of well-formed plates, at least ceil(n/max_chunk) recorded answers each a full draw: the translation returns, no error, each key with the direct estimator of ITS OWN plate on any one complete enumeration - the right-hand side mentions neither max_chunk nor the other plates nor the draws",
    "C05_source_hetero_full_enumeration": "the same for the translated dbal_fast_gaussian_scoring_heteroscedastic on a full draw, any distance_factor",
    "C05_source_kernel_full_enumeration": "the vectorised kernel as: translated shape checks, translated index-to-triple run with budget max_combos >= C(T,3) on a contract-obeying answer, then the tensor expressions, on the padded arrays of any non-empty well-formed plate list = the direct estimator per plate",
    "C05_domain_alpha_positive": "positive variances => alpha > 0 on every cell the kernel computes with (NaN-padded cells carry variance 1): the model's totalisation 1/0 = 0 is never reached on the property's domain",
    "C05_domain_alpha_positive_direct": "the same for the direct estimator's alpha",
    "C05_domain_distance_term": "non-negative matrix => the log-distance term is -inf exactly at summed distance 0, else distance_factor * ln of a POSITIVE number (np.log never sees a negative argument on the property's domain)",
})

EXPLANATION += ("  GAP REVIEW g2.  COMPOSITION (C05_full_draw_complete, C05_source_*_full_enumeration): the premise 'all triples are enumerated' is no longer a "
                "hypothesis about triple lists but follows from numpy's contract for rng.choice(C(T,3), size=C(T,3), replace=False) through property C15's "
                "bijection (Proofs/C15UseSite.v, Proofs/C05Compose.v); the end-to-end statement is about the translated score / wrapper / kernel runs.  "
                "DOMAIN (C05_domain_*): see the assumptions - the model is total, numpy is not; on positive variances and non-negative matrices the "
                "totalisations are provably never reached.  NOT translated, still: the tensor expressions of the kernel; their exercised region now "
                "includes 50 plates per call and 4960 / 5000 triples (kernel-wide, kernel-many), by the direct-estimator predicate only.  "
                "REPAIRED (fx2; was a known finding): the dense array took the dtype of the FIRST plate, so a float32 first plate lowered every "
                "other plate's score to single precision.  The allocation now uses np.result_type over all the arrays and the pad value.  The "
                "array-element model (one element type, values kept exactly by padding) is thereby true of mixed-dtype calls too; the dtype "
                "itself is modelled by pad_dtype (end of Model/Dbal.v: floating dtypes by precision, the Python-float pad value does not "
                "raise a floating dtype), proved to hold every plate's dtype in any order (C05_pad_dtype_*), the pre-repair choice kept only "
                "as pad_dtype_of true and refuted.  pad_dtype is tied to the code by the correspondence of kind pad-dtype (the real "
                "function's result dtype on every dtype list) and by the pattern of the pad link; kinds dtype and pad-dtype JUDGE the "
                "formerly excused behaviour (no signature is folded any more; the old witness is corpus/C05/first-plate-float32.json).  "
                "Whether the documented estimator is the right formula (gap G5.2) is outside the property as given and not examined.")

TRUSTED = [
    "source-translation links C05_model_is_source_*: the translator harness/py2gal.py (rendering into Lib/PyRt.v) and the primitives of the "
    "configurations C05_SCORE, C05_PAD, C05_HETERO, C05_HOMO, C05_KERNEL_CHECKS, C05_KERNEL_TRIPLES in harness/src_functions.py (listed "
    "one by one in the explanation; their meanings are the definitions at the end of Model/Dbal.v); the kernel's tensor expressions are "
    "not translated",
]
TOL = 1e-9
NEG_INF = float("-inf")


# --------------------------------------------------------------------------- helpers

class RecRng:
    """records every rng.choice call of the implementation"""

    def __init__(self, seed):
        self.g = np.random.default_rng(seed)
        self.calls = []

    def choice(self, a, size=None, replace=True, **kw):
        r = self.g.choice(a, size=size, replace=replace, **kw)
        self.calls.append(dict(a=int(a), size=int(size), replace=bool(replace), result=[int(x) for x in r]))
        return r


def _contract(calls, T, max_combos, n_calls):
    n = math.comb(T, 3)
    if len(calls) != n_calls:
        return "expected %d rng.choice calls, saw %d" % (n_calls, len(calls))
    for c in calls:
        if c["a"] != n or c["size"] != min(n, max_combos) or c["replace"]:
            return "unexpected rng.choice arguments %r" % ({k: c[k] for k in ("a", "size", "replace")},)
        r = c["result"]
        if len(r) != c["size"] or len(set(r)) != len(r) or any(x < 0 or x >= n for x in r):
            return "rng.choice broke its contract: %r" % (r,)
    return None


def _canon_scores(arr):
    out = []
    for x in np.asarray(arr, dtype=float).tolist():
        if math.isnan(x):
            out.append("nan")
        elif x == NEG_INF:
            out.append(None)
        else:
            out.append(x)
    return out


def _fq(a):
    return [[frac(x) for x in row] for row in a]


def _same(x, y, tol=TOL):
    if x is None or y is None or isinstance(x, str) or isinstance(y, str):
        return x == y
    return abs(x - y) <= tol * max(1.0, abs(x), abs(y))


def direct_loop(mu, var, D, df, triples):
    """the documented estimator for ONE plate, written from the formula: log of the sum over triples of
    (summed pairwise distance)^df times the product over the plate's experiments of the Gaussian triple term."""
    n_exp = len(mu[0]) if mu else 0
    logs = []
    for (i, j, k) in triples:
        dsum = D[i][j] + D[j][k] + D[i][k]
        if dsum == 0:
            logs.append(NEG_INF)
            continue
        a = df * math.log(dsum)
        for e in range(n_exp):
            v1, v2, v3 = var[i][e], var[j][e], var[k][e]
            m1, m2, m3 = mu[i][e], mu[j][e], mu[k][e]
            alpha = v1 * v2 + v2 * v3 + v1 * v3
            quad = v3 * (m1 - m2) ** 2 + v2 * (m1 - m3) ** 2 + v1 * (m2 - m3) ** 2
            a += -0.5 * math.log(alpha) - 0.5 * v1 * v2 * v3 / alpha ** 2 * quad
        logs.append(a)
    mx = max(logs)
    if mx == NEG_INF:
        return None
    return mx + math.log(sum(math.exp(a - mx) for a in logs))


def _triples_of(calls_result, T):
    from batchie.scoring.gaussian_dbal import get_combination_at_sorted_index
    return [tuple(int(x) for x in get_combination_at_sorted_index(ix, T, 3)) for ix in calls_result]


def _hetero(plates, D, df, seed, max_combos):
    from batchie.scoring import gaussian_dbal as G
    rr = RecRng(seed)
    out = G.dbal_fast_gaussian_scoring_heteroscedastic(
        per_plate_predictions=[np.array(p["mu"], dtype=float).reshape(len(p["mu"]), -1) for p in plates],
        variances=[np.array(p["var"], dtype=float).reshape(len(p["var"]), -1) for p in plates],
        distance_matrix=np.array(D, dtype=float), rng=rr, max_combos=max_combos, distance_factor=df)
    return _canon_scores(out), rr


def _hetero_dtypes(plates, dtypes, D, df, seed, max_combos):
    """the heteroscedastic entry point with plate k handed over as numpy dtype dtypes[k]"""
    from batchie.scoring import gaussian_dbal as G
    rr = RecRng(seed)
    out = G.dbal_fast_gaussian_scoring_heteroscedastic(
        per_plate_predictions=[np.array(p["mu"], dtype=float).reshape(len(p["mu"]), -1).astype(dt) for p, dt in zip(plates, dtypes)],
        variances=[np.array(p["var"], dtype=float).reshape(len(p["var"]), -1).astype(dt) for p, dt in zip(plates, dtypes)],
        distance_matrix=np.array(D, dtype=float), rng=rr, max_combos=max_combos, distance_factor=df)
    return _canon_scores(out), rr


# --------------------------------------------------------------------------- scorer plumbing

class _StubTheta:
    def __init__(self, mu_row, var_row):
        self.mu_row = mu_row
        self.var_row = var_row

    def predict_conditional_mean(self, screen):
        return self.mu_row[np.where(screen.selection_vector)[0]]

    def predict_conditional_variance(self, screen):
        return self.var_row[np.where(screen.selection_vector)[0]]


class _StubThetas:
    def __init__(self, MU, VAR):
        self.MU, self.VAR = MU, VAR
        self.n_thetas = MU.shape[0]

    def get_theta(self, i):
        return _StubTheta(self.MU[i], self.VAR[i])


def _scorer(plates, order, D, T, max_chunk, max_triples, seed, scorer=None):
    """plates: list of dict(mu, var) (T x E_p, E_p >= 1); order: the key order of the dict handed to the scorer.
    Returns ([(key, score)], RecRng, key->plate index)."""
    from batchie.data import Screen
    from batchie.distance_calculation import ChunkedDistanceMatrix
    from batchie.scoring.gaussian_dbal import GaussianDBALScorer

    sizes = [len(p["mu"][0]) for p in plates]
    n = sum(sizes)
    names = []
    for k, s in enumerate(sizes):
        names += ["plate%02d" % k] * s
    screen = Screen(
        observations=np.zeros(n, dtype=float), observation_mask=np.zeros(n, dtype=bool),
        sample_names=np.array(["s"] * n, dtype=str), plate_names=np.array(names, dtype=str),
        treatment_names=np.array([["a", "b"]] * n, dtype=str), treatment_doses=np.array([[2.0, 2.0]] * n))
    MU = np.concatenate([np.array(p["mu"], dtype=float) for p in plates], axis=1)
    VAR = np.concatenate([np.array(p["var"], dtype=float) for p in plates], axis=1)
    by_name = {p.plate_name: p for p in screen.plates}
    objs = [by_name["plate%02d" % k] for k in range(len(plates))]
    keyof = [int(o.plate_id) for o in objs]
    pdict = {keyof[k]: objs[k] for k in order}
    dm = ChunkedDistanceMatrix(T)
    for i in range(T):
        for j in range(i):
            dm.add_value(i, j, D[i][j])
    rr = RecRng(seed)
    res = (scorer if scorer is not None else GaussianDBALScorer(max_chunk=max_chunk, max_triples=max_triples)).score(
        plates=pdict, distance_matrix=dm, samples=_StubThetas(MU, VAR), rng=rr, progress_bar=False)
    items = [(int(k), s) for k, s in zip(res.keys(), _canon_scores(list(res.values())))]
    return items, rr, keyof


def _scorer_masks(MU, VAR, masks, keys, D, T, max_chunk, max_triples, seed):
    """GaussianDBALScorer.score over ScreenSubsets of ONE screen given by arbitrary (overlapping, interleaved) boolean
    selection vectors; MU / VAR are T x n arrays of prescribed per-row means / variances.  Returns ([(key, score)], RecRng)."""
    from batchie.data import Screen, ScreenSubset
    from batchie.distance_calculation import ChunkedDistanceMatrix
    from batchie.scoring.gaussian_dbal import GaussianDBALScorer

    MU = np.array(MU, dtype=float)
    VAR = np.array(VAR, dtype=float)
    n = MU.shape[1]
    screen = Screen(
        observations=np.zeros(n, dtype=float), observation_mask=np.zeros(n, dtype=bool),
        sample_names=np.array(["s"] * n, dtype=str), plate_names=np.array(["p%02d" % (i % 3) for i in range(n)], dtype=str),
        treatment_names=np.array([["a", "b"]] * n, dtype=str), treatment_doses=np.array([[2.0, 2.0]] * n))
    pdict = {int(k): ScreenSubset(screen, np.array(m, dtype=bool)) for k, m in zip(keys, masks)}
    dm = ChunkedDistanceMatrix(T)
    for i in range(T):
        for j in range(i):
            dm.add_value(i, j, D[i][j])
    rr = RecRng(seed)
    res = GaussianDBALScorer(max_chunk=max_chunk, max_triples=max_triples).score(
        plates=pdict, distance_matrix=dm, samples=_StubThetas(MU, VAR), rng=rr, progress_bar=False)
    return [(int(k), sc) for k, sc in zip(res.keys(), _canon_scores(list(res.values())))], rr


def _cols(A, mask):
    return [[row[j] for j, m in enumerate(mask) if m] for row in A]


# --------------------------------------------------------------------------- generation

def _var(rng):
    if rng.random() < 0.25:
        return rng.uniform(0.01, 50.0)
    return 2.0 ** rng.randint(-10, 10)


def _mean(rng):
    if rng.random() < 0.15:
        return rng.uniform(-3.0, 3.0)
    return rng.randint(-48, 48) / 16.0


def _matrix(rng, T, zero_diag):
    mode = rng.choice(["dense", "dense", "sparse", "sparse", "zero", "one-pair"])
    D = [[0.0] * T for _ in range(T)]
    for i in range(T):
        for j in range(i):
            if mode == "zero":
                v = 0.0
            elif mode == "one-pair":
                v = 0.0
            elif mode == "sparse":
                v = rng.choice([0.0, 0.0, 0.0, rng.randint(1, 40) / 8.0])
            else:
                v = rng.choice([0.0, rng.randint(1, 40) / 8.0, rng.uniform(0.0, 5.0), rng.randint(1, 40) / 8.0])
            D[i][j] = D[j][i] = v
        D[i][i] = 0.0 if zero_diag else rng.choice([0.0, 1.0, 7.5])
    if mode == "one-pair" and T >= 2:
        i = rng.randrange(1, T)
        j = rng.randrange(i)
        D[i][j] = D[j][i] = rng.randint(1, 40) / 8.0
    return D


def _plates(rng, T, n_plates, min_size, homo):
    sizes = [rng.randint(min_size, 4) for _ in range(n_plates)]
    if n_plates >= 2 and len(set(sizes)) == 1 and rng.random() < 0.8:
        sizes[rng.randrange(n_plates)] = (sizes[0] % 4) + 1  # unequal sizes -> padding
    out = []
    for s in sizes:
        mu = [[_mean(rng) for _ in range(s)] for _ in range(T)]
        if homo:
            col = [_var(rng) for _ in range(T)]
            var = [[col[t]] * s for t in range(T)]
        else:
            var = [[_var(rng) for _ in range(s)] for _ in range(T)]
        out.append(dict(mu=mu, var=var))
    return out


def gen(rng, tier):
    mult = 1 if tier == "quick" else 8
    plan = [("hetero", 200), ("kernel", 90), ("homo", 100), ("scorer", 200)]
    for kind, cnt in plan:
        for _ in range(cnt * mult):
            T = rng.choice([3, 3, 4, 4, 5, 5, 6])
            n_plates = rng.choice([1, 2, 2, 3, 3, 4])
            min_size = 1 if kind == "scorer" or rng.random() < 0.9 else 0
            plates = _plates(rng, T, n_plates, min_size, homo=(kind == "homo"))
            ncomb = math.comb(T, 3)
            sub = ncomb > 1 and rng.random() < 0.12
            desc = dict(kind=kind, T=T, plates=plates, D=_matrix(rng, T, zero_diag=(kind == "scorer")),
                        df=(1.0 if kind == "scorer" else rng.choice([1.0, 1.0, 1.0, 0.5, 2.0])),
                        seed=rng.randrange(1 << 30),
                        max_combos=(rng.randint(1, ncomb - 1) if sub else rng.choice([ncomb, ncomb + 3, 5000])))
            if kind == "scorer":
                order = list(range(n_plates))
                rng.shuffle(order)
                desc["order"] = order
                desc["max_chunk"] = rng.randint(1, 5)
                desc["max_chunk2"] = rng.randint(1, 5)
            yield desc
    # large plates with variances at the ends of the allowed range (implementation-only predicate: the exact-rational
    # model is not run on 100-experiment plates): the padded kernel must equal the direct per-experiment estimator and stay
    # finite where the estimator is - products over a plate's experiments leave the double range long before sums of logs do
    for _ in range(24 * mult):
        T = rng.choice([3, 4, 5])
        scale = rng.choice([2.0 ** -10, 2.0 ** -10, 1.0, 2.0 ** 10, 2.0 ** 10, None])
        plates = []
        for s_ in [rng.choice([1, 7, 48, 64, 96, 128]) for _ in range(rng.choice([1, 2, 3]))] + [rng.choice([64, 96, 128])]:
            mu = [[_mean(rng) / 4 for _ in range(s_)] for _ in range(T)]
            var = [[(scale * rng.choice([0.5, 1.0, 1.0, 2.0]) if scale else 10.0 ** rng.uniform(-3, 3)) for _ in range(s_)] for _ in range(T)]
            plates.append(dict(mu=mu, var=var))
        rng.shuffle(plates)
        yield dict(kind="bigfp", T=T, plates=plates, D=_matrix(rng, T, zero_diag=False), df=1.0, seed=rng.randrange(1 << 30),
                   max_combos=5000, homo=False)
    # ---- gap review g2 ----
    # G5.1: the kernel at production widths (max_chunk = 50 plates per call) and production triple counts (thousands); the
    # exact-rational model is not run, the predicate is the direct estimator per plate
    for rep in range(2 * mult):
        for n_plates in [5, 8, 9, 17, 50]:
            T = rng.choice([3, 3, 4])
            yield dict(kind="kernel-wide", T=T, plates=_plates(rng, T, n_plates, 1, False)[:n_plates], D=_matrix(rng, T, False),
                       df=rng.choice([1.0, 1.0, 0.5]), seed=rng.randrange(1 << 30), max_combos=5000,
                       via=("hetero" if (rep + n_plates) % 2 else "kernel"))
    for T in ([12, 20, 32, 40] if tier == "quick" else [12, 20, 32, 40] * 3 + [13, 21, 31, 33]):
        pls = _plates(rng, T, rng.choice([2, 3]), 1, False)
        for p_ in pls:  # thousands of summands: keep the means small so that the summands stay comparable
            p_["mu"] = [[x / 4 for x in row] for row in p_["mu"]]
        yield dict(kind="kernel-many", T=T, plates=pls, D=_matrix(rng, T, False), df=1.0, seed=rng.randrange(1 << 30),
                   max_combos=5000, via=rng.choice(["kernel", "hetero"]))
    # more plates than the DEFAULT max_chunk (50): two sub-groups of the default-constructed scorer
    for _ in range(2 * mult):
        T = 3
        n_plates = rng.randint(51, 64)
        order = list(range(n_plates))
        rng.shuffle(order)
        yield dict(kind="scorer", T=T, plates=_plates(rng, T, n_plates, 1, False), D=_matrix(rng, T, True), df=1.0,
                   seed=rng.randrange(1 << 30), max_combos=5000, order=order, max_chunk=50, max_chunk2=rng.choice([7, 64]), default_ctor=True)
    # G5.5: overlapping / interleaved ScreenSubsets (own rows + a common batch block), as score_chunk builds them
    for _ in range(40 * mult):
        T = rng.choice([3, 3, 4, 4, 5])
        n_plates = rng.choice([1, 2, 2, 3, 3, 4])
        own = [rng.randint(0 if n_plates > 1 else 1, 3) for _ in range(n_plates)]
        nb = rng.randint(1, 3)
        n = sum(own) + nb + rng.randint(0, 2)            # some rows belong to no plate
        rows = list(range(n))
        rng.shuffle(rows)                                # interleaved, not contiguous
        batch = rows[:nb]
        masks, pos = [], nb
        for o in own:
            mine = set(rows[pos:pos + o]) | set(batch)
            pos += o
            masks.append([1 if j in mine else 0 for j in range(n)])
        keys = rng.sample(range(100), n_plates)
        ncomb = math.comb(T, 3)
        yield dict(kind="scorer-overlap", T=T, MU=[[_mean(rng) for _ in range(n)] for _ in range(T)],
                   VAR=[[_var(rng) for _ in range(n)] for _ in range(T)], masks=masks, keys=keys, D=_matrix(rng, T, True), df=1.0,
                   seed=rng.randrange(1 << 30), max_combos=rng.choice([ncomb, 5000]), max_chunk=rng.randint(1, 4), max_chunk2=rng.randint(1, 4))
    # G5.4: one plate handed over as float32; the other plates' scores must not move
    for _ in range(30 * mult):
        T = rng.choice([3, 4, 5])
        n_plates = rng.choice([2, 2, 3])
        yield dict(kind="dtype", T=T, plates=_plates(rng, T, n_plates, 1, False), D=_matrix(rng, T, False), df=1.0,
                   seed=rng.randrange(1 << 30), max_combos=5000, cast=rng.choice([0, 0, 0, 1, n_plates - 1]))
    # malformed
    for _ in range(30 * mult):
        T = rng.choice([3, 4, 5])
        how = rng.choice(["var-shape", "D-size", "D-nonsquare", "few-thetas", "homo-nplates", "homo-nthetas"])
        if how == "few-thetas":
            T = rng.choice([1, 2])
        plates = _plates(rng, T, rng.choice([1, 2, 3]), 1, homo=how.startswith("homo"))
        yield dict(kind="malformed", how=how, T=T, plates=plates, D=_matrix(rng, T, False), df=1.0,
                   seed=rng.randrange(1 << 30), max_combos=5000)
    # repair fx2: the padding function itself on arrays of mixed floating dtypes (last, so that the stream above is unchanged)
    yield dict(kind="pad-dtype", T=3, arrays=[], dtypes=[], pad="zero")
    for _ in range(60 * mult):
        T = rng.choice([1, 2, 3, 4])
        n = rng.choice([1, 2, 2, 3, 3, 4])
        codes = [rng.choice([16, 32, 32, 64, 64]) for _ in range(n)]
        if n >= 2 and rng.random() < 0.5:
            codes[0] = min(codes)                     # the narrowest dtype first: what the pre-repair code got wrong
        widths = [rng.randint(1, 3) for _ in range(n)]
        arrays = [[[rng.uniform(-4.0, 4.0) for _ in range(w)] for _ in range(T)] for w in widths]
        yield dict(kind="pad-dtype", T=T, arrays=arrays, dtypes=codes, pad=rng.choice(["zero", "nan"]))


# --------------------------------------------------------------------------- running a case

def _cmp_scores(m, i):
    if len(m) != len(i):
        return "length differs: model %d impl %d" % (len(m), len(i))
    for k, (a, b) in enumerate(zip(m, i)):
        if isinstance(b, str):
            return "implementation returned %s at %d" % (b, k)
        if a == []:
            if b is not None:
                return "plate %d: model -inf, implementation %r" % (k, b)
        elif b is None:
            return "plate %d: implementation -inf, model %s" % (k, float(Fraction(a[0][0], a[0][1])))
        elif not common.close(a[0], b, TOL):
            return "plate %d: model %.17g implementation %.17g" % (k, float(Fraction(a[0][0], a[0][1])), b)
    return None


def _cmp_items(m, i):
    if [x[0] for x in m] != [x[0] for x in i]:
        return "keys differ: model %r impl %r" % ([x[0] for x in m], [x[0] for x in i])
    return _cmp_scores([x[1] for x in m], [x[1] for x in i])


def _pred_direct(scores, plates, D, df, triples, what):
    for k, (s, p) in enumerate(zip(scores, plates)):
        ref = direct_loop(p["mu"], p["var"], D, df, triples)
        if isinstance(s, str) or not _same(s, ref):
            return "%s: plate %d scores %r but the direct estimator on that plate alone gives %r" % (what, k, s, ref)
    return None


def _invariances(desc, scores, full):
    """invariances of the property, evaluated on the implementation (heteroscedastic entry point)."""
    plates, D, df, T = desc["plates"], desc["D"], desc["df"], desc["T"]
    seed, mc = desc["seed"], desc["max_combos"]
    if not full:
        return None
    # alone: every plate scored by itself
    for k, p in enumerate(plates):
        s1, _ = _hetero([p], D, df, seed + 1 + k, mc)
        if not _same(s1[0], scores[k]):
            return "plate %d scores %r alone but %r alongside the others" % (k, s1[0], scores[k])
    # permuting the experiments of plate 0 ; reversing the plate order
    r = np.random.default_rng(seed ^ 0x5EED)
    p0 = plates[0]
    e = len(p0["mu"][0])
    if e >= 2:
        pi = [int(x) for x in r.permutation(e)]
        q0 = dict(mu=[[row[j] for j in pi] for row in p0["mu"]], var=[[row[j] for j in pi] for row in p0["var"]])
        s2, _ = _hetero([q0] + plates[1:], D, df, seed, mc)
        if not _same(s2[0], scores[0]):
            return "permuting the experiments of plate 0 by %r changes its score %r -> %r" % (pi, scores[0], s2[0])
    s3, _ = _hetero(plates[::-1], D, df, seed + 77, mc)
    if not all(_same(a, b) for a, b in zip(s3[::-1], scores)):
        return "reversing the plate order changes scores %r -> %r" % (scores, s3[::-1])
    # relabelling the posterior samples
    sg = [int(x) for x in r.permutation(T)]
    rp = [dict(mu=[p["mu"][sg[i]] for i in range(T)], var=[p["var"][sg[i]] for i in range(T)]) for p in plates]
    rD = [[D[sg[i]][sg[j]] for j in range(T)] for i in range(T)]
    s4, _ = _hetero(rp, rD, df, seed + 5, mc)
    if not all(_same(a, b) for a, b in zip(s4, scores)):
        return "relabelling the samples by %r changes scores %r -> %r" % (sg, scores, s4)
    # finite iff some triple has positive distance
    anypos = any(D[i][j] + D[j][k] + D[i][k] > 0 for (i, j, k) in itertools.combinations(range(T), 3))
    for k, s in enumerate(scores):
        if (s is not None) != anypos:
            return "plate %d: score %r but %s triple has positive summed distance" % (k, s, "some" if anypos else "no")
    return None


def _run_overlap(desc):
    """G5.5: GaussianDBALScorer.score on ScreenSubsets with overlapping, interleaved selection vectors"""
    T, D, mc, seed = desc["T"], desc["D"], desc["max_combos"], desc["seed"]
    MU, VAR, masks, keys, mchunk = desc["MU"], desc["VAR"], desc["masks"], desc["keys"], desc["max_chunk"]
    plates = [dict(mu=_cols(MU, m), var=_cols(VAR, m)) for m in masks]
    all_triples = list(itertools.combinations(range(T), 3))
    n_groups = math.ceil(len(plates) / mchunk)
    sizes = [sum(m) for m in masks]
    feats = ["scorer-overlap", "T=%d" % T, "plates=%d" % len(plates), "groups=%d" % n_groups]
    if len(set(sizes)) > 1:
        feats.append("padding")
    if any(any(a and b for a, b in zip(m1, m2)) for i, m1 in enumerate(masks) for m2 in masks[i + 1:]):
        feats.append("overlapping")
    if any(any(m[j] and not m[j + 1] and any(m[j + 2:]) for j in range(len(m) - 2)) for m in masks):
        feats.append("interleaved")
    items, rr = _scorer_masks(MU, VAR, masks, keys, D, T, mchunk, mc, seed)
    pred = _contract(rr.calls, T, mc, n_groups)
    if pred is None and [k for k, _ in items] != list(keys):
        pred = "scorer keys %r are not the plate keys in order %r" % ([k for k, _ in items], keys)
    if pred is None:
        pred = _pred_direct([s_ for _, s_ in items], plates, D, 1.0, all_triples, "scorer on overlapping subsets")
    if pred is None:
        d1 = dict(items)
        items2, _ = _scorer_masks(MU, VAR, masks[::-1], keys[::-1], D, T, desc["max_chunk2"], mc, seed + 9)
        d2 = dict(items2)
        for k in d1:
            if not _same(d1[k], d2.get(k, "missing")):
                pred = "plate key %d: score %r with max_chunk=%d but %r with max_chunk=%d and reversed plate order" % (
                    k, d1[k], mchunk, d2.get(k), desc["max_chunk2"])
        if pred is None and len(plates) >= 2:
            j = seed % len(plates)
            items3, _ = _scorer_masks(MU, VAR, [masks[j]], [keys[j]], D, T, mchunk, mc, seed + 11)
            if not _same(items3[0][1], d1[keys[j]]):
                pred = "plate key %d scores %r among the overlapping plates but %r when scored without them" % (keys[j], d1[keys[j]], items3[0][1])
    wire = [3, mchunk, [[k, _fq(p["mu"]), _fq(p["var"])] for k, p in zip(keys, plates)], _fq(D), [c["result"] for c in rr.calls]]
    return dict(wire=wire, impl=[[k, s_] for k, s_ in items], pred=pred, features=feats, cmp=cmp_result(_cmp_items))


_DT_CODES = {16: np.float16, 32: np.float32, 64: np.float64}


def _run_dtype(desc, feats, all_triples):
    """G5.4: plate `cast` is handed over as float32, the others as float64; the scores of the float64 plates must be what they
    are without the cast (and the direct estimator), and the float32 plate must score what its own (rounded) values give."""
    T, plates, D, df, seed, mc, cast = desc["T"], desc["plates"], desc["D"], desc["df"], desc["seed"], desc["max_combos"], desc["cast"]
    s64, rr = _hetero(plates, D, df, seed, mc)
    pred = _contract(rr.calls, T, mc, 1) or _pred_direct(s64, plates, D, df, all_triples, "heteroscedastic (all plates float64)")
    feats += ["cast-first" if cast == 0 else "cast-other"]
    if pred is None:
        s32, _ = _hetero_dtypes(plates, [np.float32 if k == cast else np.float64 for k in range(len(plates))], D, df, seed, mc)
        for k in range(len(plates)):
            if k == cast or _same(s32[k], s64[k]):
                continue
            ref = direct_loop(plates[k]["mu"], plates[k]["var"], D, df, all_triples)
            pred = ("plate %d (float64, unchanged) scores %r when plate %d is handed over as float32 but %r when it is float64 (direct "
                    "estimator on plate %d alone: %r): its score depends on another plate's dtype / on the plate order"
                    % (k, s32[k], cast, s64[k], k, ref))
            break
    if pred is None and len(plates) >= 2:
        # the float32 plate stands among float64 plates: it is scored on the values it was handed over with, in double precision
        r32 = {key: np.array(plates[cast][key], dtype=float).astype(np.float32).astype(float).tolist() for key in ("mu", "var")}
        ref = direct_loop(r32["mu"], r32["var"], D, df, all_triples)
        if isinstance(s32[cast], str) or not _same(s32[cast], ref):
            pred = ("plate %d (handed over as float32 among float64 plates) scores %r but the direct estimator on its own float32 values "
                    "gives %r" % (cast, s32[cast], ref))
    return dict(wire=None, impl=None, pred=pred, features=feats)


def _bits(a):
    """the values of a float array as exact Python floats (every float16 / float32 is a float64)"""
    return np.asarray(a).astype(np.float64)


def _run_pad_dtype(desc):
    """pad_ragged_arrays_to_dense_array on arrays of mixed floating dtypes: nothing is rounded, the dense dtype is one of the
    arrays' dtypes and does not depend on the order; the dtype is compared with the model's pad_dtype (wire op 5)"""
    from batchie.scoring import gaussian_dbal as G

    codes, pad = desc["dtypes"], (float("nan") if desc["pad"] == "nan" else 0.0)
    arrays = [np.array(a, dtype=float).reshape(desc["T"], -1).astype(_DT_CODES[c]) for a, c in zip(desc["arrays"], codes)]
    feats = ["pad-dtype", "arrays=%d" % len(arrays), "pad=" + desc["pad"], "dtypes=" + "/".join(sorted({str(c) for c in codes}))]
    if not arrays:
        feats.append("trivial")
    if len(set(codes)) > 1:
        feats.append("mixed-dtypes")
        feats.append("first-is-widest" if codes[0] == max(codes) else "first-is-not-widest")
    out = impl_call(G.pad_ragged_arrays_to_dense_array, arrays, pad_value=pad)
    pred = None
    impl = out
    if isinstance(out, ImplError):
        if arrays:
            pred = "pad_ragged_arrays_to_dense_array raised %r on %d arrays" % (out, len(arrays))
        elif out.cls != "ValueError":
            pred = "pad_ragged_arrays_to_dense_array([]) raised %r instead of ValueError" % (out,)
    else:
        impl = out.dtype.itemsize * 8 if out.dtype.kind == "f" else str(out.dtype)
        H, W = max(a.shape[0] for a in arrays), max(a.shape[1] for a in arrays)
        if out.shape != (len(arrays), H, W):
            pred = "dense array has shape %r, expected %r" % (out.shape, (len(arrays), H, W))
        for k, a in enumerate(arrays):
            if pred is not None:
                break
            got = _bits(out[k, :a.shape[0], :a.shape[1]])
            if not np.array_equal(got, _bits(a)):
                pred = ("array %d (dtype %s) is stored ROUNDED in the dense array of dtype %s (first array: %s): read back %r, handed over %r"
                        % (k, a.dtype, out.dtype, arrays[0].dtype, got.tolist(), _bits(a).tolist()))
                break
            rest = np.ones((H, W), dtype=bool)
            rest[:a.shape[0], :a.shape[1]] = False
            cells = _bits(out[k])[rest]
            if not (np.all(np.isnan(cells)) if desc["pad"] == "nan" else np.all(cells == 0.0)):
                pred = "padding cells of array %d do not hold the pad value %r: %r" % (k, pad, cells.tolist())
        if pred is None and out.dtype not in {a.dtype for a in arrays}:
            pred = "dense dtype %s is none of the arrays' dtypes %r" % (out.dtype, [str(a.dtype) for a in arrays])
        if pred is None:
            rev = impl_call(G.pad_ragged_arrays_to_dense_array, arrays[::-1], pad_value=pad)
            if isinstance(rev, ImplError) or rev.dtype != out.dtype:
                pred = "dense dtype depends on the order of the arrays: %s for dtypes %r, %s for the reversed list" % (
                    out.dtype, codes, rev if isinstance(rev, ImplError) else rev.dtype)
    return dict(wire=[5, 0, list(codes)], impl=impl, pred=pred, features=feats, cmp=cmp_result())


def run(desc):
    from batchie.scoring import gaussian_dbal as G

    kind = desc["kind"]
    if kind == "scorer-overlap":
        return _run_overlap(desc)
    if kind == "pad-dtype":
        return _run_pad_dtype(desc)
    T, plates, D, df = desc["T"], desc["plates"], desc["D"], desc["df"]
    seed, mc = desc["seed"], desc["max_combos"]
    ncomb = math.comb(T, 3)
    full = mc >= ncomb
    all_triples = list(itertools.combinations(range(T), 3))
    sizes = [len(p["mu"][0]) for p in plates]
    feats = [kind, "T=%d" % T, "plates=%d" % len(plates)]
    if len(set(sizes)) > 1:
        feats.append("padding")
    if 1 in sizes:
        feats.append("size-1-plate")
    if 0 in sizes:
        feats.append("size-0-plate")
    if not full:
        feats.append("subsampled")
    if kind != "malformed" and not any(D[i][j] + D[j][k] + D[i][k] > 0 for (i, j, k) in all_triples):
        feats.append("-inf")
    elif kind != "malformed" and any(D[i][j] + D[j][k] + D[i][k] == 0 for (i, j, k) in all_triples):
        feats.append("some-zero-triple")
    if df != 1.0:
        feats.append("distance_factor")
    if any(Fraction(v).denominator > (1 << 12) or Fraction(v).numerator > (1 << 12) for p in plates for row in p["var"] for v in row):
        feats.append("full-mantissa-variance")

    def arr(p, key):
        return np.array(p[key], dtype=float).reshape(T, -1)

    if kind == "dtype":
        return _run_dtype(desc, feats, all_triples)

    if kind in ("kernel-wide", "kernel-many"):
        # G5.1: production widths / triple counts; implementation-side predicate only
        if desc.get("via") == "hetero":
            scores, rr = _hetero(plates, D, df, seed, mc)
        else:
            E = max(sizes)
            P = np.zeros((len(plates), T, E))
            V = np.full((len(plates), T, E), np.nan)
            for k, p in enumerate(plates):
                P[k, :, :sizes[k]] = arr(p, "mu")
                V[k, :, :sizes[k]] = arr(p, "var")
            rr = RecRng(seed)
            scores = _canon_scores(G.dbal_fast_gauss_scoring_vectorized(
                predictions=P, variances=V, distance_matrix=np.array(D, dtype=float), rng=rr, max_combos=mc, distance_factor=df))
        bad = _contract(rr.calls, T, mc, 1)
        triples = all_triples if full else (None if bad else _triples_of(rr.calls[0]["result"], T))
        pred = bad or _pred_direct(scores, plates, D, df, triples, "vectorized kernel, %d plates, %d triples" % (len(plates), len(triples)))
        feats += ["via-" + desc.get("via", "kernel"), "triples=%d" % (len(triples) if triples else 0)]
        return dict(wire=None, impl=None, pred=pred, features=feats)

    if kind == "bigfp":
        scores, rr = _hetero(plates, D, df, seed, mc)
        pred = _contract(rr.calls, T, mc, 1) or _pred_direct(scores, plates, D, df, all_triples, "heteroscedastic, large plates")
        if pred is None and not isinstance(scores, ImplError):
            ref = [direct_loop(p["mu"], p["var"], D, df, all_triples) for p in plates]
            for k_, (sc, rf) in enumerate(zip(scores, ref)):
                if rf is not None and (sc is None or isinstance(sc, str) or not math.isfinite(sc)):
                    pred = "score of plate %d (%d experiments) is %r although the direct estimator is finite (%r)" % (k_, sizes[k_], sc, rf)
                    break
        vs = [v for p in plates for row in p["var"] for v in row]
        feats += ["large-plate", "var<=2^-9" if max(vs) <= 2.0 ** -9 else "var>=2^9" if min(vs) >= 2.0 ** 9 else "var-mixed"]
        return dict(wire=None, impl=None, pred=pred, features=feats)

    if kind == "hetero":
        scores, rr = _hetero(plates, D, df, seed, mc)
        bad = _contract(rr.calls, T, mc, 1)
        triples = all_triples if full else _triples_of(rr.calls[0]["result"], T)
        pred = bad or _pred_direct(scores, plates, D, df, triples, "heteroscedastic") or _invariances(desc, scores, full)
        wire = [1, [[_fq(p["mu"]), _fq(p["var"])] for p in plates], _fq(D), frac(df), rr.calls[0]["result"]]
        return dict(wire=wire, impl=scores, pred=pred, features=feats, cmp=cmp_result(_cmp_scores))

    if kind == "kernel":
        E = max(sizes)
        P = np.zeros((len(plates), T, E))
        V = np.full((len(plates), T, E), np.nan)
        for k, p in enumerate(plates):
            P[k, :, :sizes[k]] = arr(p, "mu")
            V[k, :, :sizes[k]] = arr(p, "var")
        wV = [[[None if math.isnan(x) else [frac(x)] for x in row] for row in pl] for pl in V.tolist()]
        wP = [_fq(pl) for pl in P.tolist()]
        rr = RecRng(seed)
        scores = _canon_scores(G.dbal_fast_gauss_scoring_vectorized(
            predictions=P, variances=V, distance_matrix=np.array(D, dtype=float), rng=rr, max_combos=mc, distance_factor=df))
        bad = _contract(rr.calls, T, mc, 1)
        triples = all_triples if full else _triples_of(rr.calls[0]["result"], T)
        pred = bad or _pred_direct(scores, plates, D, df, triples, "vectorized kernel")
        # the dense arrays belong to the caller: a second evaluation on the SAME arrays (same recorded draw) must score the same,
        # i.e. the kernel must not have written into them (NaN padding replaced in place would turn padding into experiments)
        if pred is None:
            rr2 = RecRng(seed)
            again = _canon_scores(G.dbal_fast_gauss_scoring_vectorized(
                predictions=P, variances=V, distance_matrix=np.array(D, dtype=float), rng=rr2, max_combos=mc, distance_factor=df))
            if again != scores:
                pred = "vectorized kernel: a second evaluation on the same padded arrays scores %r, the first scored %r (the kernel wrote into its arguments)" % (again, scores)
        wire = [0, wP, wV, _fq(D), frac(df), rr.calls[0]["result"]]
        return dict(wire=wire, impl=scores, pred=pred, features=feats, cmp=cmp_result(_cmp_scores))

    if kind == "homo":
        variances = [[p["var"][t][0] if sizes[k] else 1.0 for t in range(T)] for k, p in enumerate(plates)]
        plates = [dict(mu=p["mu"], var=[[variances[k][t]] * sizes[k] for t in range(T)]) for k, p in enumerate(plates)]
        rr = RecRng(seed)
        scores = _canon_scores(G.dbal_fast_gaussian_scoring_homoscedastic(
            per_plate_predictions=[arr(p, "mu") for p in plates], variances=np.array(variances, dtype=float),
            distance_matrix=np.array(D, dtype=float), rng=rr, max_combos=mc, distance_factor=df))
        bad = _contract(rr.calls, T, mc, 1)
        triples = all_triples if full else _triples_of(rr.calls[0]["result"], T)
        pred = bad or _pred_direct(scores, plates, D, df, triples, "homoscedastic")
        if pred is None:
            s2, _ = _hetero(plates, D, df, seed, mc)  # same seed -> same draw
            if not all(_same(a, b, 1e-12) for a, b in zip(s2, scores)):
                pred = "homoscedastic %r != heteroscedastic on constant variances %r" % (scores, s2)
        wire = [2, [_fq(p["mu"]) for p in plates], _fq(variances), _fq(D), frac(df), rr.calls[0]["result"]]
        return dict(wire=wire, impl=scores, pred=pred, features=feats, cmp=cmp_result(_cmp_scores))

    if kind == "scorer":
        order, mchunk = desc["order"], desc["max_chunk"]
        feats.append("groups=%d" % math.ceil(len(plates) / mchunk))
        if order != sorted(order):
            feats.append("shuffled-keys")
        dflt = None
        if desc.get("default_ctor"):
            from batchie.scoring.gaussian_dbal import GaussianDBALScorer
            dflt = GaussianDBALScorer()      # the production configuration: max_chunk and max_triples as shipped
            feats.append("default-constructor")
            if (dflt.max_chunk, dflt.max_triples) != (mchunk, mc):
                mchunk, mc = int(dflt.max_chunk), int(dflt.max_triples)
                full = mc >= ncomb
        items, rr, keyof = _scorer(plates, order, D, T, mchunk, mc, seed, scorer=dflt)
        n_groups = math.ceil(len(plates) / mchunk)
        bad = _contract(rr.calls, T, mc, n_groups)
        pred = bad
        if pred is None and [k for k, _ in items] != [keyof[k] for k in order]:
            pred = "scorer keys %r are not the plate keys in order %r" % ([k for k, _ in items], [keyof[k] for k in order])
        if pred is None and full:
            pred = _pred_direct([s for _, s in items], [plates[k] for k in order], D, 1.0, all_triples, "scorer")
        if pred is None and full:
            # invariance: max_chunk, plate order, other plates present
            items2, _, _ = _scorer(plates, order[::-1], D, T, desc["max_chunk2"], mc, seed + 9)
            d1, d2 = dict(items), dict(items2)
            for k in d1:
                if not _same(d1[k], d2.get(k, "missing")):
                    pred = "plate key %d: score %r with max_chunk=%d but %r with max_chunk=%d and reversed plate order" % (
                        k, d1[k], mchunk, d2.get(k), desc["max_chunk2"])
            if pred is None and len(plates) >= 2:
                sub = order[: len(order) // 2] or order[:1]
                sizes_sub = [plates[k] for k in sub]
                items3, _, key3 = _scorer(sizes_sub, list(range(len(sub))), D, T, mchunk, mc, seed + 11)
                for pos, k in enumerate(sub):
                    if not _same(dict(items3)[key3[pos]], d1[keyof[k]]):
                        pred = "plate %d scores %r among all plates but %r when only plates %r are scored" % (
                            k, d1[keyof[k]], dict(items3)[key3[pos]], sub)
        if pred is None and not full:
            # sub-sampled: each group used its own recorded draw
            groups = [list(g) for g in np.array_split(np.array(order), n_groups)]
            pos = 0
            for g, c in zip(groups, rr.calls):
                tr = _triples_of(c["result"], T)
                pred = pred or _pred_direct([s for _, s in items[pos:pos + len(g)]], [plates[k] for k in g], D, 1.0, tr, "scorer (sub-sampled)")
                pos += len(g)
        wire = [3, mchunk, [[keyof[k], _fq(plates[k]["mu"]), _fq(plates[k]["var"])] for k in order], _fq(D),
                [c["result"] for c in rr.calls]]
        return dict(wire=wire, impl=[[k, s] for k, s in items], pred=pred, features=feats, cmp=cmp_result(_cmp_items))

    if kind == "malformed":
        how = desc["how"]
        feats = ["malformed", how]
        rr = RecRng(seed)
        Dn = [row[:] for row in D]
        preds = [arr(p, "mu") for p in plates]
        vars_ = [arr(p, "var") for p in plates]
        if how == "var-shape":
            k = seed % len(plates)
            vars_[k] = np.concatenate([vars_[k], np.ones((T, 1))], axis=1)
        elif how == "D-size":
            Dn = [row + [1.0] for row in Dn] + [[1.0] * (T + 1)]
        elif how == "D-nonsquare":
            Dn = [row + [1.0] for row in Dn]
        hv = [[p["var"][t][0] for t in range(T)] for p in plates]
        if how == "homo-nplates":
            hv = hv + [hv[0]]
        elif how == "homo-nthetas":
            hv = [row + [1.0] for row in hv]
        if how.startswith("homo"):
            out = impl_call(G.dbal_fast_gaussian_scoring_homoscedastic, per_plate_predictions=preds,
                            variances=np.array(hv, dtype=float), distance_matrix=np.array(Dn, dtype=float), rng=rr)
            wire = [2, [_fq(a.tolist()) for a in preds], _fq(hv), _fq(Dn), frac(1.0), []]
        else:
            out = impl_call(G.dbal_fast_gaussian_scoring_heteroscedastic, per_plate_predictions=preds, variances=vars_,
                            distance_matrix=np.array(Dn, dtype=float), rng=rr)
            wire = [1, [[_fq(a.tolist()), _fq(v.tolist())] for a, v in zip(preds, vars_)], _fq(Dn), frac(1.0), []]
        pred = None
        if not isinstance(out, ImplError):
            pred = "malformed input (%s) accepted" % how
            out = _canon_scores(out)
        elif out.cls != "ValueError":
            pred = "malformed input (%s) raised %r instead of ValueError" % (how, out)
        return dict(wire=wire, impl=out, pred=pred, features=feats, cmp=cmp_result(_cmp_scores))
    raise ValueError(kind)


def shrink(desc):
    if desc["kind"] == "dtype" and len(desc["plates"]) > 2:
        for k in range(len(desc["plates"])):
            if k != desc["cast"]:
                yield dict(desc, plates=desc["plates"][:k] + desc["plates"][k + 1:], cast=desc["cast"] - (1 if k < desc["cast"] else 0))
    if desc["kind"] in ("hetero", "kernel", "homo", "kernel-wide", "kernel-many") and len(desc["plates"]) > 1:
        for k in range(len(desc["plates"])):
            yield dict(desc, plates=desc["plates"][:k] + desc["plates"][k + 1:])
    if desc["kind"] in ("hetero", "kernel", "homo", "kernel-wide", "kernel-many", "dtype"):
        for k, p in enumerate(desc["plates"]):
            if len(p["mu"][0]) > 1:
                q = dict(mu=[r[:-1] for r in p["mu"]], var=[r[:-1] for r in p["var"]])
                yield dict(desc, plates=desc["plates"][:k] + [q] + desc["plates"][k + 1:])


def signature(desc, res):
    pred = res.get("pred") or ""
    if desc.get("kind") in ("dtype", "pad-dtype"):
        # one report per cause (not per plate number / score); none of these classes is a listed known finding: they are VIOLATIONs
        for mark, name in (("depends on another plate's dtype", "float64-plate-moves-with-a-neighbours-dtype"),
                           ("handed over as float32 among", "float32-plate-not-scored-on-its-own-values"),
                           ("is stored ROUNDED", "array-stored-rounded"),
                           ("depends on the order of the arrays", "dense-dtype-depends-on-order"),
                           ("none of the arrays' dtypes", "dense-dtype-is-no-array-dtype"),
                           ("padding cells", "padding-cells-wrong")):
            if mark in pred:
                return "%s:%s" % (desc["kind"], name)
    return "%s:%s" % (desc.get("kind"), (pred or res.get("disagree") or "")[:40])


_MUTANTS = {
    "padding-mask-dropped": ("mask[:, idx1, :] * 0.5", "0.5"),
    "triple-index-mixup": ("d13 = padded_variances[:, idx2, :]", "d13 = padded_variances[:, idx3, :]"),
    "distance-pair-mixup": ("+ distance_matrix[idx1, idx3]", "+ distance_matrix[idx1, idx2]"),
    "logsumexp-wrong-axis": ("axis=1)", "axis=0)"),
}


def extra(tier):
    """sensitivity self-test on every run: realistic mutants of the kernel (patched in memory, never on disk) must be
    flagged by the property predicate on the generated stream."""
    import inspect
    import random
    from batchie.scoring import gaussian_dbal as G

    out = []
    orig = G.dbal_fast_gauss_scoring_vectorized
    try:
        src = inspect.getsource(orig)
    except Exception as e:  # noqa
        return [("mutants", True, "source not available (%s); skipped" % e)]
    descs = [d for d in gen(random.Random(20260926), "quick") if d["kind"] == "hetero"][:30]
    for name, (a, b) in _MUTANTS.items():
        if a not in src:
            out.append(("mutant-" + name, True, "mutation site not present in the current source; skipped"))
            continue
        ns = dict(G.__dict__)
        try:
            exec(compile(src.replace(a, b, 1), "<mutant %s>" % name, "exec"), ns)
            G.dbal_fast_gauss_scoring_vectorized = ns["dbal_fast_gauss_scoring_vectorized"]
            caught = 0
            for d in descs:
                try:
                    caught += 1 if run(d)["pred"] else 0
                except Exception:  # noqa
                    caught += 1
        finally:
            G.dbal_fast_gauss_scoring_vectorized = orig
        out.append(("mutant-" + name, caught > 0, "%d/%d cases flagged by the predicate" % (caught, len(descs))))
    return out
