"""C16 — the k-per-sample policy: zero or exactly k plates per sample in every batch."""
import logging
import random

import numpy as np

import common
from common import ImplError, cmp_result, impl_call

ID = "C16"
LEVEL = "proof"
RULE = ("kinds: direct (random screen of single-sample plates built with the real batchie.data.Screen, k in 1..4, a random "
        "selection history from the empty batch calling KPerSamplePlatePolicy.filter_eligible_plates directly, batch kept in "
        "selection order; eligible id list compared with the model at every state); select (same, through the real "
        "select_next_plate with a recording subclass of the policy and a ChunkedScoresHolder whose scores make the chosen "
        "eligible plate win while non-eligible plates may score lower; some plates already observed; a third of them again with "
        "NaN / +inf / 1.7e308 scores on every allowed plate, implementation-side predicate only); state (arbitrary, "
        "mostly unreachable (batch, remaining) splits in shuffled order incl. several incomplete samples, over-full samples "
        "and multi-sample plates).  Non-trivial: at least one plate; distinct by canonical case description.  "
        "ADDED (gap review g5): a quarter of the select histories run on an EVOLVING screen - the chosen plate is revealed with the real "
        "Screen.set_observed before the next call (after every step = the retrospective pipeline, or after random steps), compared with the "
        "model's history_select_reveal (wire op 4); in those, two fifths of the multi-row unobserved plates are HALF observed (set_observed on a "
        "strict subset of their rows: they count as unobserved, Plate.is_observed = all rows), and the clauses are judged a second time against "
        "the batch ids and the unobserved plates the harness itself knows (not only against what the policy was handed); select-cli (the command "
        "batchie.cli.select_next_plate.main run in-process on a saved screen and 1-2 saved score chunks with --policy KPerSamplePlatePolicy "
        "--policy-param k=<k> --batch-plate-id <ids...>, the class found by the command's own introspection; what the policy object was handed "
        "and its k are observed by wrapping the class method; the pick is read from --output; the screen is revealed and re-saved between calls "
        "in two thirds of them); a few select histories in which no allowed plate has a score (correspondence only: the model's Err 2).")
THEOREMS = {
    "C16_model_is_source": "the hand-written model filter_eligible equals, for all inputs, the Gallina translation of the whole method filter_eligible_plates regenerated from /repo's current source on this run (Generated/SrcPolicy.v)",
    "C16_model_is_source_select_next_plate": "the Gallina translation (C16 vocabulary) of the whole function scoring/main.py select_next_plate regenerated from /repo on this run (Generated/SrcScoringPolicy.v), called with KPerSamplePlatePolicy(k), equals for all inputs the model select_next (hence its arguments to the policy are select_args); the code returns the Plate screen.get_plate(chosen id) after reading its name, the model the eligible ids and the chosen id",
    "C16_model_is_source_select_next_plate_distinct_ids": "on a screen with distinct plate ids the name lookup cannot fail: the translated select_next_plate returns exactly get_plate of the id the model chose (None iff the model chose none)",
    "C16_eligible_subset": "the eligible list is the remaining list filtered by a predicate (subset, order kept), for every state",
    "C16_in_progress_only": "reachable state with a sample at 1..k-1 plates in the batch: eligible = exactly the remaining plates of that sample, and non-empty",
    "C16_open_needs_k": "an eligible plate whose sample has no plate in the batch has >= k remaining plates of its sample (every state)",
    "C16_one_incomplete": "every reachable batch: each sample has 0..k plates and at most one sample has a count in 1..k-1",
    "C16_batch_shape": "every reachable batch of m*k plates gives each sample 0 or exactly k plates",
    "C16_batch_ends_at_boundary": "if nothing is eligible in a reachable state, no sample is incomplete (each has 0 or k)",
    "C16_multi_sample_refused": "a plate with a number of distinct samples other than one anywhere in batch or remaining makes the policy refuse (ValueError)",
    "C16_single_sample_accepted": "if every plate in batch and remaining has exactly one sample the policy does not refuse",
    "C16_select_args": "select_next_plate passes the screen plates whose id is in the batch ids, and the unobserved plates whose id is not",
    "C16_select_next_is_a_step": "what select_next_plate passes to the policy and returns is one step of a selection history (returned plate is eligible, unobserved, not in the batch)",
    "C16_select_next_reachable": "every state produced by iterating select_next_plate from the empty batch is a reachable state of the history relation",
}
THEOREMS.update({
    "C16_select_args_reveal_invariant": "revealing (observing) a plate whose id is in the batch ids changes neither the batch plates nor the unobserved-not-in-batch plates that select_next_plate hands to the policy",
    "C16_select_next_reveal_invariant": "select_next_plate gives the same answer on the screen with any plates of the batch revealed",
    "C16_evolving_history_is_history": "a selection history over a screen that evolves by revealing plates already in the batch between two calls (what the retrospective pipeline does) is a history over the first screen, and the policy is handed the same lists at every point",
    "C16_select_next_reachable_evolving": "every state visited by iterating select_next_plate over such an evolving screen is a reachable state of the history relation (so every clause proved for reachable states holds along it)",
    "C16_history_reveal_is_history": "the executable history with reveals between the calls (wire op 4, compared with the implementation) equals the history on the fixed screen",
})
ASSUMPTIONS = [
    "within a batch the only plates that become observed are plates already in the batch (the retrospective pipeline reveals the pick; C16_evolving_history_is_history); an unobserved plate outside the batch does not become observed",
    "'unobserved plate' = a plate with at least one unobserved row (Plate.is_observed = all rows observed).  Screen.__init__ and load_h5 refuse a plate with a mixture of observed and unobserved rows (C12), so a half-observed plate exists only in memory after set_observed on part of a plate; it is then offered to the policy and may be allowed",
    "how the batch ids travel between two invocations of the command (batchie.py --excludes, the nextflow modules' --batch-plate-id) is not part of this check (no .nf file is read); kind select-cli starts at the command line of select_next_plate",
    "plates are identified by plate id and the list of their rows' sample ids (what Plate.plate_id / Plate.sample_ids return); everything else in a Plate is irrelevant to the policy",
    "scores cross the wire as integers (integer-valued floats in the ChunkedScoresHolder)",
]
EXPLANATION = ("Tie to the code, two ways: (1) the whole method filter_eligible_plates is re-translated from /repo's current source on "
               "every run (harness/py2gal.py, fail-closed: any construct outside its fragment, a changed parameter list or an undeclared "
               "variable stops the build) and C16_model_is_source proves the hand-written model equal to the translation for all inputs - "
               "trusted there: the translator (its rendering of for / if / raise / defaultdict / set into Lib/PyRt.v) and the two "
               "attribute primitives Plate.n_unique_samples and Plate.sample_ids[0]; (1b) the caller scoring/main.py select_next_plate is "
               "re-translated the same way (configuration C16_SELECT in harness/src_functions.py -> Generated/SrcScoringPolicy.v) and "
               "C16_model_is_source_select_next_plate proves it equal to the model select_next / select_args for all inputs - the default "
               "arguments, both comprehensions, the sort, the optional policy test, the early return and the propagation of exceptions come "
               "from the translation; trusted there, besides the translator, exactly these primitives (meaning in Model/Policy.v): "
               "np.random.default_rng() (an unread token), screen.plates = the list of plates, plate.plate_id = plate_id, plate.is_observed = "
               "a function `obs` of the Plate object, sorted(l, key=lambda p: p.plate_id) = sort_by_id (stable), "
               "policy.filter_eligible_plates(batch_plates, unobserved_plates, rng) = filter_eligible k (the function C16_model_is_source ties "
               "to the method's source), scores.plate_id_with_minimum_score(ids) = min_score_id, screen.get_plate(i) = get_plate (the plate "
               "with that id, a row-less Plate if none), plate.plate_name = plate_name (IndexError iff no row); logger calls are skipped; "
               "(2) the differential correspondence below, which also "
               "exercises those primitives and select_next_plate.  Model: Model/Policy.v (filter_eligible with insertion-ordered association lists for the three containers, the "
               "argument construction of select_next_plate, first-minimum score selection).  The history relation used by the "
               "theorems lets the new plate be inserted anywhere in the batch and the remaining list be permuted, so it covers both "
               "the selection-order and the screen-order batch lists.  Modelled, not verified: numpy/pandas id encoding inside Screen, "
               "the ScoresHolder storage; the rng argument is unused by this policy.")

# ---- wave 6 of the source link: the constructor (Generated/SrcInits.v, Proofs/C16Source_Init_Policy.v, C16Source_ConstructedPolicy.v) ----
THEOREMS.update({
    "C16_model_is_source_init": "the translated KPerSamplePlatePolicy.__init__ stores k: the self.k the translated filter_eligible_plates reads is the k the policy was constructed with",
    "C16_source_constructed_policy": "translated __init__ composed with the translated method: the policy constructed with k is the model filter_eligible k, for all k, batch and remaining plates",
})
EXPLANATION += ("  CONSTRUCTOR: KPerSamplePlatePolicy.__init__ is re-translated on every run (LS_INIT_POLICY -> Generated/SrcInits.v) and proved to store k; "
                "trusted: the translator only (no primitive): `self.<attr>` is a variable of the translation (attr_vars), the value of the translated __init__ is the tuple of the attributes when it ends; an attribute that is not declared is refused.")

logging.getLogger("batchie").setLevel(logging.ERROR)


# --------------------------------------------------------------------------- building real screens


def build_screen(plates, observed=None, partial=None):
    """plates: list of lists of sample indices (one entry per row of the plate); returns a real Screen.
    partial[i] = r > 0: the first r rows of plate i are observed although the plate as a whole is not (r < number of rows)"""
    from batchie.data import Screen

    sample_names, plate_names, mask, part = [], [], [], []
    for i, rows in enumerate(plates):
        for j, s in enumerate(rows):
            sample_names.append("s%03d" % s)
            plate_names.append("p%03d" % i)
            mask.append(bool(observed[i]) if observed else False)
            part.append(bool(partial and j < partial[i]))
    n = len(sample_names)
    scr = _new_screen(Screen, n, mask, sample_names, plate_names)
    if any(part):
        # Screen.__init__ (and load_h5 through it) refuses a plate with a mixture of observed and unobserved rows; such a screen
        # exists only in memory, after set_observed on part of a plate
        scr.set_observed(np.array(part, dtype=bool), np.full(sum(part), 0.5))
    return scr


def _new_screen(Screen, n, mask, sample_names, plate_names):
    return Screen(
        observations=np.zeros(n, dtype=float),
        observation_mask=np.array(mask, dtype=bool),
        sample_names=np.array(sample_names, dtype=str),
        plate_names=np.array(plate_names, dtype=str),
        treatment_names=np.array([["a", "b"]] * n, dtype=str).reshape(n, 2),
        treatment_doses=np.array([[1.0, 2.0]] * n, dtype=float).reshape(n, 2),
    )


def wire_plate(p):
    return [int(p.plate_id), [int(x) for x in p.sample_ids.tolist()]]


def make_policy(k):
    from batchie.policies.k_per_sample import KPerSamplePlatePolicy

    return KPerSamplePlatePolicy(k=k)


# --------------------------------------------------------------------------- the property's own predicate


def check_state(k, batch, remaining, eligible_ids):
    """batch, remaining: lists of (plate id, sample id); eligible_ids: list of ids the implementation allowed.
    Returns None or the clause of the property that fails in this state."""
    rem_ids = [i for i, _ in remaining]
    samp = dict(batch + remaining)
    it = iter(rem_ids)
    if not all(any(e == r for r in it) for e in eligible_ids):
        return "allowed plates %r are not a sub-list of the unobserved plates not in the batch %r" % (eligible_ids, rem_ids)
    cnt = {}
    for _, s in batch:
        cnt[s] = cnt.get(s, 0) + 1
    rcnt = {}
    for _, s in remaining:
        rcnt[s] = rcnt.get(s, 0) + 1
    inprog = [s for s, v in cnt.items() if 1 <= v <= k - 1]
    incomplete = [s for s, v in cnt.items() if v % k != 0]
    if len(incomplete) > 1:
        return "batch prefix %r has more than one incomplete sample: %r" % (batch, incomplete)
    if any(v > k for v in cnt.values()):
        return "a sample has more than k plates in the batch: %r" % (cnt,)
    if inprog:
        s = inprog[0]
        if any(samp[e] != s for e in eligible_ids):
            return "sample %r is in progress (%d of %d) but plates of other samples are allowed: %r" % (s, cnt[s], k, eligible_ids)
        if not eligible_ids:
            return "sample %r is in progress (%d of %d) but no plate is allowed" % (s, cnt[s], k)
    for e in eligible_ids:
        s = samp[e]
        if cnt.get(s, 0) == 0 and rcnt.get(s, 0) < k:
            return "plate %r opens sample %r of which only %d < k plates remain" % (e, s, rcnt.get(s, 0))
    if len(batch) % k == 0 and any(v not in (0, k) for v in cnt.values()):
        return "batch of %d = m*k plates has a sample with a count other than 0 or k: %r" % (len(batch), cnt)
    return None


# --------------------------------------------------------------------------- generators


def _plates(rng, single=True):
    n_samples = rng.choice([1, 2, 2, 3, 3, 4, 5])
    per = [rng.choice([0, 1, 1, 2, 2, 3, 3, 4, 5, 6]) for _ in range(n_samples)]
    pl = []
    for s, c in enumerate(per):
        for _ in range(c):
            pl.append([s] * rng.choice([1, 1, 2, 3]))
    rng.shuffle(pl)
    return pl[:14]


def gen(rng, tier):
    n_hist = 600 if tier == "quick" else 8000
    for i in range(n_hist):
        k = rng.choice([1, 2, 2, 3, 3, 4])
        pl = _plates(rng)
        choices = [rng.randrange(1 << 16) for _ in range(len(pl) + 1)]
        stop = rng.choice([len(pl) + 1, len(pl) + 1, rng.randint(0, len(pl))])
        if i % 2 == 0:
            observed = [rng.random() < 0.15 for _ in pl]
            yield dict(kind="direct", k=k, plates=pl, observed=observed, choices=choices[:stop])
        else:
            observed = [rng.random() < 0.2 for _ in pl]
            yield dict(kind="select", k=k, plates=pl, observed=observed, choices=choices[:stop], sseed=rng.randrange(1 << 30))
            if len(pl) % 3 == 0:
                yield dict(kind="select", k=k, plates=pl, observed=observed, choices=choices[:stop], sseed=rng.randrange(1 << 30), extreme=True)
            # the screen evolves within the batch: the chosen plate is revealed before the next call (always = the retrospective
            # pipeline; or at random steps); some plates arrive half observed
            if i % 40 == 3:
                yield dict(kind="select", k=k, plates=pl, observed=observed, choices=choices[:stop], sseed=rng.randrange(1 << 30), noscore=True)
            if i % 4 == 1:
                how = rng.choice(["all", "all", "random"])
                flags = [True if how == "all" else rng.random() < 0.5 for _ in choices[:stop]]
                partial = [rng.randint(1, len(rows) - 1) if (len(rows) > 1 and not o and rng.random() < 0.4) else 0 for rows, o in zip(pl, observed)]
                yield dict(kind="select", k=k, plates=pl, observed=observed, choices=choices[:stop], sseed=rng.randrange(1 << 30), reveal=flags,
                           partial=partial if any(partial) else None)
    for i in range(24 if tier == "quick" else 400):
        k = rng.choice([1, 2, 2, 3, 3, 4])
        pl = _plates(rng)[:8]
        choices = [rng.randrange(1 << 16) for _ in range(len(pl) + 1)]
        yield dict(kind="select-cli", k=k, plates=pl, observed=[rng.random() < 0.2 for _ in pl], choices=choices[:rng.choice([len(pl) + 1, rng.randint(0, len(pl))])],
                   sseed=rng.randrange(1 << 30), reveal=rng.choice([True, True, False]), split=rng.choice([1, 1, 2]))
    for _ in range(300 if tier == "quick" else 4000):
        k = rng.choice([1, 2, 2, 3, 3, 4])
        pl = _plates(rng)
        multi = rng.random() < 0.3
        if multi and pl:
            j = rng.randrange(len(pl))
            pl[j] = pl[j] + [max(max(p) for p in pl) + rng.choice([0, 1, 1])] + ([pl[j][0]] if rng.random() < 0.5 else [])
        where = [rng.choice([0, 0, 1, 1, 1, 2]) for _ in pl]  # 0 batch, 1 remaining, 2 neither
        order = list(range(len(pl)))
        rng.shuffle(order)
        yield dict(kind="state", k=k, plates=pl, where=where, order=order)


# --------------------------------------------------------------------------- running


def _hist_features(k, plates, kind, states, stopped_early):
    per = {}
    for rows in plates:
        per[rows[0]] = per.get(rows[0], 0) + 1
    f = [kind, "k=%d" % k]
    if not plates:
        f.append("trivial")
    if any(v < k for v in per.values()):
        f.append("insufficient-sample")
    if any(v > k for v in per.values()):
        f.append("more-than-k-available")
    if stopped_early:
        f.append("no-eligible-before-exhaustion")
    if any(inprog for inprog in states):
        f.append("sample-in-progress")
    return f


def run(desc):
    from batchie.scoring.main import ChunkedScoresHolder, select_next_plate

    kind = desc["kind"]
    k = desc["k"]
    rng_stub = np.random.default_rng(0)

    if kind == "state":
        pl = desc["plates"]
        if not pl:
            return dict(wire=[0, k, [], []], impl=impl_call(lambda: [int(p.plate_id) for p in make_policy(k).filter_eligible_plates([], [], rng_stub)]),
                        pred=None, features=["state", "trivial"], cmp=cmp_result())
        screen = build_screen(pl)
        plates = screen.plates
        batch = [plates[i] for i in desc["order"] if desc["where"][i] == 0]
        rem = [plates[i] for i in desc["order"] if desc["where"][i] == 1]
        out = impl_call(lambda: [int(p.plate_id) for p in make_policy(k).filter_eligible_plates(batch, rem, rng_stub)])
        multi = any(len(set(p.sample_ids.tolist())) != 1 for p in batch + rem)
        pred = None
        if multi and not (isinstance(out, ImplError) and out.cls == "ValueError"):
            pred = "a plate with more than one sample was not refused"
        if not multi:
            if isinstance(out, ImplError):
                pred = "single-sample plates refused: %r" % (out,)
            else:
                rem_ids = [int(p.plate_id) for p in rem]
                it = iter(rem_ids)
                if not all(any(e == r for r in it) for e in out):
                    pred = "allowed plates are not a sub-list of the remaining plates"
                cnt = {}
                for p in batch:
                    cnt[int(p.sample_ids[0])] = cnt.get(int(p.sample_ids[0]), 0) + 1
                rc = {}
                for p in rem:
                    rc[int(p.sample_ids[0])] = rc.get(int(p.sample_ids[0]), 0) + 1
                sm = {int(p.plate_id): int(p.sample_ids[0]) for p in rem}
                for e in out:
                    if cnt.get(sm[e], 0) == 0 and rc[sm[e]] < k:
                        pred = "plate %d opens a sample with fewer than k remaining plates" % e
        cnts = {}
        for p in batch:
            if len(p.sample_ids):
                cnts[int(p.sample_ids[0])] = cnts.get(int(p.sample_ids[0]), 0) + 1
        feats = ["state", "k=%d" % k] + (["multi-sample"] if multi else []) \
            + (["two-incomplete"] if sum(1 for v in cnts.values() if v < k) >= 2 else []) \
            + (["over-full-sample"] if any(v > k for v in cnts.values()) else []) \
            + (["empty-batch"] if not batch else [])
        return dict(wire=[0, k, [wire_plate(p) for p in batch], [wire_plate(p) for p in rem]], impl=out, pred=pred,
                    features=feats, cmp=cmp_result())

    pl = desc["plates"]
    observed = desc["observed"]
    partial = desc.get("partial")
    if not pl:
        wire = [1, k, [], [], []] if kind == "direct" else [2, k, [], [], []]
        return dict(wire=wire, impl=[[]] if kind == "direct" else [], pred=None, features=[kind, "trivial"], cmp=cmp_result())
    screen = build_screen(pl, observed, partial)
    plates = screen.plates
    policy = make_policy(k)
    info = {int(p.plate_id): int(p.sample_ids[0]) for p in plates}
    choices = desc["choices"]
    pred = None
    inprog_flags = []

    if kind == "direct":
        remaining = [p for p in plates if not p.is_observed]
        batch = []
        wire_b, wire_r = [], [wire_plate(p) for p in remaining]
        out, picks = [], []
        stopped_early = False
        step = 0
        while True:
            el = policy.filter_eligible_plates(list(batch), list(remaining), rng_stub)
            ids = [int(p.plate_id) for p in el]
            out.append(ids)
            b = [(int(p.plate_id), info[int(p.plate_id)]) for p in batch]
            r = [(int(p.plate_id), info[int(p.plate_id)]) for p in remaining]
            pred = pred or check_state(k, b, r, ids)
            cn = {}
            for _, s in b:
                cn[s] = cn.get(s, 0) + 1
            inprog_flags.append(any(1 <= v < k for v in cn.values()))
            if not ids:
                stopped_early = bool(remaining)
                break
            if step >= len(choices):
                break
            pick = el[choices[step] % len(el)]
            step += 1
            picks.append(int(pick.plate_id))
            batch.append(pick)
            remaining = [p for p in remaining if int(p.plate_id) != int(pick.plate_id)]
        feats = _hist_features(k, [pl[i] for i in range(len(pl)) if not observed[i]], "direct", inprog_flags, stopped_early)
        if any(observed):
            feats.append("observed-present")
        return dict(wire=[1, k, wire_b, wire_r, picks], impl=out, pred=pred, features=feats, cmp=cmp_result())

    # kind == "select" / "select-cli": through the real select_next_plate (called directly, or by the command select_next_plate
    # with --policy KPerSamplePlatePolicy --policy-param k=<k> --batch-plate-id ...)
    from batchie.policies.k_per_sample import KPerSamplePlatePolicy

    cli = kind == "select-cli"
    seen_box = {}

    class Recording(KPerSamplePlatePolicy):
        def filter_eligible_plates(self, batch_plates, unobserved_plates, rng):
            self.seen = ([int(p.plate_id) for p in batch_plates], [int(p.plate_id) for p in unobserved_plates])
            res = super().filter_eligible_plates(batch_plates=batch_plates, unobserved_plates=unobserved_plates, rng=rng)
            self.result = [int(p.plate_id) for p in res]
            seen_box["policy"] = self
            return res

    rec = Recording(k=k)
    srng = random.Random(desc["sseed"])
    batch_ids = []
    out, tables = [], []
    stopped_early = False
    all_ids = [int(p.plate_id) for p in plates]
    # "unobserved plates" of the statement, decided by the harness from what it built: a plate is unobserved while at least one
    # of its rows is (Plate.is_observed = all rows observed); fixed when the batch starts - the plates revealed on the way are in the batch
    unobs_ids = [int(plates[i].plate_id) for i in range(len(pl)) if not observed[i]]
    if [int(p.plate_id) for p in plates if not p.is_observed] != unobs_ids:
        pred = "Plate.is_observed disagrees with 'every row of the plate is observed' on a freshly built screen"
    wire_screen = [[wire_plate(plates[i]), bool(observed[i])] for i in range(len(pl))]
    reveal = desc.get("reveal")
    flags = (list(reveal) if isinstance(reveal, list) else [bool(reveal)] * len(choices))
    flags = (flags + [False] * (len(choices) + 1))[:len(choices) + 1]
    tmp = None
    if cli:
        import os
        import shutil
        import sys
        import tempfile
        from unittest import mock
        from batchie.cli import select_next_plate as cli_mod
        tmp = tempfile.mkdtemp(dir=common.WORK)
    try:
        for step in range(len(choices) + 1):
            # what the policy would allow here (direct call on the arguments select_next_plate is specified to pass)
            b_pl = [p for p in plates if int(p.plate_id) in batch_ids]
            r_pl = sorted([p for p in plates if int(p.plate_id) in unobs_ids and int(p.plate_id) not in batch_ids], key=lambda p: p.plate_id)
            el = [int(p.plate_id) for p in policy.filter_eligible_plates(b_pl, r_pl, rng_stub)]
            target = el[choices[step] % len(el)] if (el and step < len(choices)) else None
            if el and target is None:
                break
            # scores: every unobserved plate not in the batch gets one (plus sometimes others); the target strictly wins among the eligible
            scored = [i for i in unobs_ids if i not in batch_ids] + [i for i in all_ids if (i in batch_ids or i not in unobs_ids) and srng.random() < 0.3]
            srng.shuffle(scored)
            sc = {i: srng.randint(0, 9) for i in scored}
            if target is not None:
                sc[target] = min(sc[i] for i in el) - srng.choice([1, 1, 2])
                for i in scored:  # ineligible plates may look better than every eligible one
                    if i not in el and srng.random() < 0.4:
                        sc[i] = sc[target] - srng.randint(0, 5)
            if desc.get("extreme"):
                # every allowed plate scores NaN / +inf (a scorer that overflowed), the others stay finite: whatever is returned
                # must still be an allowed plate
                for i in el:
                    sc[i] = srng.choice([float("nan"), float("inf"), float("nan"), 1.7e308])
                target = None
            if desc.get("noscore") and el:
                # no allowed plate has a score (a score chunk left out): outside the statement, the model answers Err 2 (argmin of nothing)
                scored = [i for i in scored if i not in el]
                target = None
            tables.append([[i, sc[i]] for i in scored])
            if not cli:
                holder = ChunkedScoresHolder(size=len(scored))
                for i in scored:
                    holder.add_score(i, float(sc[i]))
                rec.seen = rec.result = None
                if desc.get("noscore"):
                    got = impl_call(lambda: select_next_plate(scores=holder, screen=screen, policy=rec, batch_plate_ids=list(batch_ids), rng=rng_stub))
                    if isinstance(got, ImplError):
                        out = got
                        break
                else:
                    got = select_next_plate(scores=holder, screen=screen, policy=rec, batch_plate_ids=list(batch_ids), rng=rng_stub)
                got_id = None if got is None else int(got.plate_id)
                used = rec
            else:
                # the command: screen and score chunks on disk, the policy named on the command line
                screen.save_h5(os.path.join(tmp, "screen.h5"))
                parts = [scored[j::desc.get("split", 1)] for j in range(desc.get("split", 1))]
                files = []
                for j, part in enumerate(parts):
                    hd_ = ChunkedScoresHolder(size=len(part))
                    for i in part:
                        hd_.add_score(i, float(sc[i]))
                    hd_.save_h5(os.path.join(tmp, "scores%d.h5" % j))
                    files.append(os.path.join(tmp, "scores%d.h5" % j))
                argv = ["select_next_plate", "--data", os.path.join(tmp, "screen.h5"), "--scores"] + files + \
                       ["--policy", "KPerSamplePlatePolicy", "--policy-param", "k=%d" % k, "--output", os.path.join(tmp, "out.txt")]
                if batch_ids:
                    argv += ["--batch-plate-id"] + [str(i) for i in batch_ids]
                seen_box.clear()
                if os.path.exists(os.path.join(tmp, "out.txt")):
                    os.remove(os.path.join(tmp, "out.txt"))
                # the class is found by the command itself from its name; its method is wrapped to see what it is handed
                orig = KPerSamplePlatePolicy.filter_eligible_plates

                def spy(self, batch_plates, unobserved_plates, rng):
                    self.seen = ([int(p.plate_id) for p in batch_plates], [int(p.plate_id) for p in unobserved_plates])
                    res = orig(self, batch_plates=batch_plates, unobserved_plates=unobserved_plates, rng=rng)
                    self.result = [int(p.plate_id) for p in res]
                    seen_box["policy"] = self
                    return res

                with mock.patch.object(sys, "argv", argv), mock.patch("batchie.log_config.configure_logging", lambda *a, **kw: None), \
                        mock.patch.object(KPerSamplePlatePolicy, "filter_eligible_plates", spy):
                    try:
                        cli_mod.main()
                    except (Exception, SystemExit) as e:      # single-sample plates, a declared policy, valid ids: nothing to refuse
                        pred = pred or "the select_next_plate command failed on batch ids %r with k=%d: %s: %s" % (batch_ids, k, type(e).__name__, e)
                        out.append(["raised", type(e).__name__])
                        break
                txt = open(os.path.join(tmp, "out.txt")).read().strip()
                got_id = None if txt == "-1" else int(txt)
                used = seen_box.get("policy")
                if used is None:
                    pred = pred or "the command did not consult the policy named by --policy"
                    break
                if used.k != k or type(used.k) is not int:
                    pred = pred or "--policy-param k=%d built a policy with k = %r" % (k, used.k)
            out.append([used.result, [] if got_id is None else [got_id]])
            b = [(i, info[i]) for i in used.seen[0]]
            r = [(i, info[i]) for i in used.seen[1]]
            want_r = [i for i in unobs_ids if i not in batch_ids]
            if sorted(used.seen[0]) != sorted(batch_ids) or used.seen[1] != want_r:
                pred = pred or "select_next_plate passed batch %r / remaining %r for batch ids %r, unobserved-not-in-batch %r" % (used.seen[0], used.seen[1], batch_ids, want_r)
            pred = pred or check_state(k, b, r, used.result)
            # the clauses again on what the harness itself knows to be the batch and the unobserved plates (not on what was passed)
            pred = pred or check_state(k, [(i, info[i]) for i in batch_ids], [(i, info[i]) for i in want_r], used.result)
            if got_id is not None and got_id not in used.result:
                pred = pred or "select_next_plate returned plate %d which the policy did not allow (%r)" % (got_id, used.result)
            if got_id is None and used.result:
                pred = pred or "select_next_plate returned no plate although %r are allowed" % (used.result,)
            if target is not None and got_id != target:
                pred = pred or "allowed plate %r has the strictly best score among the allowed but %r was returned" % (target, got_id)
            cn = {}
            for _, s in b:
                cn[s] = cn.get(s, 0) + 1
            inprog_flags.append(any(1 <= v < k for v in cn.values()))
            if got_id is None:
                stopped_early = bool(want_r)
                break
            batch_ids.append(got_id)
            if flags[step]:
                # the retrospective pipeline reveals the chosen plate before the next call
                rows = np.asarray(screen.plate_ids == got_id)
                screen.set_observed(rows, np.full(int(rows.sum()), 0.5))
    finally:
        if tmp is not None:
            shutil.rmtree(tmp, ignore_errors=True)
    feats = _hist_features(k, [pl[i] for i in range(len(pl)) if not observed[i]], kind, inprog_flags, stopped_early)
    if any(observed):
        feats.append("observed-present")
    if desc.get("noscore"):
        feats.append("no-allowed-plate-scored")
    if not isinstance(out, ImplError) and any(flags[:max(len(out) - 1, 0)]):
        feats.append("pick-revealed-before-next-call")
    if partial and any(partial):
        feats.append("partially-observed-plate")
    if desc.get("extreme"):      # NaN / inf scores are outside the model's integer scores: implementation-side predicate only
        return dict(wire=None, impl=None, pred=pred, features=feats + ["allowed-plates-score-nan-or-inf"])
    if reveal is None and not cli:
        return dict(wire=[2, k, wire_screen, [], tables], impl=out, pred=pred, features=feats, cmp=cmp_result())
    return dict(wire=[4, k, wire_screen, [], tables, [bool(f) for f in flags[:len(tables)]]], impl=out, pred=pred, features=feats, cmp=cmp_result())


def shrink(desc):
    if desc["kind"] in ("direct", "select", "select-cli"):
        c = desc["choices"]
        if c:
            yield dict(desc, choices=c[:-1])
        for i in range(len(desc["plates"])):
            d2 = dict(desc, plates=desc["plates"][:i] + desc["plates"][i + 1:], observed=desc["observed"][:i] + desc["observed"][i + 1:])
            if desc.get("partial"):
                d2["partial"] = desc["partial"][:i] + desc["partial"][i + 1:]
            yield d2
    if desc["kind"] == "state":
        n = len(desc["plates"])
        for i in range(n):
            o = [j - (1 if j > i else 0) for j in desc["order"] if j != i]
            yield dict(desc, plates=desc["plates"][:i] + desc["plates"][i + 1:], where=desc["where"][:i] + desc["where"][i + 1:], order=o)
