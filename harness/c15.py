"""C15 — combination unranking is a bijection: sampled triples are distinct and complete."""
import itertools
import math
from unittest import mock

import numpy as np

import common
from common import ImplError, cmp_result, impl_call

ID = "C15"
CASE_TIMEOUT_S = 30     # every case is a handful of integer operations; a loop that does not end is a finding
LEVEL = "proof"
RULE = ("kinds: enum (all indices 0..C(n,k)-1 through the real get_combination_at_sorted_index, exhaustive n<=14 "
        "(thorough 18), k<=4, plus k up to 7 for small n); unrank (single index: ends, block boundaries C(m,k)+-1, "
        "second-level boundaries, random; n up to 5000 (thorough 20000), k<=4, a few k<=8; out-of-range / negative "
        "indices, n<k, k<=0 as a malformed stream); succ (index i and i+1: the second tuple must be the immediate "
        "successor of the first); rank (a descending tuple c: Coq's rank/desc_below vs math.comb, and "
        "unrank(rank c) = c on the implementation); use (the real dbal_fast_gauss_scoring_vectorized with a "
        "recording or adversarial stub rng: triples distinct, in range, complete when max_combos >= C(n,3), and the score "
        "is the estimator over exactly the produced triples); scorer_history (ONE GaussianDBALScorer object scoring 2-4 "
        "problems with different numbers of posterior samples, budget covering all triples: each score must be the "
        "estimator over all triples of its own call). "
        "Non-trivial: C(n,k) >= 2 and index in range (enum: C(n,k) >= 2; use: n_thetas >= 3).  "
        "Added after gap review g2: use at production size (n_thetas 400 and 2400, budget 50, one plate x one experiment: C(2400,3) = 2.3e9 > 2^31, "
        "so rng.choice answers with 32-bit-overflowing np.int64 indices that go straight into the unranking; numpy's own answer and the "
        "adversarial 'tail' answer); unrank / succ with n and / or the index handed over as np.int64 (k <= 3, a tenth of the sampled cases).")
THEOREMS = {
    "C15_model_is_source_loops": "round-1 link, kept: the model's three loops equal, iteration by iteration, the loop bodies / conditions py2coq re-reads from generate_combination_at_sorted_index (Generated/SrcArithC15.v); subsumed by the whole-function link below",
    "C15_model_is_source_generate_combination_at_sorted_index_any_n": "the Gallina translation of the WHOLE generator generate_combination_at_sorted_index regenerated from /repo's scoring/gaussian_dbal.py on this run (Generated/SrcUnrank.v: the product loop over zip(range(n, n-k, -1), range(1, k+1)), `for k in range(k, 0, -1)` with the loop variable shadowing the parameter, the `while current_index - n_ck > index` loop on an explicit fuel parameter, every // and % checked = ZeroDivisionError tag 8, `yield n`) equals the model unrank index n (Z.to_nat k) for ALL integers index, n, k and every fuel > n + 1, wherever the model's own fuel is not exhausted",
    "C15_model_is_source_generate_combination_at_sorted_index": "the same with the model-fuel hypothesis discharged by C15_fuel_never_exhausted: for every n >= 0, EVERY index (in range or not), every integer k (k <= 0 yields nothing) and every fuel > n + 1 the translated generator = unrank, including the ZeroDivisionError cases",
    "C15_model_is_source_get_combination_at_sorted_index": "the translated wrapper get_combination_at_sorted_index (tuple(...) of the translated generator) = unrank under the same hypotheses",
    "C15_model_is_source_get_combination_at_sorted_index_no_fuel_hypothesis": "instance at the explicit fuel n + 2: for all n >= 0, all index, all k the translated wrapper IS unrank index n k - no hypothesis about fuel remains on the property's domain",
    "C15_source_unrank_ok_descending_rank": "clauses (a)-(c) stated on the translated source: for n >= 0, 0 <= index < C(n,k), fuel > n + 1 the translated get_combination_at_sorted_index returns Ok c with length k, strictly descending within [0,n), rank c = index",
    "C15_binomial_is_factorial_quotient": "the Pascal-recursion binomial used in all statements satisfies C(n,k) k! (n-k)! = n!",
    "C15_init_is_binomial": "the product loop computes C(n,k) for all n>=0, all k (every // exact)",
    "C15_mod_line_is_noop": "in every reachable loop state the line n_ck -= n_ck % k subtracts 0",
    "C15_unrank_ok_descending_rank": "all n>=0, all k, all 0<=i<C(n,k): no error, length k, strictly descending within [0,n), rank(unrank i) = i",
    "C15_fuel_never_exhausted": "for n>=0 and ANY index the model's loop fuel is never exhausted (the while loop terminates; only ZeroDivisionError can occur)",
    "C15_rank_in_range": "rank of a descending k-tuple below n lies in [0, C(n,k))",
    "C15_rank_strictly_monotone": "rank is strictly monotone w.r.t. tuple (lexicographic) order on descending tuples",
    "C15_rank_injective": "rank is injective on descending tuples of equal length",
    "C15_unrank_rank": "unrank(rank c) = c for every strictly descending c below n (onto the k-subsets)",
    "C15_unrank_ascending": "i < j in range => unrank i < unrank j in tuple order (ascending enumeration)",
    "C15_unrank_injective": "distinct in-range indices give distinct tuples",
    "C15_enumeration_sorted_complete_once": "the list of all C(n,k) unrankings is error-free, sorted, duplicate-free and is exactly the set of descending k-tuples below n",
    "C15_every_subset_exactly_once": "every duplicate-free k-list over {0..n-1} (any order) is a permutation of the output of exactly one index",
    "C15_triples_distinct_complete": "duplicate-free in-range indices give pairwise distinct in-range triples a>b>c; all triples when there are C(n,3) indices",
    "C15_dbal_triples": "use site: for every rng.choice answer obeying numpy's contract the scorer's triples are distinct, in range, min(C(n,3),max_combos) many, and all triples when max_combos >= C(n,3)",
    "C15_dbal_triples_too_few_thetas": "use site: fewer than 3 thetas is refused",
    "C15_comb3_is_binomial": "scipy's comb(n, 3, exact=True) as the translated use site renders it (n(n-1)(n-2)/6, 0 below 3) is the binomial coefficient C(n,3) of all the statements, for every n >= 0",
    "C15_source_dbal_triples": "use site READ ON THE TRANSLATED SOURCE: for n_thetas >= 3, any budget >= 1 and EVERY rng.choice answer obeying numpy's contract, src_kernel_triples (the translation, regenerated on this run, of the run `n_plates, n_thetas, ... = predictions.shape` .. `idx3 = np.array(idx3)` of dbal_fast_gauss_scoring_vectorized) returns without error three index arrays whose rows are min(C(n,3), budget) pairwise distinct triples a > b > c inside range(n_thetas), and ALL such triples when the budget covers C(n,3)",
    "C15_dbal_triples_is_source": "the hand-written twin Binom.dbal_triples (subject of C15_dbal_triples) and the translated run deliver the same triples for the same rng.choice answer",
}
ASSUMPTIONS = [
    "Python int arithmetic is unbounded and // , % are floor division / modulo with the divisor's sign (= Coq Z.div, Z.modulo)",
    "rng.choice(N, size=m, replace=False) returns m distinct values of range(N) (checked on every recorded draw)",
    "scipy.special.comb(n, 3, exact=True) = C(n,3) (checked against math.comb and the model on every use case)",
    "n < 0 is outside the property's quantifier and not exercised (the Python loop may not terminate there)",
    "n handed over as a numpy integer turns `n_ck *= n - k` into int64 arithmetic: exercised (flag n_int64) for k <= 3 and n <= 20000, where no "
    "intermediate product reaches 2^63 (it does for k = 4 beyond n ~ 13000 and for k = 3 beyond n ~ 3.8e6); the only call site passes "
    "predictions.shape[1], a Python int; beyond that regime 'for all n' presumes Python ints (assumption 1).  A numpy int64 INDEX (what "
    "rng.choice returns) only enters a comparison and is exercised at every size",
]
EXPLANATION = ("Model: Model/Unrank.v (the generator, statement by statement, incl. the `n_ck -= n_ck % k` line), "
               "Model/Binom.v (binomial, rank, descending-below, tuple order, the use-site triples). All theorems are "
               "for all n >= 0 and ALL k, no _partial. Abstracted at the use site: everything after the triples are "
               "formed (the score arithmetic belongs to C05); rng.choice enters as a recorded answer. "
               "SOURCE LINK (C15_model_is_source_*): generate_combination_at_sorted_index is re-translated as ONE function by "
               "harness/py2gal.py on every run (configuration C15_GENERATE in harness/src_functions.py, output "
               "Generated/SrcUnrank.v), and so is its wrapper get_combination_at_sorted_index (C15_GET); the theorems prove "
               "the hand-written model Unrank.unrank EQUAL to the translation (k : Z mapped by Z.to_nat) for n >= 0, every "
               "index and k and every fuel > n + 1; C15_fuel_never_exhausted discharges the fuel of the model. The loops, the "
               "shadowing of k, the while test, every arithmetic statement (incl. `n_ck -= n_ck % k`, to which the link IS "
               "sensitive although it subtracts 0 on the domain: without it the translation differs from the model outside "
               "the reachable states and the proof fails), the checked divisions and the yield come from the translation. "
               "TRUSTED by the link: the translator (its rendering of for / while-on-fuel / checked // and % / generator "
               "into Lib/PyRt.v: res_fold, res_while, checked_div, checked_mod; the explicit fuel stands for termination, "
               "Err 97 is not a Python behaviour) and exactly these primitives: range(a, b, -1) = range_down a b "
               "(a, a-1, ..., b+1), range(a, b) = range_up a b (a, ..., b-1), zip(a, b) = List.combine (up to the shorter), "
               "tuple(g) = the list of g's items, and the call generate_combination_at_sorted_index(i, n, k) = the "
               "translated generator on the same fuel. The differential correspondence exercises these on the real code.")

_MAXK_EXH = 4


def _g(index, n, k, n_int64=False, index_int64=False):
    from batchie.scoring.gaussian_dbal import get_combination_at_sorted_index
    return get_combination_at_sorted_index(np.int64(index) if index_int64 else index, np.int64(n) if n_int64 else n, k)


def _np_flags(desc):
    return dict(n_int64=bool(desc.get("n_int64")), index_int64=bool(desc.get("index_int64")))


def py_rank(c):
    k = len(c)
    return sum(math.comb(x, k - j) for j, x in enumerate(c))


def is_desc_below(n, c):
    prev = n
    for x in c:
        if not (0 <= x < prev):
            return False
        prev = x
    return True


def successor(n, c):
    """next k-subset of range(n) as a descending tuple in ascending tuple order, or None"""
    c = list(c)
    k = len(c)
    for j in range(k - 1, -1, -1):
        bound = c[j - 1] if j > 0 else n
        if c[j] + 1 < bound:
            c[j] += 1
            for t in range(j + 1, k):
                c[t] = k - 1 - t
            return tuple(c)
    return None


def pred_single(index, n, k, out):
    """the property's predicate on one in-range output"""
    if isinstance(out, ImplError):
        return "in-range index %d of C(%d,%d) raised %r" % (index, n, k, out)
    t = tuple(int(x) for x in out)
    if len(t) != k:
        return "tuple %r has length != k=%d" % (t, k)
    if not is_desc_below(n, t):
        return "tuple %r for index %d is not strictly descending within [0,%d)" % (t, index, n)
    if py_rank(t) != index:
        return "rank(unrank(%d)) = %d for n=%d k=%d, tuple %r" % (index, py_rank(t), n, k, t)
    return None


def _canon_out(out):
    return out if isinstance(out, ImplError) else [int(x) for x in out]


def _indices_of_interest(rng, n, k, count):
    """ends, block boundaries C(m,k)+-1, second-level boundaries, random"""
    C = math.comb(n, k)
    cand = {0, 1, 2, C - 1, C - 2, C // 2}
    for _ in range(count):
        m = rng.randint(k, max(k, n))
        b = math.comb(m, k)
        cand.update([b - 1, b, b + 1])
        if k >= 2:
            m2 = rng.randint(k - 1, max(k - 1, m))
            b2 = b + math.comb(m2, k - 1)
            cand.update([b2 - 1, b2, b2 + 1])
            if k >= 3:
                m3 = rng.randint(k - 2, max(k - 2, m2))
                b3 = b2 + math.comb(m3, k - 2)
                cand.update([b3 - 1, b3, b3 + 1])
        cand.add(rng.randrange(max(C, 1)))
    return sorted(i for i in cand if 0 <= i < C)


def gen(rng, tier):
    quick = tier == "quick"
    # exhaustive enumeration, small n
    nmax = 14 if quick else 18
    for n in range(0, nmax + 1):
        for k in range(0, _MAXK_EXH + 1):
            yield dict(kind="enum", n=n, k=k)
    for n in range(0, 10 if quick else 13):
        for k in range(5, 8):
            yield dict(kind="enum", n=n, k=k)
    # exhaustive at moderate n (k = 3 is the scorer's case)
    for n, k in ([(25, 3), (40, 3), (30, 2), (20, 4)] if quick else [(25, 3), (40, 3), (64, 3), (100, 3), (30, 2), (200, 2), (20, 4), (40, 4)]):
        yield dict(kind="enum", n=n, k=k)
    # out of range / negative / n < k / k <= 0 around every small (n, k)
    for n in range(0, 15):
        for k in range(0, _MAXK_EXH + 1):
            C = math.comb(n, k)
            for idx in (-2, -1, C, C + 1, C + 7):
                yield dict(kind="unrank", index=idx, n=n, k=k)
    for _ in range(20 if quick else 100):
        n = rng.randint(0, 400)
        k = rng.choice([-3, -1, 0, 0, 1, 2, 3, 4, n + 1, n + 2])
        C = math.comb(n, k) if k >= 0 else 1
        yield dict(kind="unrank", index=rng.choice([-5, -1, 0, C, C + 1, 2 * C + 3, rng.randint(-10 ** 12, 10 ** 12)]), n=n, k=k)
    # sampled, production sizes
    big = 5000 if quick else 20000
    sizes = [15, 16, 17, 31, 32, 33, 63, 64, 65, 100, 127, 128, 129, 200, 255, 256, 257, 500, 1000, 1023, 1024, 1025,
             2000, 2047, 2048, 2049, 3000, 4095, 4096, 4097, 5000]
    if not quick:
        sizes += [7000, 8191, 8192, 8193, 10000, 16383, 16384, 16385, 20000]
    for n in sizes + [rng.randint(15, big) for _ in range(10 if quick else 60)]:
        for k in ([3, 3, 1, 2, 4] if quick else [3, 3, 3, 1, 2, 4, 4]):
            idxs = _indices_of_interest(rng, n, k, 2 if quick else 5)
            rng.shuffle(idxs)
            for idx in idxs[: (6 if quick else 14)]:
                d_ = dict(kind="unrank", index=idx, n=n, k=k)
                if k <= 3 and rng.random() < 0.1:       # numpy integers instead of Python ints (gap G15.3)
                    d_.update(rng.choice([dict(n_int64=True), dict(index_int64=True), dict(n_int64=True, index_int64=True)]))
                yield d_
            for idx in idxs[(6 if quick else 14): (9 if quick else 22)]:
                if idx + 1 < math.comb(n, k):
                    d_ = dict(kind="succ", index=idx, n=n, k=k)
                    if k <= 3 and rng.random() < 0.1:
                        d_.update(rng.choice([dict(n_int64=True), dict(index_int64=True), dict(n_int64=True, index_int64=True)]))
                    yield d_
    for _ in range(30 if quick else 300):  # larger k, moderate n
        n = rng.randint(5, 200)
        k = rng.randint(5, 8)
        for idx in _indices_of_interest(rng, n, k, 1)[:4]:
            yield dict(kind=rng.choice(["unrank", "succ"]), index=idx, n=n, k=k)
    # last index of each (n, k): succ across the end of the range
    for n, k in [(5, 2), (6, 3), (14, 4), (100, 3), (5000, 3)]:
        yield dict(kind="succ", index=math.comb(n, k) - 1, n=n, k=k)
    # rank / desc_below of the specification vs math.comb, and unrank(rank c) = c
    for _ in range(150 if quick else 1500):
        n = rng.randint(1, 26)
        k = rng.randint(0, min(5, n))
        mode = rng.random()
        if mode < 0.8:
            c = sorted(rng.sample(range(n), k), reverse=True)
        elif mode < 0.9:
            c = [rng.randrange(n) for _ in range(k)]  # maybe not descending
        else:
            c = sorted(rng.sample(range(n + 3), k), reverse=True)  # maybe out of range
        yield dict(kind="rank", n=n, c=c)
    # the use site through the scorer class: one object, several calls
    for _ in range(30 if quick else 200):
        Ts = [rng.randint(3, 9) for _ in range(rng.randint(2, 4))]
        yield dict(kind="scorer_history", Ts=Ts, budget=rng.choice([math.comb(max(Ts), 3), 5000]), max_chunk=rng.randint(1, 3), seed=rng.randrange(2 ** 31))
    # the use site
    for _ in range(40 if quick else 300):
        n = rng.choice([0, 1, 2, 3, 3, 4, 5, 6, 7, 8, 10, 12, 15, 20, 25, 30, rng.randint(3, 45)])
        C = math.comb(n, 3)
        mc = rng.choice([1, 2, 5000, max(1, C - 1), max(1, C), C + 1, rng.randint(1, max(2, 2 * C))])
        yield dict(kind="use", n=n, max_combos=mc, seed=rng.randrange(2 ** 31),
                   stub=rng.choice(["numpy", "numpy", "reversed", "sorted", "tail"]))
    # the junction at production size (gap G15.2): hundreds / thousands of posterior samples, C(n,3) up to 2.3e9 > 2^31 (numpy switches
    # its sampling algorithm and answers with np.int64 that do not fit 32 bits), a small budget, one plate x one experiment
    for n, stub in ([(400, "numpy"), (2400, "numpy"), (2400, "tail")] if quick else
                    [(400, "numpy"), (400, "reversed"), (1000, "numpy"), (2344, "tail"), (2345, "tail"), (2400, "numpy"), (2400, "numpy"),
                     (2400, "tail"), (2400, "reversed"), (3000, "numpy")]):
        yield dict(kind="use", n=n, max_combos=rng.choice([50, 50, 64]), seed=rng.randrange(2 ** 31), stub=stub, n_plates=1, n_exp=1)


def _run_scorer_history(desc):
    """ONE GaussianDBALScorer object scores a sequence of problems with different numbers of posterior samples, the budget
    covering all triples each time: every score must be the estimator over ALL C(T,3) triples of ITS call (harness/c05.py's
    direct_loop) - triples remembered from an earlier call are neither complete nor, when T shrinks, in range"""
    import random as _random
    import c05
    from batchie.scoring.gaussian_dbal import GaussianDBALScorer

    g = _random.Random(desc["seed"])
    sc = GaussianDBALScorer(max_chunk=desc["max_chunk"], max_triples=desc["budget"])
    pred = None
    feats = ["scorer_history", "calls:%d" % len(desc["Ts"])] + (["shrinking-T"] if any(b < a for a, b in zip(desc["Ts"], desc["Ts"][1:])) else [])
    for step, T in enumerate(desc["Ts"]):
        plates = c05._plates(g, T, g.randint(1, 3), 1, False)
        D = c05._matrix(g, T, True)
        r = impl_call(c05._scorer, plates, list(range(len(plates))), D, T, desc["max_chunk"], desc["budget"], g.randrange(2 ** 31), scorer=sc)
        if isinstance(r, ImplError):
            pred = "call %d (T=%d) on the reused scorer raised %r" % (step, T, r)
            break
        items, rr, keyof = r
        triples = [tuple(sorted(t, reverse=True)) for t in itertools.combinations(range(T), 3)]
        for k, s_ in items:
            p = plates[keyof.index(k)]
            ref = c05.direct_loop(p["mu"], p["var"], D, 1.0, triples)
            if isinstance(s_, str) or not c05._same(s_, ref):
                pred = "call %d on one scorer object (T=%d after %r): plate scores %r, the estimator over all %d triples gives %r" % (
                    step, T, desc["Ts"][:step], s_, len(triples), ref)
                break
        if pred:
            break
    return dict(wire=None, impl=None, pred=pred, features=feats)


class _RecRng:
    """records Generator.choice calls; optionally answers adversarially (any contract-obeying answer is allowed)"""

    def __init__(self, seed, stub):
        self.g = np.random.default_rng(seed)
        self.stub = stub
        self.calls = []

    def choice(self, a, size=None, replace=True, **kw):
        if self.stub == "numpy":
            r = self.g.choice(a, size=size, replace=replace, **kw)
        elif self.stub == "reversed":
            r = np.arange(a - 1, a - 1 - size, -1, dtype=np.int64)
        elif self.stub == "sorted":
            r = np.arange(0, size, dtype=np.int64)
        else:  # tail: the last `size` indices in a shuffled order
            r = np.arange(a - size, a, dtype=np.int64)
            self.g.shuffle(r)
        self.calls.append(dict(a=int(a), size=int(size), replace=bool(replace), result=[int(x) for x in r]))
        return r


def _run_use(desc):
    import batchie.scoring.gaussian_dbal as gd

    n, mc = desc["n"], desc["max_combos"]
    rec = _RecRng(desc["seed"], desc["stub"])
    data_rng = np.random.default_rng(desc["seed"] ^ 0x5A5A)
    n_plates, n_exp = desc.get("n_plates", 2), desc.get("n_exp", 2)
    preds = data_rng.normal(size=(n_plates, n, n_exp))
    var = data_rng.uniform(0.5, 2.0, size=(n_plates, n, n_exp))
    dm = data_rng.uniform(0.1, 1.0, size=(n, n))
    dm = dm + dm.T
    seen = []
    real = gd.get_combination_at_sorted_index

    def spy(index, nn, k):
        out = real(index, nn, k)
        seen.append((int(index), int(nn), int(k), tuple(int(x) for x in out)))
        return out

    with mock.patch.object(gd, "get_combination_at_sorted_index", spy):
        out = impl_call(gd.dbal_fast_gauss_scoring_vectorized, predictions=preds, variances=var,
                        distance_matrix=dm, rng=rec, max_combos=mc)
    C = math.comb(n, 3)
    feats = ["use", "stub:" + desc["stub"]]
    pred = None
    if n < 3:
        feats.append("trivial")
        if not (isinstance(out, ImplError) and out.cls == "ValueError"):
            pred = "fewer than 3 thetas not refused: %r" % (out,)
        return dict(wire=[2, n, mc, []], impl=out if isinstance(out, ImplError) else ImplError(RuntimeError("no error raised")),
                    pred=pred, features=feats, cmp=cmp_result())
    if isinstance(out, ImplError):
        return dict(wire=[2, n, mc, []], impl=out, pred="scoring raised %r" % (out,), features=feats, cmp=cmp_result())
    if len(rec.calls) != 1:
        return dict(wire=[2, n, mc, []], impl=ImplError(RuntimeError("choice called %d times" % len(rec.calls))),
                    pred="rng.choice called %d times" % len(rec.calls), features=feats, cmp=cmp_result())
    call = rec.calls[0]
    draw = call["result"]
    triples = [list(t[3]) for t in seen]
    feats.append("budget>=C" if mc >= C else "budget<C")
    # numpy contract of the recorded draw (validates the hypothesis choice_contract)
    if call["replace"] or len(set(draw)) != len(draw) or len(draw) != call["size"] or any(not (0 <= i < call["a"]) for i in draw):
        pred = "recorded rng.choice answer violates the replace=False contract"
    elif [t[0] for t in seen] != draw or any(t[1] != n or t[2] != 3 for t in seen):
        pred = "unranking was not applied to exactly the drawn indices with (n_thetas, 3)"
    elif call["a"] != C or call["size"] != min(C, mc):
        pred = "choice called with (%d, %d), expected (C(n,3)=%d, min(C, max_combos)=%d)" % (call["a"], call["size"], C, min(C, mc))
    elif len(set(map(tuple, triples))) != len(triples):
        pred = "sampled triples are not pairwise distinct"
    elif any(len(t) != 3 or not is_desc_below(n, t) for t in triples):
        pred = "a sampled triple is not strictly descending within [0, n_thetas)"
    elif mc >= C and set(map(tuple, triples)) != set(tuple(sorted(s, reverse=True)) for s in itertools.combinations(range(n), 3)):
        pred = "budget covers all C(n,3) triples but not all triples were produced"
    elif not np.all(np.isfinite(out)):
        pred = None  # the score arithmetic is C05's subject
    else:
        # "the triples ... USED FOR SCORING": the returned score must be the estimator summed over exactly the triples that
        # were produced (harness/c05.py's direct_loop, written from the formula) - a produced triple that never reaches the
        # sum, or one that is counted twice, shows here
        import c05
        for p_i in range(n_plates):
            ref = c05.direct_loop(preds[p_i].tolist(), var[p_i].tolist(), dm if n > 200 else dm.tolist(), 1.0, [tuple(t) for t in triples])
            got = float(np.asarray(out).reshape(-1)[p_i])
            if ref is None or abs(got - ref) > 1e-8 * max(1.0, abs(ref)):
                pred = "plate %d scores %r; the estimator over the %d produced triples gives %r: not every produced triple is used exactly once" % (
                    p_i, got, len(triples), ref)
                break
        if C > 500:
            feats.append("more-than-500-triples")
    if C >= 2 ** 31:
        feats.append("C(n,3)>=2^31")
        if any(i >= 2 ** 31 for i in draw):
            feats.append("drawn-index>=2^31")
    elif n >= 400:
        feats.append("n>=400")
    return dict(wire=[2, n, mc, draw], impl=[call["a"], call["size"], triples], pred=pred, features=feats, cmp=cmp_result())


def _cmp_list_of_results(m, i):
    if isinstance(m, str):
        return "model driver failure: " + m
    if not isinstance(m, list) or len(m) != len(i):
        return "model enumerates %s items, implementation %d" % (len(m) if isinstance(m, list) else "?", len(i))
    f = cmp_result()
    for pos, (a, b) in enumerate(zip(m, i)):
        d = f(a, b)
        if d:
            return "at index %d: %s" % (pos, d)
    return None


def run(desc):
    kind = desc["kind"]
    if kind == "enum":
        n, k = desc["n"], desc["k"]
        C = math.comb(n, k)
        outs = [_canon_out(impl_call(_g, i, n, k)) for i in range(C)]
        expect = sorted(tuple(sorted(s, reverse=True)) for s in itertools.combinations(range(n), k))
        pred = None
        got = [None if isinstance(o, ImplError) else tuple(o) for o in outs]
        if got != expect:
            bad = next((i for i, (a, b) in enumerate(zip(got, expect)) if a != b), None)
            pred = "enumeration of C(%d,%d) differs from the sorted descending k-subsets first at index %r: got %r, expected %r" % (
                n, k, bad, got[bad] if bad is not None else None, expect[bad] if bad is not None else None)
        else:
            for i, o in enumerate(outs):
                pred = pred or pred_single(i, n, k, o)
        feats = ["enum", "k=%d" % k] + (["trivial"] if C < 2 else []) + (["k>4"] if k > 4 else [])
        return dict(wire=[1, n, k], impl=outs, pred=pred, features=feats, cmp=_cmp_list_of_results)
    if kind == "unrank":
        index, n, k = desc["index"], desc["n"], desc["k"]
        out = _canon_out(impl_call(_g, index, n, k, **_np_flags(desc)))
        C = math.comb(n, k) if k >= 0 else 0
        in_range = k >= 0 and 0 <= index < C
        pred = pred_single(index, n, k, out) if in_range else None
        feats = ["unrank"] + [f for f in ("n_int64", "index_int64") if desc.get(f)]
        if in_range:
            feats += ["k=%d" % k if k <= 4 else "k>4", "n>1000" if n > 1000 else ("n>14" if n > 14 else "n<=14")]
            if C < 2:
                feats.append("trivial")
            if not isinstance(out, ImplError) and k >= 1 and out and \
               (index - math.comb(out[0], k) <= 1 or math.comb(out[0] + 1, k) - index == 1):
                feats.append("block-boundary")
        else:
            feats += ["malformed", "trivial",
                      "negative-index" if index < 0 else ("k<=0" if k <= 0 else ("n<k" if n < k else "index>=C"))]
            if isinstance(out, ImplError):
                feats.append("raises:" + out.cls)
        return dict(wire=[0, index, n, k], impl=out, pred=pred, features=feats, cmp=cmp_result())
    if kind == "succ":
        index, n, k = desc["index"], desc["n"], desc["k"]
        C = math.comb(n, k)
        a = _canon_out(impl_call(_g, index, n, k, **_np_flags(desc)))
        b = _canon_out(impl_call(_g, index + 1, n, k, **_np_flags(desc)))
        pred = pred_single(index, n, k, a) if 0 <= index < C else None
        feats = ["succ", "k=%d" % k if k <= 4 else "k>4"] + [f for f in ("n_int64", "index_int64") if desc.get(f)]
        if 0 <= index and index + 1 < C:
            pred = pred or pred_single(index + 1, n, k, b)
            if pred is None:
                if not tuple(a) < tuple(b):
                    pred = "tuples not ascending between index %d and %d: %r, %r" % (index, index + 1, a, b)
                elif successor(n, a) != tuple(b):
                    pred = "index %d -> %r but index %d -> %r is not its immediate successor %r" % (index, a, index + 1, b, successor(n, a))
            if k >= 1 and not isinstance(a, ImplError) and not isinstance(b, ImplError) and a and b and a[0] != b[0]:
                feats.append("carry-into-first")
        else:
            feats.append("end-of-range")
            if index == C - 1 and not isinstance(a, ImplError) and successor(n, a) is not None:
                pred = pred or "last index does not give the last tuple"
        return dict(wire=[4, index, n, k], impl=[a, b], pred=pred, features=feats, cmp=_cmp_list_of_results)
    if kind == "rank":
        n, c = desc["n"], desc["c"]
        k = len(c)
        ok = is_desc_below(n, c)
        r = py_rank(c)
        pred = None
        feats = ["rank", "k=%d" % k]
        if ok:
            if not (0 <= r < math.comb(n, k)):
                pred = "harness rank out of range (harness bug)"
            else:
                back = _canon_out(impl_call(_g, r, n, k))
                if back != list(c):
                    pred = "unrank(rank(%r)) = %r for n=%d" % (c, back, n)
            if k == 0:
                feats.append("trivial")
        else:
            feats += ["not-descending-below", "trivial"]
        return dict(wire=[3, n, c], impl=[r, 1 if ok else 0], pred=pred, features=feats)
    if kind == "scorer_history":
        return _run_scorer_history(desc)
    if kind == "use":
        return _run_use(desc)
    raise ValueError(kind)


def shrink(desc):
    k = desc["kind"]
    if k in ("unrank", "succ") and desc["k"] >= 0:
        n, kk, idx = desc["n"], desc["k"], desc["index"]
        if n > 0:
            C1 = math.comb(n - 1, kk)
            yield dict(desc, n=n - 1, index=min(idx, max(C1 - 2, 0)))
            yield dict(desc, n=n // 2, index=min(idx, max(math.comb(n // 2, kk) - 2, 0)))
        if idx > 0:
            yield dict(desc, index=idx // 2)
            yield dict(desc, index=idx - 1)
    if k == "enum":
        if desc["n"] > 0:
            yield dict(desc, n=desc["n"] - 1)
        if desc["k"] > 0:
            yield dict(desc, k=desc["k"] - 1)
    if k == "use":
        if desc["n"] > 3:
            yield dict(desc, n=desc["n"] - 1)
        if desc["max_combos"] > 1:
            yield dict(desc, max_combos=desc["max_combos"] // 2)


def signature(desc, res):
    return "%s:%s" % (desc.get("kind"), (res.get("pred") or res.get("disagree") or "")[:40])
