"""C03 — identifiers stay stable through the whole simulation lifecycle."""
import os
import re
import shutil

import numpy as np

import common
import screenlib as sl
import simlib
from common import ImplError

import logging

logging.getLogger("batchie").setLevel(logging.ERROR)

ID = "C03"
LEVEL = "proof"
RULE = ("kind sim: a parent screen (1-5 plates, most unobserved, arity 1-3, names incl. '' / non-ASCII / the control name, "
        "samples and (treatment, dose) pairs confined to one plate so that they can occur only in held-out rows; 20% of the "
        "parents carry a superset mapping) is split by the REAL create_plate_balanced_holdout_set_among_masked_plates "
        "(fractions 0 .. 1, recorded rng.choice results give the selection vector); a random history (length <= 6) of "
        "reveal (any order, repeated / already observed / unknown / negative ids, empty id list) / mask / unmask / "
        "save+load through h5py / the reveal_plate CLI main() runs on the training or the test half; after EVERY "
        "operation rows, treatment_ids, sample_ids, plate_ids, the three mappings and the ExperimentSpace sizes are "
        "compared with the extracted model.  The model variant (which of reveal/mask/unmask pass the mappings on) is "
        "detected from the behaviour of the real functions on a probe.  kind prepare (implementation-only predicate): the "
        "prepare_retrospective_simulation CLI main() runs in-process on a saved fully observed screen with random generator / "
        "smoother / initial-plate options and hold-out fraction (a quarter of the source screens with a few NaN wells); the training and test screens it writes, and the training "
        "screen after a reveal, must give one id to one sample name and to one (treatment, dose), and the training mappings "
        "must know every condition of the test screen; the latest stage with an observed row is saved and handed to "
        "train_model.main() in-process, stopped when the model receives its observations: every sample / (treatment, dose) it "
        "is given must carry the id the loaded screen's mapping gives it (train_stage).  Non-trivial: >= 1 operation and >= 2 parent "
        "rows; distinct by canonical description.")
THEOREMS = {
    "C03_split_keeps_mappings": "both halves of any hold-out split carry the parent's treatment and sample mapping verbatim and number their rows by them (true of today's code)",
    "C03_parent_ids_are_its_mapping": "a constructed screen's own ids are its mapping's entries for its rows' names / (name, dose)",
    "C03_ids_frozen": "REPAIRED construction (reveal/mask/unmask pass the mappings on): after any history on either half the mappings are the "
                      "parent's and every row's sample id / treatment ids are the parent's ids of the same name / (name, dose)",
    "C03_ids_frozen_per_op": "any variant: a history using only operations whose call site passes the mappings (save+load always does) keeps them",
    "C03_same_name_same_id": "two screens frozen to one parent give the same id to the same sample name and the same (treatment name, dose), "
                             "between any two stages of any two histories",
    "C03_sizes_never_shrink": "repaired construction: the experiment-space sizes of every derived screen equal the parent's",
    "C03_ids_frozen_refuted": "TODAY'S construction (no mappings passed): exists a prepared simulation whose training half has sample ids 1 1 2 2 and "
                              "after one reveal_plates 0 0 1 1 for the same experiments; treatment ids likewise; mappings differ; sizes shrink (vm_compute witness)",
    "C03_mask_refuted": "the same with a single mask_screen",
    "C03_unmask_refuted": "the same with a single unmask_screen",
    "C03_source_carries_mappings": "the three Screen(...) call sites of reveal_plates / mask_screen / unmask_screen, as read from the source, pass both mappings",
    "C03_model_is_source_step": "each lifecycle operation performed by the TRANSLATED source function (Generated/SrcReveal.v) equals the model's step "
                                "under the repaired variant, for every screen and operation",
    "C03_model_is_source_lifecycle": "split + history run with the translated functions = the model's lifecycle (carry_mappings true)",
    "C03_source_variant_unique": "the model equals the translated source on all inputs for exactly one variant, the one named by the call-site "
                                 "constants SRC_*_carries_mappings (the constants are consistent with, and implied by, the translation)",
    "C03_ids_frozen_of_source": "ids_frozen stated of the translated functions: every screen derived by any history of them from either half "
                                "of any split carries the parent's mappings and ids",
}
ASSUMPTIONS = [
    "the hold-out selection vector is an oracle input recorded from the real function's rng.choice calls (checked against the "
    "numpy contract: duplicate-free subset of the pool of the requested size); theorems quantify over every selection vector",
    "save_h5/load_h5 are modelled as the constructor call load_h5 makes (stored rows, observations, mask and both mappings); "
    "HDF5 storage is the identity on arrays (C02); empty halves are not saved (h5 refuses empty string arrays built from nothing)",
    "doses cross as order keys, observations as float64 bit patterns, names as code points (see C01)",
    "mapping id arrays of an existing Screen have an integer dtype",
]
EXPLANATION = ("Model: Model/Reveal.v (reveal_plates, mask_screen, unmask_screen, save_load, each as the constructor call the code makes, "
               "parameterised by `variant` = does the call site pass the mappings), Model/Holdout.v (split), on the shared Model/Screen.v. "
               "The variant the current tree implements is detected from the behaviour of the real functions and reported in the extra check "
               "`variant-detection`; the correspondence must hold for exactly that variant.  For variant (0 0 0) (no mappings passed: the code "
               "before the repair) ids_frozen is REFUTED in Coq and the predicate reports the renumbering on the real code; the positive "
               "theorems hold for the repaired variant (1 1 1).  predict_stable is a corollary (embeddings are indexed by these ids, "
               "sparse_combo.py:675-713; C09 proves predictions row-wise) and is not stated separately.  train_model.main sizes the embeddings by "
               "ExperimentSpace.from_screen(loaded screen), which is what space_n_samples / space_n_treatments of every stage are compared against.  "
               "SOURCE LINK: that reveal_plates / mask_screen / unmask_screen pass treatment_mapping=screen.treatment_mapping and "
               "sample_mapping=screen.sample_mapping to Screen(...) is derived from the whole-function translations of C12 "
               "(harness/py2gal.py, Generated/SrcReveal.v; Screen(...) = the model's constructor on the keyword arguments the call site "
               "passes): C03_model_is_source_step / _lifecycle, C03_source_variant_unique, C03_ids_frozen_of_source.  Trusted: the translator "
               "and the primitives listed in C12's explanation.")
# ---- the prediction clause (gap review g1, C03 gap 1) ----
THEOREMS.update({
    "C03_predict_stable": "the clause 'identical predictions for the same experiments on every later stage': for any posterior sample of either shipped sample type, "
                          "any of mean / viability / variance and every oracle, two screens frozen to one parent predict the same number for row i of one and row j "
                          "of the other whenever the rows are the same experiment (same sample name, same (treatment, dose) in every column) - frozen ids composed with C09's Predict.theta_predict",
    "C03_predict_stable_stage": "a whole later stage whose rows are experiments idx of an earlier one (any order / repeats / subset): if the earlier stage can be predicted so can the "
                                "later (no IndexError appears later) and its prediction is the corresponding entries",
    "C03_pred_view_is_id_arrays": "pred_view (the screen as the prediction code reads it) is, for every constructed screen of arity 1 or 2, exactly the object whose sample_ids / "
                                  "treatment_ids arrays are the model screen's s_sids / s_tids under C09's representation map pydata_of",
    "C03_predict_stable_lifecycle": "the clause for any two stages (either half, any two histories of reveal / mask / unmask / save+load) of one prepared simulation, repaired construction",
    "C03_predict_stable_of_source": "the same with the TRANSLATED source on both sides: stages made by the translated reveal_plates / mask_screen / unmask_screen, predictions by the "
                                    "translated predict_* methods of both sample types (C09's py_theta_predict) reading each stage's own id arrays",
    "C03_predict_stable_refuted_without_mappings": "the construction WITHOUT the mappings (the code before the repair) violates the clause: exists one posterior sample and one experiment "
                                                   "predicted 22 at the training stage and 11 after one reveal_plates (vm_compute witness)",
})
RULE += ("  Big simulations (8 quick / 80 thorough, kind sim): 12-30 plates, 11-30 samples, random unicode names up to 40 characters, up to ~120 rows (thorough ~300), "
         "histories of 3-12 operations revealing any of the plate ids.")
RULE += ("  kind prepare, prediction clause (predict_stages): train_model.main() then runs TO THE END on that stage (SparseDrugCombo; for arity 2 also SparseDrugComboInteraction; "
         "1 chain, burn-in 0, 2 samples), the thetas it wrote are loaded back with ThetaHolder.load_h5, and each posterior sample's predict_viability / predict_conditional_mean / "
         "predict_conditional_variance is evaluated on the training screen, the test screen, the training screen after a reveal, that screen saved and loaded, the training screen after "
         "unmask_screen and the test screen after mask_screen: the same experiment (sample name, (treatment name, dose) per column) must get the same float64 bit pattern on every stage, and "
         "no stage may raise IndexError.")
EXPLANATION = EXPLANATION.replace("predict_stable is a corollary (embeddings are indexed by these ids, sparse_combo.py:675-713; C09 proves predictions row-wise) and is not stated separately.",
    "predict_stable IS stated (C03_predict_stable*, Proofs/C03Predict.v: frozen ids composed with C09's Model/Predict.v through pred_view, tied to the id arrays by "
    "C03_pred_view_is_id_arrays and to the translated predict_* methods by C03_predict_stable_of_source) and observed on the implementation by the predict_stages part of kind prepare "
    "with thetas really learned by train_model.main.  Not covered: the variational grid model's GridComboSample.predict_* (outside every link).")
# ---- the hold-out linked at the id / mapping level (gap review g1, C03 gap 2) ----
THEOREMS.update({
    "C03_model_is_source_holdout": "the WHOLE function create_plate_balanced_holdout_set_among_masked_plates re-translated on this run with `screen` the model Screen (ids and mappings) "
                                   "and both Screen(...) calls the model's constructor on the keyword arguments the call sites pass equals Holdout.balanced_holdout_ids = the "
                                   "selection the loop computes from the recorded rng.choice answers, then holdout_split",
    "C03_source_holdout_is_split": "whatever the translated hold-out returns is holdout_split of the parent for a selection vector of the screen's length: every theorem about "
                                   "holdout_split is a theorem about the translated hold-out",
    "C03_source_holdout_keeps_mappings": "both halves the translated hold-out returns carry the parent's mappings verbatim and number their rows by them",
    "C03_ids_frozen_of_source_full": "ids_frozen with every step a translated source function: translated hold-out, then any history of the translated reveal_plates / mask_screen / "
                                     "unmask_screen (and save + load) on either half",
})
EXPLANATION += ("  HOLD-OUT LINK: configuration C03_BALANCED_HOLDOUT (harness/src_functions.py -> Generated/SrcHoldoutIds.v) re-translates create_plate_balanced_holdout_set_among_masked_plates "
                "with the Screen(...) calls as the translator's keyword calls (C12's _SCREEN_CALL), so that both halves receive treatment_mapping=screen.treatment_mapping and "
                "sample_mapping=screen.sample_mapping is READ FROM THE SOURCE (C11's link of the same function forgets ids).  Trusted there: the loop primitives of C11_BALANCED_HOLDOUT "
                "read on the rows of the screen, `~v` = map negb, `a[m]` = boolean-mask selection at each array type, np.ones(np.count_nonzero(v)) = repeat true (vcount v), the Screen "
                "attribute reads of C12.")
# ---- source-translation links of the command-line wrappers (Model/Cli.v, Generated/SrcCli.v) ----
THEOREMS.update({
    'C03_model_is_source_cli_prepare_retrospective_simulation': 'the translation of the whole function prepare_retrospective_simulation.main regenerated on this run equals, for every record L of library functions and all parsed arguments, Cli.cli_prepare, which fixes the ORDER: filter, generator from --seed, initial plate (initial generator) or mask_screen, plate generator if any, reveal of a random unobserved plate when there is no initial generator, smoother if any, the hold-out split LAST on the smoothed screen, training and test screens saved; every drawing step receives the generator state its predecessor left',
    'C03_model_is_source_cli_reveal_plate': 'the translation of the whole function reveal_plate.main regenerated on this run equals Cli.cli_reveal_plate: reveal_plates(load(--screen), --plate-id list) saved to --output',
})
EXPLANATION += ("  CLI wrappers: prepare_retrospective_simulation.main and reveal_plate.main are re-translated as WHOLE functions on every run (Generated/SrcCli.v) and proved equal to Model/Cli.v.  These links trust the translator harness/py2gal.py (for these links extended by cfg typed_effects, kwcalls keys `module.function`, state_calls assigned to a tuple), the representation of Model/Cli.v (parsed arguments = a record of the plain argparse results, get_args() not translated = the primitive `get_args()` yielding that record; a main() denotes the list of (path, content) files it writes; `L` = ANY record of library functions over abstract types) and EXACTLY these primitives of harness/src_functions.py, each one field read / one library or constructor call standing for the function of that name (whose own link, where it exists, is the one of its property): CLI_PRNG (get_prng_from_seed_argument, reads args.seed only): numpy.random.SeedSequence(s).generate_state(1)[0] = seedseq_word mix s (ValueError for s < 0, `mix` an arbitrary function of the seed), numpy.random.default_rng(w) = Gen w. CLI_PREPARE: the fields of `args` read as the record's projections (a store to one is refused); ignored: log_config.configure_logging(args), logger.info/warning; Screen.load_h5(p), filter_dataset_to_treatments_that_appear_in_at_least_one_combo(s), get_prng_from_seed_argument(args) (translated), the three args.<x>_cls(**args.<x>_params) constructors, s.plates, p.is_observed, p.plate_id, p.size, s.n_plates, `s.size / n` = py_truediv (ZeroDivisionError for 0), np.std(l) (logged only), keyword calls mask_screen(screen=) and reveal_plates(screen=, plate_ids=), and the five STATE calls on the one generator `rng`, each receiving the generator state and returning the next: g.generate_and_unmask_initial_plate(screen=, rng=rng), g.generate_plates(screen=, rng=rng), rng.choice(l), g.smooth_plates(screen=, rng=rng), create_plate_balanced_holdout_set_among_masked_plates(screen=, fraction=, rng=rng); typed effect r.save_h5(p).  The branches, the Optional initial generator, the comprehension of unobserved plates and the order of all steps come from the translation. CLI_REVEAL_PLATE: the fields of `args` read as the record's projections (a store to one is refused); ignored: log_config.configure_logging(args), logger.info/warning; Screen.load_h5(p), reveal_plates(s, ids), typed effect r.save_h5(p). ")
THEOREMS.update({
    'C03_model_is_source_cli_args_get_args': 'the translation of the WHOLE function prepare_retrospective_simulation.get_args (parse_args() = the raw namespace) equals Cli.pr_get_args: the three class-valued options in source order (plate generator, initial plate generator, plate smoother), each only when given, each cast with the annotations of ITS OWN class',
    'C03_model_is_source_cli_args_prepare_retrospective_simulation': 'prepare_retrospective_simulation.main translated as a whole command (get_args() = the translated get_args; each args.<x>_cls(**args.<x>_params) = its construct on the two attributes) equals Cli.cli_prepare_cmd',
    'C03_model_is_source_cli_args_prepare_retrospective_simulation_world': 'the same with the introspection record made of the TRANSLATED get_class / get_required_init_args_with_annotations (Props/C18.v)',
    'C03_model_is_source_cli_args_plain_arguments_unchanged': 'the translated get_args returns a namespace whose plain argparse results (paths, option names, --holdout-fraction, --seed) are those parse_args produced',
})
import c18_args
EXPLANATION += c18_args.explanation(["get_args", "cmd"], "prepare_retrospective_simulation.get_args and prepare_retrospective_simulation.main as a whole command are") + (
    "cast_dict_to_type, str_to_bool and the introspection functions are linked in Props/C18.v (their primitives are listed in C18's evidence).  "
    "Runtime: get_args() is run on generated command lines (kind cli_args): each <x>_cls is the class named, each <x>_params typed by THAT class's annotations, --holdout-fraction unchanged.  ")

THEOREMS.update(c18_args.parser_theorems('C03', {'prepare_retrospective_simulation': ['fields', 'dests_derived', 'dests_distinct', 'seed', 'params'], 'reveal_plate': ['fields', 'dests_derived', 'dests_distinct']}))
EXPLANATION += c18_args.parser_explanation(['prepare_retrospective_simulation', 'reveal_plate'])

_CAUSE = {"reveal": "reveal", "cli_reveal": "reveal", "mask": "mask", "unmask": "unmask", "saveload": "saveload", "meta_cli": "saveload",
          "setobs": "setobs"}


def _check_stage(P, snap, cause, where):
    """the property on one derived screen against the parent: mappings equal, same name => same id, sizes not smaller"""
    pn = {l2(n): i for n, i in P["smap"]}
    pt = {(l2(k[0]), k[1]): i for k, i in P["tmap"]}
    dropped = snap["smap"] != P["smap"] or snap["tmap"] != P["tmap"]
    msg = None
    for r, (nm, sid) in enumerate(zip(snap["samples"], snap["sids"])):
        if pn.get(nm) != sid:
            msg = "row %d: sample %r has id %d, the parent's id for it is %r (sample ids now %r)" % (r, nm, sid, pn.get(nm), snap["sids"])
            break
    if msg is None:
        for r, (ts, ids) in enumerate(zip(snap["treats"], snap["tids"])):
            for (n, dk), tid in zip(ts, ids):
                if pt.get((n, dk)) != tid:
                    msg = "row %d: treatment (%r, dose key %d) has id %d, the parent's id for it is %r" % (r, n, dk, tid, pt.get((n, dk)))
                    break
            if msg:
                break
    if msg is None and dropped:
        msg = "mappings differ from the parent's: sample mapping %s vs parent %s; treatment mapping has %d vs %d entries" % (
            [(l2(n), i) for n, i in snap["smap"]], [(l2(n), i) for n, i in P["smap"]], len(snap["tmap"]), len(P["tmap"]))
    if msg is None:
        return None
    tag = "%s-drops-mappings" % cause if dropped else "%s-changes-ids" % cause
    return "[%s] %s: %s" % (tag, where, msg)


def l2(n):
    return n if isinstance(n, str) else common.l2s(n)


def _pred(desc, h):
    P = h["snaps"]["parent"]
    if h["contract"]:
        return "[rng-contract] " + h["contract"]
    for nm in ("train", "test"):
        m = _check_stage(P, h["snaps"][nm], "holdout", "the %s half of the split" % nm)
        if m:
            return m
    half = "test" if desc["test"] else "training"
    for k, (o, before, after, err, extra) in enumerate(h["events"]):
        if "loaded" in extra:
            m = _check_stage(P, extra["loaded"], "saveload", "op %d (load inside %s) on the %s half" % (k, o[0], half))
            if m:
                return m
        if after is None:
            continue
        m = _check_stage(P, after, _CAUSE[o[0]], "after op %d %r on the %s half (history %r)" % (k, o[:2], half, [x[:2] for x in desc["ops"][:k + 1]]))
        if m:
            return m
    return None


def _canon_impl(h):
    return dict(h["start"], stages=h["stages"])


WITNESS = dict(
    kind="sim",
    parent=dict(rows=[dict(s="a", p="p0", t=[["x", 1.0]], o=0.5, m=False), dict(s="a", p="p0", t=[["x", 1.0]], o=0.25, m=False),
                      dict(s="b", p="p1", t=[["y", 1.0]], o=0.5, m=True), dict(s="b", p="p1", t=[["y", 1.0]], o=0.75, m=True),
                      dict(s="c", p="p2", t=[["z", 2.0]], o=0.5, m=True), dict(s="c", p="p2", t=[["z", 2.0]], o=0.75, m=True)],
                arity=1, ctrl="", obs_given=True, mask_given=True, tmap=None, smap=None),
    fraction=1.0, seed=0, test=False, ops=[["reveal", [0]]])


def gen(rng, tier):
    N = 1 if tier == "quick" else 10
    yield WITNESS
    yield dict(WITNESS, ops=[["mask"]])
    yield dict(WITNESS, ops=[["unmask"]])
    yield dict(WITNESS, ops=[["saveload"], ["saveload"]])
    yield dict(WITNESS, ops=[["cli_reveal", [1]]])
    for i in range(330 * N):
        parent = simlib.gen_parent(rng, small=(i % 5 == 0))
        if rng.random() < 0.2 and len(parent["rows"]) >= 3:
            # parent = part of a bigger screen, carrying the bigger screen's mappings (as after load_h5 of a subset)
            big = sl.build(parent)
            keep = [r for r in parent["rows"] if rng.random() < 0.7] or parent["rows"][:1]
            parent = dict(parent, rows=keep,
                          tmap=dict(rows=[[str(n), float(x), int(j)] for n, x, j in zip(*big.treatment_mapping)], isint=True),
                          smap=dict(rows=[[str(n), int(j)] for n, j in zip(*big.sample_mapping)], isint=True))
        fraction = rng.choice([0.0, 0.1, 0.3, 0.5, 0.5, 0.7, 1.0, 1.0])
        test = rng.random() < (0.08 if fraction == 0.0 else 0.4)
        yield dict(kind="sim", parent=parent, fraction=fraction, seed=rng.randrange(10 ** 6), test=test,
                   ops=simlib.gen_ops(rng, with_setobs=False, cli=(rng.random() < 0.5)))
    # big simulations (gap review g1, item 9): 12-30 plates, 11-30 samples, random unicode names, up to 120 rows (thorough 300), histories of
    # up to 12 operations revealing any plate ids (ids reach two digits; a sample / treatment confined to one plate)
    import c01
    for i in range(8 * N):
        big = tier != "quick"
        n_pl = rng.randint(12, 30)
        pool = lambda k: sorted({c01._rand_name(rng, 40) for _ in range(k * 2)})[:k]      # noqa
        plates, samples, tnames = pool(n_pl), pool(rng.randint(11, 30)), pool(rng.randint(5, 20))
        ctrl = rng.choice(sl.CTRLS)
        arity = rng.choice([1, 2, 2, 3])
        doses = rng.sample(sl.DOSES, 4) + [0.1 * rng.randint(1, 40) for _ in range(6)]
        rows = []
        for j, p in enumerate(plates):
            observed = (j == 0) or rng.random() < 0.15
            own_s = samples[j % len(samples)] if rng.random() < 0.5 else None
            for _ in range(rng.randint(1, 10 if big else 4)):
                rows.append(dict(s=own_s or rng.choice(samples), p=p, t=[[rng.choice(tnames + [ctrl]), rng.choice(doses)] for _ in range(arity)],
                                 o=rng.choice([0.25, 0.5, 0.75, 0.125, 1.0, 0.3]), m=observed))
        rng.shuffle(rows)
        ops = []
        for _ in range(rng.randint(3, 12)):
            u = rng.random()
            ops.append(["reveal", rng.sample(range(len(plates)), rng.randint(1, 4))] if u < 0.6 else [rng.choice(["mask", "unmask", "saveload"])])
        yield dict(kind="sim", parent=dict(rows=rows, arity=arity, ctrl=ctrl, obs_given=True, mask_given=True, tmap=None, smap=None),
                   fraction=rng.choice([0.1, 0.3, 0.5, 1.0]), seed=rng.randrange(10 ** 6), test=rng.random() < 0.3, ops=ops)
    # the prepared simulation as the prepare_retrospective_simulation CLI makes it (generator / smoother / initial plate options)
    import retrolib as L
    R = "batchie.retrospective."
    for i in range(60 * N):
        sd = L.gen_screen(rng, all_observed=True, style=rng.choice(["one_sample_plates", "one_sample_plates", "many_plates", "mixed"]))
        sizes = [1, 1, 2, 2, 3, 4]
        g = rng.choice([None, None, ["PlatePermutationPlateGenerator", {}], ["SampleSegregatingPermutationPlateGenerator", dict(max_plate_size=rng.choice(sizes))]])
        sm = rng.choice([None, ["FixedSizeSmoother", dict(plate_size=rng.choice(sizes))], ["OptimalSizeSmoother", {}],
                         ["MergeMinPlateSmoother", dict(min_size=rng.choice([2, 3, 4, 6]))], ["MergeTopBottomPlateSmoother", dict(n_iterations=rng.choice([1, 2]))],
                         ["NPlatePerCellLineSmoother", dict(min_n_cell_line_plates=rng.choice([1, 2, 3]))]])
        ini = rng.choice([None, None, ["SparseCoverPlateGenerator", dict(reveal_single_treatment_experiments=rng.choice(["True", "False"]))]])
        if i % 4 == 3 and sd["rows"]:      # a few wells without a measurement (NaN) in the source screen
            for r in rng.sample(sd["rows"], min(len(sd["rows"]), rng.randint(1, 3))):
                r["o"] = float("nan")
            ini = None if rng.random() < 0.7 else ini
        yield dict(kind="prepare", screen=sd, gen=g, smooth=sm, init=ini, fraction=rng.choice([0.1, 0.25, 0.5, 0.5, 1.0]), seed=rng.randrange(10 ** 6))
    import c18_args
    yield from c18_args.gen_get_args(rng, tier, only="prepare_retrospective_simulation")
    yield from c18_args.gen_parser(rng, tier, commands=["reveal_plate"])      # the other parser this property states theorems about


def _features(desc, h):
    f = ["sim", "test_half" if desc["test"] else "train_half", "arity%d" % desc["parent"]["arity"]]
    if not desc["ops"] or len(desc["parent"]["rows"]) < 2:
        f.append("trivial")
    start = h["snaps"]["test" if desc["test"] else "train"]
    P = h["snaps"]["parent"]
    if {l2(n) for n, _ in P["smap"]} - set(start["samples"]):
        f.append("sample_only_in_other_half")
    if {(l2(k[0]), k[1]) for k, _ in P["tmap"]} - {(n, dk) for ts in start["treats"] for n, dk in ts}:
        f.append("treatment_only_in_other_half")
    if desc["parent"].get("smap") is not None:
        f.append("superset_parent_mapping")
    if h["empty"]:
        f.append("empty_half")
    if any(h["sel"]):
        f.append("nonempty_holdout")
    seen = set()
    for o, before, after, err, extra in h["events"]:
        f.append("op_" + o[0])
        if err is not None:
            f.append("refused")
        if o[0] in ("reveal", "cli_reveal"):
            ids = o[1]
            if len(set(ids)) < len(ids):
                f.append("repeated_id")
            if any(i not in before["pids"] for i in ids):
                f.append("unknown_id")
            if any(i in seen for i in ids) or any(m and p in ids for m, p in zip(before["mask"], before["pids"])):
                f.append("already_observed")
            if not ids:
                f.append("empty_ids")
            if after is not None:
                seen |= set(ids)
    return sorted(set(f))


def _name_ids(s):
    sm = {str(n): int(i) for n, i in zip(*s.sample_mapping)}
    tm = {(str(n), float(d)): int(i) for n, d, i in zip(*s.treatment_mapping)}
    rows_s = {str(n): int(i) for n, i in zip(s.sample_names, s.sample_ids)}
    rows_t = {(str(n), float(d)): int(i) for n, d, i in zip(s.treatment_names.reshape(-1), s.treatment_doses.reshape(-1), s.treatment_ids.reshape(-1))}
    return sm, tm, rows_s, rows_t


def _run_prepare(desc):
    """the prepared simulation as the CLI makes it: prepare_retrospective_simulation.main() in-process on a saved screen;
    implementation-only predicate: the training and the test screen it writes (and the screens reloaded / revealed from
    them) give one id to one sample name and to one (treatment, dose)"""
    import retrolib as L
    from batchie.cli import prepare_retrospective_simulation as cli
    from batchie.data import Screen
    from batchie.retrospective import reveal_plates

    d = simlib.tmpdir()
    feats = ["prepare"] + sorted("opt_" + k for k in ("gen", "smooth", "init") if desc.get(k))
    if any(isinstance(r.get("o"), float) and r["o"] != r["o"] for r in desc["screen"]["rows"]):
        feats.append("nan_wells_in_source")
    try:
        built = common.impl_call(sl.build, desc["screen"])
        if isinstance(built, ImplError) or built.size == 0:
            return dict(wire=None, impl=None, pred=None, features=feats + ["trivial"])
        src, tr, te = (os.path.join(d, n) for n in ("data.h5", "train.h5", "test.h5"))
        built.save_h5(src)
        argv = ["prep", "--data", src, "--training-output", tr, "--test-output", te, "--holdout-fraction", repr(desc["fraction"]), "--seed", str(desc["seed"])]
        for opt, key in (("--plate-generator", "gen"), ("--plate-smoother", "smooth"), ("--initial-plate-generator", "init")):
            if desc.get(key):
                argv += [opt, desc[key][0]]
                for k, v in desc[key][1].items():
                    argv += [opt + "-param", "%s=%s" % (k, v)]
        r = common.impl_call(lambda: common.run_cli_main(cli, argv))
        if isinstance(r, ImplError):
            return dict(wire=None, impl=None, pred=None, features=feats + ["refused", "trivial"])
        a, b = Screen.load_h5(tr), Screen.load_h5(te)
        stages = [("training", a), ("test", b)]
        un = [int(x) for x in np.unique(a.plate_ids[~a.observation_mask])]
        if un:
            rv = common.impl_call(reveal_plates, a, un[:1])      # refuses a plate whose wells are all 0 / hold a NaN (C12)
            if isinstance(rv, ImplError):
                feats.append("reveal_refused")
            else:
                stages.append(("training after reveal", rv))
                feats.append("reveal_after_prepare")
        pred = None
        maps = [(n, _name_ids(s)) for n, s in stages]
        for i, (n1, m1) in enumerate(maps):
            for n2, m2 in maps[i + 1:]:
                for which, k in (("sample", 0), ("treatment", 1)):
                    for src1 in (m1[k], m1[k + 2]):
                        for src2 in (m2[k], m2[k + 2]):
                            for name in src1:
                                if name in src2 and src1[name] != src2[name] and pred is None:
                                    pred = "[prepare-ids-disagree] %s %r has id %d in the %s screen and id %d in the %s screen of one prepared simulation (argv %r)" % (
                                        which, name, src1[name], n1, src2[name], n2, argv[7:])
        if pred is None and (b.size > 0) and (set(maps[1][1][2]) - set(maps[0][1][0]) or set(maps[1][1][3]) - set(maps[0][1][1])):
            pred = "[prepare-mapping-misses-holdout] the training screen's mappings do not know a sample / (treatment, dose) of the test screen: embedding sizes implied by the two halves differ"
        if set(maps[1][1][2]) - set(maps[0][1][2]):
            feats.append("sample_only_in_other_half")
        # the training stage: what train_model.main hands to the model must carry the ids of the screen it loaded (thetas are
        # indexed by them and predict on every later stage through the same ids)
        trainable = next((s for _, s in reversed(stages) if s is not b and bool(np.any(s.observation_mask))), None)
        if pred is None and trainable is not None:
            got = _train_stage(trainable, d, desc["seed"])
            if isinstance(got, str):
                pred = got
            elif got is not None:
                feats.append("train_stage")
                ref = _name_ids(trainable)
                for which, seen, mp in (("sample", got[0], ref[0]), ("treatment", got[1], ref[1])):
                    for name, i in seen.items():
                        if mp.get(name) != i and pred is None:
                            pred = "[train-ids-disagree] train_model.main hands the model %s %r with id %d; the screen it loaded maps it to %r (argv %r)" % (
                                which, name, i, mp.get(name), argv[7:])
                if len(ref[0]) > len(got[0]) or len(ref[1]) > len(got[1]):
                    feats.append("train_stage_ids_not_all_observed")
        # the prediction clause itself: posterior samples REALLY learned by train_model.main on that stage predict, bit for bit,
        # the same number for the same experiment on every other stage of the simulation
        if pred is None and trainable is not None and desc["screen"]["arity"] <= 2:
            pred = _predict_stages(desc, trainable, stages, d, feats, argv)
            if pred is None:
                pred = _evaluate_cli_stages(desc, tr, d, feats, argv)
        return dict(wire=None, impl=None, pred=pred, features=sorted(set(feats), key=feats.index))
    finally:
        shutil.rmtree(d, ignore_errors=True)


class _Stop(BaseException):
    pass


def _train_stage(screen, d, seed):
    """batchie.cli.train_model.main() in-process on `screen` saved to a file, stopped when the model receives its observations:
    (sample name -> id, (treatment name, dose) -> id) of what add_observations was given; None when it was not called; a
    string when main failed"""
    from unittest import mock
    from batchie.cli import train_model
    from batchie.models.sparse_combo import SparseDrugCombo

    path = os.path.join(d, "stage.h5")
    screen.save_h5(path)
    got = {}

    def spy(self, data):
        got["s"] = {str(n): int(i) for n, i in zip(data.sample_names, data.sample_ids)}
        got["t"] = {(str(n), float(x)): int(i) for n, x, i in zip(np.asarray(data.treatment_names).reshape(-1),
                                                                   np.asarray(data.treatment_doses).reshape(-1),
                                                                   np.asarray(data.treatment_ids).reshape(-1))}
        raise _Stop()

    argv = ["train_model", "--model", "SparseDrugCombo", "--model-param", "n_embedding_dimensions=2", "--n-burnin", "0",
            "--n-samples", "1", "--thin", "1", "--n-chains", "1", "--chain-index", "0", "--seed", str(seed),
            "--data", path, "--output", os.path.join(d, "thetas.h5")]
    try:
        with mock.patch.object(SparseDrugCombo, "add_observations", spy), \
                mock.patch.object(train_model.sampling, "sample", lambda **kw: (_ for _ in ()).throw(_Stop())):
            r = common.impl_call(lambda: common.run_cli_main(train_model, argv))
    except _Stop:
        r = None
    if isinstance(r, ImplError):
        return "[train-stage-failed] train_model.main on a stage of the prepared simulation raised %r" % (r,)
    return (got["s"], got["t"]) if got else None


def _exp_keys(s):
    """which experiment each row of a screen is: (sample name, ((treatment name, dose bits) per column))"""
    tn, td = np.asarray(s.treatment_names), np.asarray(s.treatment_doses, dtype=np.float64)
    return [(str(s.sample_names[r]), tuple((str(tn[r, c]), float(td[r, c]).hex()) for c in range(tn.shape[1]))) for r in range(s.size)]


_PREDICT = ("predict_viability", "predict_conditional_mean", "predict_conditional_variance")


def _learn(screen, d, seed, model, tag):
    """batchie.cli.train_model.main() run to the END in-process on `screen` (one chain, burn-in 0, 2 samples, thin 1); the
    thetas it wrote, loaded back with ThetaHolder.load_h5 (as every later pipeline step does); None when main refused"""
    from batchie.cli import train_model
    from batchie.core import ThetaHolder
    path, out = os.path.join(d, "learn_%s.h5" % tag), os.path.join(d, "thetas_%s.h5" % tag)
    screen.save_h5(path)
    argv = ["train_model", "--model", model, "--model-param", "n_embedding_dimensions=2", "--n-burnin", "0", "--n-samples", "2",
            "--thin", "1", "--n-chains", "1", "--chain-index", "0", "--seed", str(seed), "--data", path, "--output", out]
    with np.errstate(all="ignore"):
        r = common.impl_call(lambda: common.run_cli_main(train_model, argv))
    if isinstance(r, ImplError) or not os.path.exists(out):
        return None
    h = ThetaHolder.load_h5(out)
    _learn.last_output = out
    return [h.get_theta(i) for i in range(h.n_thetas)]


def _bits(x):
    return [int(b) for b in np.ascontiguousarray(np.asarray(x, dtype=np.float64)).reshape(-1).view(np.int64)]


def _evaluate_cli_stages(desc, tr_path, d, feats, argv):
    """the prediction clause through the command line only (gap review g1 / seeded C03-m10):
         train_model.main on the training screen prepare wrote (stage 1, usually one plate observed)  -> thetas
         evaluate_model.main --screen stage 1 --thetas thetas                                        -> evaluation 1
         reveal_plate.main (every still unobserved plate) on stage 1                                  -> stage 2
         evaluate_model.main --screen stage 2 --thetas thetas                                         -> evaluation 2
    An evaluation row is recognised as a row of the screen it was given by (sample name, observation bits) when that pair is
    unique in the screen (ModelEvaluation stores exactly these two per row); the experiment is that row's (sample name,
    (treatment, dose) per column, plate name).  [evaluate-differs-across-stages]: one experiment, one posterior sample, two
    evaluations, two predictions.  [evaluate-predicts-other-ids]: an evaluation's prediction differs from theta.predict_viability
    on the ids the evaluated screen itself carries."""
    from batchie.cli import evaluate_model, reveal_plate
    from batchie.data import Screen
    from batchie.models.main import ModelEvaluation
    s1 = Screen.load_h5(tr_path)
    if s1.size == 0 or not bool(np.any(s1.observation_mask)):
        return None
    thetas = _learn(s1, d, desc["seed"], "SparseDrugCombo", "cli")
    if thetas is None:
        feats.append("learn_refused_cli")
        return None
    th_path = _learn.last_output
    un = [int(x) for x in np.unique(s1.plate_ids[~s1.observation_mask])]
    st2 = os.path.join(d, "stage2.h5")
    files = [("stage 1 (training screen as prepared)", tr_path)]
    if un:
        r = common.impl_call(lambda: common.run_cli_main(reveal_plate, ["reveal_plate", "--screen", tr_path, "--output", st2, "--plate-id"] + [str(i) for i in un]))
        if not isinstance(r, ImplError) and os.path.exists(st2):
            files.append(("stage 2 (after reveal_plate of plates %r)" % (un,), st2))
    evals = []
    for k, (nm, path) in enumerate(files):
        out = os.path.join(d, "evaluation%d.h5" % k)
        with np.errstate(all="ignore"):
            r = common.impl_call(lambda: common.run_cli_main(evaluate_model, ["evaluate_model", "--screen", path, "--thetas", th_path, "--output", out]))
        if isinstance(r, ImplError) or not os.path.exists(out):
            if "IndexError" in repr(r):
                return "[predict-raises-on-later-stage] evaluate_model.main raises %r on %s with thetas learned by train_model.main on stage 1 (argv %r)" % (r, nm, argv[7:])
            feats.append("evaluate_refused")
            continue
        S = Screen.load_h5(path)
        me = ModelEvaluation.load_h5(out)
        P = np.asarray(me.predictions, dtype=np.float64)
        if P.ndim != 2 or P.shape[1] != len(thetas):
            return "[predict-shape] evaluate_model.main on %s stores predictions of shape %r for %d posterior samples" % (nm, P.shape, len(thetas))
        obits, keys, plates = _bits(S.observations), _exp_keys(S), [str(x) for x in S.plate_names]
        where = {}
        for r_, (sn, ob) in enumerate(zip(S.sample_names, obits)):
            where.setdefault((str(sn), ob), []).append(r_)
        with np.errstate(all="ignore"):
            own = [np.asarray(th.predict_viability(S), dtype=np.float64) for th in thetas]
        rows = {}
        for k_, (sn, ob) in enumerate(zip(me.sample_names, _bits(me.observations))):
            hit = where.get((str(sn), ob), [])
            if len(hit) != 1:
                continue
            r_ = hit[0]
            rows[(keys[r_], plates[r_], ob)] = (k_, r_)
            for ti in range(len(thetas)):
                if _bits(P[k_, ti]) != _bits(own[ti][r_]):
                    return ("[evaluate-predicts-other-ids] evaluate_model.main on %s reports %r for posterior sample %d and experiment (sample %r, treatments %r, plate %r); "
                            "theta.predict_viability on the ids that screen carries gives %r (argv %r)" % (
                                nm, float(P[k_, ti]), ti, keys[r_][0], [(a, float.fromhex(b)) for a, b in keys[r_][1]], plates[r_], float(own[ti][r_]), argv[7:]))
        evals.append((nm, P, rows))
    if len(evals) == 2:
        feats.append("evaluate_cli_two_stages")
        (n1, P1, R1), (n2, P2, R2) = evals
        both = [k for k in R1 if k in R2]
        if both:
            feats.append("evaluate_cli_same_experiment_on_two_stages")
        for k in both:
            for ti in range(len(thetas)):
                if _bits(P1[R1[k][0], ti]) != _bits(P2[R2[k][0], ti]):
                    return ("[evaluate-differs-across-stages] evaluate_model.main with one ThetaHolder (learned by train_model.main on stage 1) reports %r for posterior sample %d and "
                            "experiment (sample %r, treatments %r, plate %r) on %s and %r for the same experiment on %s (argv %r)" % (
                                float(P1[R1[k][0], ti]), ti, k[0][0], [(a, float.fromhex(b)) for a, b in k[0][1]], k[1], n1, float(P2[R2[k][0], ti]), n2, argv[7:]))
    elif evals:
        feats.append("evaluate_cli_one_stage")
    return None


def _predict_stages(desc, trainable, stages, d, feats, argv):
    """[predict-differs-across-stages] / [predict-raises-on-later-stage] or None.  Stages: the training and the test screen
    the CLI wrote, the training screen after a reveal, that screen after save + load, the training screen after
    unmask_screen, the test screen after mask_screen - every one a screen 'derived from one prepared simulation'"""
    from batchie.data import Screen
    from batchie.retrospective import mask_screen, unmask_screen
    models = ["SparseDrugCombo"] + (["SparseDrugComboInteraction"] if desc["screen"]["arity"] == 2 else [])
    later = list(stages)
    last = stages[-1][1]
    path = os.path.join(d, "later.h5")
    last.save_h5(path)
    later.append((stages[-1][0] + ", saved and loaded", Screen.load_h5(path)))
    for nm, f, src in (("training after unmask_screen", unmask_screen, stages[0][1]), ("test after mask_screen", mask_screen, stages[1][1])):
        if src.size > 0:
            r = common.impl_call(f, src)
            if not isinstance(r, ImplError):
                later.append((nm, r))
    later = [(n, s, _exp_keys(s)) for n, s in later if s.size > 0]
    for model in models:
        thetas = _learn(trainable, d, desc["seed"], model, model)
        if thetas is None:
            feats.append("learn_refused_" + model)
            continue
        feats.append("predict_stages_" + model)
        for ti, th in enumerate(thetas):
            for meth in _PREDICT:
                seen = {}
                for n, s, keys in later:
                    with np.errstate(all="ignore"):
                        v = common.impl_call(lambda: np.asarray(getattr(th, meth)(s), dtype=np.float64))
                    if isinstance(v, ImplError):
                        if "IndexError" in repr(v):
                            return ("[predict-raises-on-later-stage] %s of posterior sample %d (%s, learned by train_model.main) raises %r on the %s screen: "
                                    "an id of that stage lies outside the embeddings sized by the stage it was learned on (argv %r)" % (meth, ti, model, v, n, argv[7:]))
                        feats.append("predict_refused_%s_%s" % (model, meth))      # KeyError of the interaction model's single-effect lookup etc.: C09's subject
                        continue
                    if v.shape != (s.size,):
                        return "[predict-shape] %s on the %s screen returns shape %r for %d experiments" % (meth, n, v.shape, s.size)
                    bits = v.view(np.int64)
                    for r, k in enumerate(keys):
                        if k in seen and seen[k][0] != int(bits[r]):
                            return ("[predict-differs-across-stages] %s of posterior sample %d (%s, learned by train_model.main on the %s stage) gives %r for experiment "
                                    "(sample %r, treatments %r) on the %s screen and %r for the same experiment on the %s screen (argv %r)" % (
                                        meth, ti, model, "trainable", float(v[r]), k[0], [(a, float.fromhex(b)) for a, b in k[1]], n, seen[k][1], seen[k][2], argv[7:]))
                        seen.setdefault(k, (int(bits[r]), float(v[r]), n))
                if len(later) > 1 and len({k for _, _, ks in later for k in ks}) < sum(len(ks) for _, _, ks in later):
                    feats.append("same_experiment_on_two_stages")
    return None


def run(desc):
    if desc.get("kind") == "cli_args":      # get_args() of this property's wrapper on generated command lines (harness/c18_args.py)
        import c18_args
        return c18_args.run_case(desc)
    if desc["kind"] == "prepare":
        return _run_prepare(desc)
    h = simlib.run_history(desc, sl.canon_screen)
    pred = _pred(desc, h)
    return dict(wire=simlib.wire_sim(desc, h), impl=_canon_impl(h), pred=pred, features=_features(desc, h), cmp=simlib.cmp_sim)


def signature(desc, res):
    m = re.match(r"^\[([a-z-]+)\]", res.get("pred") or "")
    return m.group(1) if m else None


def _sig_desc(desc):
    """(signature, does the message show an id that actually changed) of a description, on the implementation"""
    try:
        h = simlib.run_history(desc, lambda s: None)
        pred = _pred(desc, h)
        return signature(desc, dict(pred=pred)), (" has id " in (pred or ""))
    except Exception:
        return None


def shrink(desc):
    """smaller descriptions with the SAME failure signature (so a minimised witness stays the same finding)"""
    if desc.get("kind") == "cli_args":
        return
    if desc["kind"] == "prepare":
        rows = desc["screen"]["rows"]
        for i in range(len(rows)):
            yield dict(desc, screen=dict(desc["screen"], rows=rows[:i] + rows[i + 1:]))
        for k in ("gen", "init"):
            if desc.get(k):
                yield dict(desc, **{k: None})
        return
    want = _sig_desc(desc)
    cands = []
    ops = desc["ops"]
    for i in range(len(ops)):
        cands.append(dict(desc, ops=ops[:i] + ops[i + 1:]))
    for i, o in enumerate(ops):
        if o[0] == "cli_reveal":
            cands.append(dict(desc, ops=ops[:i] + [["reveal", o[1]]] + ops[i + 1:]))
        if o[0] in ("reveal", "cli_reveal") and len(o[1]) > 1:
            for j in range(len(o[1])):
                cands.append(dict(desc, ops=ops[:i] + [[o[0], o[1][:j] + o[1][j + 1:]]] + ops[i + 1:]))
    rows = desc["parent"]["rows"]
    for i in range(len(rows)):
        cands.append(dict(desc, parent=dict(desc["parent"], rows=rows[:i] + rows[i + 1:])))
    if desc["parent"].get("smap") is not None:
        cands.append(dict(desc, parent=dict(desc["parent"], smap=None, tmap=None)))
    for c in cands:
        if want is None or want[0] is None or _sig_desc(c) == want:
            yield c


def extra(tier):
    """the model variant sent on the wire must be exactly the one the code implements: on the probe, the detected
    variant agrees with the real functions and every variant differing in one flag disagrees at that function"""
    v = simlib.detect_variant()
    ok, notes = True, []
    for i, o in enumerate([["reveal", [0]], ["mask"], ["unmask"]]):
        desc = dict(kind="sim", parent=simlib.PROBE_PARENT, fraction=0.0, seed=0, test=False, ops=[o])
        h = simlib.run_history(desc, sl.canon_screen)
        impl = _canon_impl(h)
        flipped = [(not b) if i == j else b for j, b in enumerate(v)]
        outs = common.run_model(ID, [simlib.wire_sim(desc, h, variant=v), simlib.wire_sim(desc, h, variant=flipped)])
        same, other = simlib.cmp_sim(outs[0], impl), simlib.cmp_sim(outs[1], impl)
        if same is not None or other is None:
            ok = False
        notes.append("%s: detected variant %s, other variant %s" % (o[0], "agrees" if same is None else same, "agrees too" if other is None else "differs"))
    return [("variant-detection", ok, "code implements (carry_reveal, carry_mask, carry_unmask) = %r; %s" % (v, "; ".join(notes)))]
