"""Shared machinery of the /verif checks (see DESIGN.md 2.3, 3, 7a).

A property module `cXX.py` provides
    ID            "C07"
    THEOREMS      informational: {theorem name: one-line meaning}
    RULE          how cases are generated / what counts as non-trivial
    gen(rng, tier)    -> iterable of JSON-able case descriptions (dicts with a "kind")
    run(desc)         -> dict(wire=<sexp as nested lists/ints>, impl=<canonical value>,
                              pred=None | "what property predicate fails on the implementation",
                              features=[...], cmp=optional callable(model_out, impl_out)->None|str)
    optional: shrink(desc) -> iterable of smaller descs;  signature(desc, res) -> str
    optional: extra(tier) -> list of (name, ok:bool, detail) additional whole-run checks
"""
import fcntl
import hashlib
import json
import math
import os
import random
import re
import subprocess
import sys
import time
import traceback
from fractions import Fraction

VERIF = os.path.dirname(os.path.dirname(os.path.abspath(__file__)))
COQ = os.path.join(VERIF, "coq")
REPO = os.environ.get("VERIF_REPO", "/repo")
WORK = os.path.join(VERIF, ".work")

# --------------------------------------------------------------------------- s-expressions


def sexp_dumps(x):
    out = []

    def go(v):
        if isinstance(v, bool):
            out.append("1" if v else "0")
        elif isinstance(v, int):
            out.append(str(v))
        elif isinstance(v, (list, tuple)):
            out.append("(")
            first = True
            for y in v:
                if not first:
                    out.append(" ")
                first = False
                go(y)
            out.append(")")
        elif isinstance(v, str):
            go([ord(c) for c in v])
        elif isinstance(v, Fraction):
            go([v.numerator, v.denominator])
        elif hasattr(v, "item"):  # numpy scalar
            go(v.item())
        elif v is None:
            out.append("()")
        else:
            raise TypeError("cannot encode %r" % (v,))

    go(x)
    return "".join(out)


def sexp_loads(s):
    s = s.strip()
    pos = 0
    n = len(s)

    def item():
        nonlocal pos
        while pos < n and s[pos] == " ":
            pos += 1
        if s[pos] == "(":
            pos += 1
            acc = []
            while True:
                while pos < n and s[pos] == " ":
                    pos += 1
                if s[pos] == ")":
                    pos += 1
                    return acc
                acc.append(item())
        st = pos
        while pos < n and s[pos] not in " ()":
            pos += 1
        return int(s[st:pos])

    r = item()
    return r


def frac(x):
    """exact rational of a finite float / int / numpy scalar as [n, d]"""
    if hasattr(x, "item"):
        x = x.item()
    if isinstance(x, int):
        return [x, 1]
    f = Fraction(x)
    return [f.numerator, f.denominator]


def unfrac(p):
    return Fraction(p[0], p[1])


def s2l(s):
    """python str -> list of code points (the model's string type)"""
    return [ord(c) for c in s]


def l2s(l):
    return "".join(chr(c) for c in l)


def float_key(x):
    """order-isomorphic integer key for a float: -0.0 == 0.0, nan rejected, inf allowed."""
    import struct

    if hasattr(x, "item"):
        x = x.item()
    x = float(x)
    if math.isnan(x):
        raise ValueError("nan has no order key")
    if x == 0.0:
        return 0
    (b,) = struct.unpack(">q", struct.pack(">d", x))
    return b if b >= 0 else -(b & 0x7FFFFFFFFFFFFFFF)


def close(model_q, impl_x, tol=1e-9, scale=1.0):
    """|impl - model| <= tol * max(1, scale)"""
    m = float(Fraction(model_q[0], model_q[1]))
    return abs(float(impl_x) - m) <= tol * max(1.0, abs(scale), abs(m))


# --------------------------------------------------------------------------- building


class BuildError(Exception):
    pass


def sh(cmd, timeout, cwd=None, env=None):
    p = subprocess.run(
        cmd, shell=isinstance(cmd, str), cwd=cwd, env=env, timeout=timeout,
        stdout=subprocess.PIPE, stderr=subprocess.STDOUT, text=True,
    )
    return p.returncode, p.stdout


class BuildLock:
    def __enter__(self):
        os.makedirs(WORK, exist_ok=True)
        self.f = open(os.path.join(WORK, "build.lock"), "w")
        fcntl.flock(self.f, fcntl.LOCK_EX)
        return self

    def __exit__(self, *a):
        fcntl.flock(self.f, fcntl.LOCK_UN)
        self.f.close()


HYGIENE_RE = re.compile(
    r"\b(Admitted|admit|Axiom|Axioms|Parameter|Parameters|Conjecture|Conjectures|Admit Obligations|"
    r"Unset Guard Checking|Unset Positivity Checking|Unset Universe Checking|bypass_check|"
    r"type-in-type|impredicative-set|native_compute)\b"
)


def strip_coq_comments(txt):
    out = []
    depth = 0
    i = 0
    while i < len(txt):
        if txt.startswith("(*", i):
            depth += 1
            i += 2
        elif txt.startswith("*)", i) and depth > 0:
            depth -= 1
            i += 2
        else:
            if depth == 0:
                out.append(txt[i])
            i += 1
    return "".join(out)


def hygiene():
    """No Admitted/admit/Axiom/Parameter/... anywhere in the development (comments excluded)."""
    bad = []
    for root, _, files in os.walk(os.path.join(COQ, "theories")):
        for fn in files:
            if fn.endswith(".v"):
                p = os.path.join(root, fn)
                txt = strip_coq_comments(open(p).read())
                for ln, line in enumerate(txt.split("\n"), 1):
                    m = HYGIENE_RE.search(line)
                    if m:
                        bad.append("%s:%d:%s" % (os.path.relpath(p, VERIF), ln, m.group(1)))
    proj = open(os.path.join(COQ, "_CoqProject")).read() if os.path.exists(os.path.join(COQ, "_CoqProject")) else ""
    if "type-in-type" in proj or "impredicative-set" in proj:
        bad.append("_CoqProject: forbidden flag")
    return bad


def build_coq(clean=False):
    """Regenerate Generated/*.v from /repo, full .vo build (no -vos), under timeout."""
    with BuildLock():
        rc, out = sh([sys.executable, os.path.join(VERIF, "harness", "gen_consts.py")], 120)
        if rc != 0:
            raise BuildError("gen_consts failed:\n" + out)
        rc, out = sh("./mkproject.sh", 60, cwd=COQ)
        if rc != 0:
            raise BuildError("mkproject failed:\n" + out)
        if clean:
            sh("make clean", 300, cwd=COQ)
        rc, out = sh("timeout 3000 make -j%d -k" % (os.cpu_count() or 4), 3100, cwd=COQ)
        if rc != 0:
            # a file that failed to compile keeps the .vo of the last good build (coqc writes none on failure); remove it, so
            # that nothing can be checked against what the file used to say
            for m in re.finditer(r"\*\*\* \[Makefile[^\]]*: (theories/\S+?\.vo)\] Error", out):
                stale = os.path.join(COQ, m.group(1))
                if os.path.exists(stale):
                    os.remove(stale)
        return rc, out


def stale_objects(relv):
    """files in the import closure of theories/<relv> whose .vo is missing or older than the source or than the .vo of a file
    they import (make would have rebuilt them had their dependencies compiled): Props must not be checked against these"""
    bad = []
    clo = import_closure(relv)
    T = os.path.join(COQ, "theories")
    mt = {}
    for r in clo:
        vo = os.path.join(T, r[:-2] + ".vo")
        mt[r] = os.path.getmtime(vo) if os.path.exists(vo) else None
    for r in sorted(clo):
        if r == relv:
            continue
        if mt[r] is None:
            bad.append(r + ": not compiled")
        elif mt[r] < os.path.getmtime(os.path.join(T, r)):
            bad.append(r + ": object file older than its source")
        else:
            for d in import_closure(r):
                if d != r and mt.get(d) is not None and mt[d] > mt[r] + 1e-6:
                    bad.append("%s: object file older than that of %s" % (r, d))
                    break
    return bad


def import_closure(relv):
    """theories-relative .v files that theories/<relv> transitively imports from this project (text scan of
    `From Batchie Require ...` / `Require ... Batchie.X.Y`); used only to say WHICH refused translation a
    broken obligation goes back to - what actually fails is decided by coqc, not by this scan."""
    seen, todo = set(), [relv]
    while todo:
        r = todo.pop()
        if r in seen:
            continue
        seen.add(r)
        path = os.path.join(COQ, "theories", r)
        if not os.path.exists(path):
            continue
        code = strip_coq_comments(open(path).read())
        for m in re.finditer(r"(?:From\s+Batchie\s+)?Require\s+(?:Import|Export)?\s*([^.]*(?:\.[A-Za-z][^.]*)*)\.(?:\s|$)", code):
            for w in m.group(1).split():
                w = w[len("Batchie."):] if w.startswith("Batchie.") else w
                parts = w.split(".")
                if len(parts) == 2 and os.path.exists(os.path.join(COQ, "theories", parts[0], parts[1] + ".v")):
                    todo.append("%s/%s.v" % (parts[0], parts[1]))
    return seen


def refusals_for(pid):
    """refused pieces of this run's regeneration that Props/<pid>.v depends on: {generated file: reason}"""
    try:
        refused = json.load(open(os.path.join(COQ, "theories", "Generated", "REFUSED.json")))
    except Exception:  # noqa: BLE001
        return {}
    if not refused:
        return {}
    clo = import_closure("Props/%s.v" % pid) | import_closure("Run/Run%s.v" % pid)
    texts = None
    res = {}
    for k, v in refused.items():
        fn, _, name = k.partition(":")
        if "Generated/" + fn not in clo:
            continue
        if not name:
            res[k] = v
            continue
        if texts is None:
            texts = [open(os.path.join(COQ, "theories", f)).read() for f in clo if not f.startswith("Generated/")
                     and os.path.exists(os.path.join(COQ, "theories", f))]
        pat = re.compile(r"(?<![A-Za-z0-9_'])" + re.escape(name) + r"(?![A-Za-z0-9_'])")
        if any(pat.search(t) for t in texts):
            res[k] = v
    return res


def build_driver(pid):
    with BuildLock():
        rc, out = sh(["./driver/build.sh", pid.lower()], 400, cwd=VERIF)
        if rc != 0:
            raise BuildError("driver build failed for %s:\n%s" % (pid, out))


def vo_ok(relv):
    """is theories/<relv> compiled and newer than its source?"""
    v = os.path.join(COQ, "theories", relv)
    vo = v[:-2] + ".vo"
    return os.path.exists(vo) and os.path.getmtime(vo) >= os.path.getmtime(v)


def check_props(pid):
    """Re-check theories/Props/<pid>.v alone, capture Print Assumptions.
    Returns dict(ok, theorems=[{name, axioms}], obligations, discharged, failed_theorem, output)."""
    src = os.path.join(COQ, "theories", "Props", pid + ".v")
    txt = open(src).read()
    code = strip_coq_comments(txt)
    names = re.findall(r"^\s*(?:Theorem|Corollary)\s+([A-Za-z0-9_']+)", code, re.M)
    with BuildLock():
        stale = stale_objects("Props/%s.v" % pid)
        rc, out = sh(
            "timeout 900 coqc -Q theories Batchie -w -notation-overridden,-deprecated-hint-without-locality "
            "theories/Props/%s.v" % pid, 1000, cwd=COQ)
    if stale:
        rc = rc or 1
        out = "STALE OBJECT FILES in the import closure (a dependency no longer compiles):\n  " + "\n  ".join(stale[:12]) + "\n" + out
    res = dict(ok=(rc == 0), obligations=len(names), output=out[-4000:], theorems=[], failed_theorem=None)
    # parse Print Assumptions blocks in order
    blocks = re.split(r"(?m)^(?=Closed under the global context|Axioms:)", out)
    ax = []
    for b in blocks:
        if b.startswith("Closed under the global context"):
            ax.append([])
        elif b.startswith("Axioms:"):
            body = b[len("Axioms:"):]
            ids = re.findall(r"(?m)^([A-Za-z_][A-Za-z0-9_.']*)\s*:", body)
            ax.append(ids)
    for i, nm in enumerate(names):
        res["theorems"].append(dict(name=nm, axioms=ax[i] if i < len(ax) else None))
    if rc == 0:
        res["discharged"] = len(names)
    else:
        m = re.search(r'line (\d+), characters', out)
        failed = None
        if m:
            line = int(m.group(1))
            upto = "\n".join(txt.split("\n")[:line])
            prev = re.findall(r"(?:Theorem|Corollary|Lemma|Example)\s+([A-Za-z0-9_']+)", strip_coq_comments(upto))
            failed = prev[-1] if prev else None
        res["failed_theorem"] = failed
        res["discharged"] = len(ax)
    return res


def run_coqchk(pid):
    """thorough tier: independent re-check of Props/<pid>.vo and everything it depends on; lists axioms"""
    with BuildLock():
        rc, out = sh("timeout 1500 coqchk -silent -o -Q theories Batchie Batchie.Props.%s" % pid, 1600, cwd=COQ)
    summary = out[out.find("CONTEXT SUMMARY"):] if "CONTEXT SUMMARY" in out else out[-1500:]
    m = re.search(r"\* Axioms:(.*?)\n\s*\n\* Constants", summary, re.S)
    axioms = m.group(1).strip() if m else "?"
    bad = [k for k in ("type-in-type", "unsafe (co)fixpoints", "positivity is assumed")
           if not re.search(re.escape(k) + r":\s*<none>", summary)]
    return dict(ok=(rc == 0 and not bad), axioms=axioms, flags_not_none=bad, output=summary[-1200:])


# --------------------------------------------------------------------------- model runner


def run_model(pid, wires, timeout=1200):
    """run the extracted model on a list of wire values; returns list of decoded outputs
    (or strings starting with '!' for driver-level failures)."""
    exe = os.path.join(VERIF, "driver", "bin", pid.lower())
    inp = "\n".join(sexp_dumps(w) for w in wires) + "\n"
    p = subprocess.run(["bash", "-c", "ulimit -s unlimited 2>/dev/null; exec '%s'" % exe],
                       input=inp, stdout=subprocess.PIPE, stderr=subprocess.PIPE, text=True, timeout=timeout)
    lines = p.stdout.split("\n")
    if lines and lines[-1] == "":
        lines.pop()
    if p.returncode != 0 or len(lines) != len(wires):
        raise BuildError("model driver %s: rc=%s, %d outputs for %d inputs; stderr=%s"
                         % (pid, p.returncode, len(lines), len(wires), p.stderr[-2000:]))
    outs = []
    for ln in lines:
        if ln.startswith("!"):
            outs.append(ln)
        else:
            outs.append(sexp_loads(ln))
    return outs


# --------------------------------------------------------------------------- implementation helpers


def impl_call(f, *a, **k):
    """run an implementation call; exceptions become ['err', class name]"""
    try:
        return f(*a, **k)
    except (Exception, SystemExit) as e:  # noqa  (argparse errors of in-process CLI runs are SystemExit)
        return ImplError(e)


class ImplError:
    def __init__(self, e):
        self.cls = type(e).__name__
        self.msg = str(e)[:300]

    def __repr__(self):
        return "ImplError(%s: %s)" % (self.cls, self.msg)


def run_cli_main(module, argv):
    """run a batchie CLI module's main() in-process with the given argv, without its logging setup"""
    from unittest import mock

    import batchie.log_config as lc

    with mock.patch.object(sys, "argv", list(argv)), mock.patch.object(lc, "configure_logging", lambda *a, **k: None):
        return module.main()


def canon(x):
    """canonical JSON-able form of implementation values: numpy -> python, tuples -> lists"""
    import numpy as np

    if isinstance(x, ImplError):
        return {"err": x.cls, "msg": x.msg}
    if isinstance(x, np.ndarray):
        return canon(x.tolist())
    if isinstance(x, (np.integer,)):
        return int(x)
    if isinstance(x, (np.bool_,)):
        return bool(x)
    if isinstance(x, (np.floating,)):
        return float(x)
    if isinstance(x, (np.str_, np.bytes_)):
        return str(x)
    if isinstance(x, (list, tuple)):
        return [canon(y) for y in x]
    if isinstance(x, dict):
        return {str(k): canon(v) for k, v in x.items()}
    if isinstance(x, Fraction):
        return [x.numerator, x.denominator]
    return x


def is_err(model_out):
    return isinstance(model_out, list) and len(model_out) == 2 and model_out[0] == 1


def is_ok(model_out):
    return isinstance(model_out, list) and len(model_out) == 2 and model_out[0] == 0


def cmp_result(inner=None):
    """comparator for result-typed outputs: impl error <-> model (1 tag); else inner(model_val, impl)"""

    def f(m, i):
        ierr = isinstance(i, ImplError) or (isinstance(i, dict) and "err" in i)
        if isinstance(m, str):
            return "model driver failure: " + m
        if is_err(m):
            return None if ierr else "model refuses (tag %s) but implementation returned %r" % (m[1], short(i))
        if not is_ok(m):
            return "model output is not a result: %r" % (short(m),)
        if ierr:
            return "implementation raised %r but model returned a value" % (i,)
        if inner is None:
            return None if m[1] == i else "values differ: model %s impl %s" % (short(m[1]), short(i))
        return inner(m[1], i)

    return f


def short(x, n=400):
    s = repr(x)
    return s if len(s) <= n else s[:n] + "..."


def default_cmp(m, i):
    if isinstance(m, str):
        return "model driver failure: " + m
    if isinstance(i, ImplError):
        return "implementation raised %r; model returned %s" % (i, short(m))
    return None if m == i else "values differ: model %s impl %s" % (short(m), short(i))


# --------------------------------------------------------------------------- known findings


def load_known(pid):
    p = os.path.join(VERIF, "KNOWN_FINDINGS.json")
    if not os.path.exists(p):
        return []
    return [k for k in json.load(open(p)) if k.get("property") == pid]


# --------------------------------------------------------------------------- the check driver


def repo_head():
    try:
        rc, out = sh("git -C %s rev-parse HEAD; git -C %s status --porcelain | head -20" % (REPO, REPO), 30)
        return out.strip()
    except Exception:
        return "unknown"


def write_replay(pid, payload):
    d = os.path.join(VERIF, "replays", pid)
    os.makedirs(d, exist_ok=True)
    h = hashlib.sha1(json.dumps(payload, sort_keys=True, default=str).encode()).hexdigest()[:10]
    p = os.path.join(d, "%s_%s.json" % (payload.get("kind", "case"), h))
    payload = dict(payload)
    payload["property"] = pid
    payload["repo_head"] = repo_head()
    payload["how_to_run"] = "cd /verif && ./check %s --replay %s" % (pid, p)
    with open(p, "w") as f:
        json.dump(payload, f, indent=1, default=str)
    return p


class CaseTimeout(BaseException):
    pass


def run_with_deadline(mod, d):
    """mod.run(d) under a per-case wall-clock limit (module attribute CASE_TIMEOUT_S, default 120 s; SIGALRM, main thread)"""
    import signal

    limit = int(getattr(mod, "CASE_TIMEOUT_S", 120))

    def on_alarm(signum, frame):
        raise CaseTimeout(limit)

    old = signal.signal(signal.SIGALRM, on_alarm)
    signal.alarm(limit)
    try:
        return mod.run(d)
    finally:
        signal.alarm(0)
        signal.signal(signal.SIGALRM, old)


def evaluate_cases(mod, descs, budget_s=None):
    """run implementation + model on each desc; returns list of result dicts"""
    t0 = time.time()
    ran = []
    for d in descs:
        if budget_s is not None and time.time() - t0 > budget_s:
            break
        try:
            r = run_with_deadline(mod, d)
        except CaseTimeout as e:
            # the implementation (all cases are small) did not come back: a property about what a function returns is
            # not met by a function that does not return - reported as a counterexample with this input as the replay
            r = dict(wire=None, impl=None, pred="no-return: the implementation did not return within %d s on this input" % e.args[0],
                     features=["timeout"])
            n_timeouts = 1 + sum(1 for x in ran if "timeout" in x.get("features", ()))
            if n_timeouts >= 3:      # three inputs on which the code does not return are enough: stop exploring
                r["desc"] = d
                ran.append(r)
                break
        except (Exception, SystemExit) as e:  # harness-level problem: surfaces as a disagreement, never silently dropped
            r = dict(wire=None, impl=None, pred=None, features=["harness-exception"],
                     harness_error="%s: %s\n%s" % (type(e).__name__, e, traceback.format_exc()[-1500:]))
        r["desc"] = d
        ran.append(r)
    idx = [i for i, r in enumerate(ran) if r.get("wire") is not None]
    outs = run_model(mod.ID, [ran[i]["wire"] for i in idx]) if idx else []
    for i, o in zip(idx, outs):
        ran[i]["model"] = o
    for r in ran:
        if "harness_error" in r:
            r["disagree"] = "harness error: " + r["harness_error"]
            continue
        if r.get("wire") is None:
            r["disagree"] = None  # implementation-only case (predicate only)
            continue
        cmp = r.get("cmp") or default_cmp
        try:
            r["disagree"] = cmp(r["model"], r["impl"])
        except Exception as e:
            r["disagree"] = "comparator raised %s: %s (model=%s)" % (type(e).__name__, e, short(r.get("model")))
    return ran


def case_failed(r):
    return bool(r.get("pred")) or bool(r.get("disagree"))


def shrink_case(mod, r, deadline):
    if not hasattr(mod, "shrink"):
        return r
    cur = r
    improved = True
    while improved and time.time() < deadline:
        improved = False
        for d2 in mod.shrink(cur["desc"]):
            if time.time() > deadline:
                break
            try:
                r2 = evaluate_cases(mod, [d2])[0]
            except Exception:
                continue
            # keep the same kind of failure (predicate failure preferred)
            if bool(r2.get("pred")) == bool(cur.get("pred")) and case_failed(r2):
                cur = r2
                improved = True
                break
    return cur


def jsonable(x):
    try:
        json.dumps(x)
        return x
    except Exception:
        return json.loads(json.dumps(canon(x), default=str))


def main_check(mod, argv):
    import argparse

    ap = argparse.ArgumentParser()
    ap.add_argument("tier", nargs="?", default=os.environ.get("VERIF_TIER", "quick"))
    ap.add_argument("--replay")
    ap.add_argument("--no-build", action="store_true")
    args = ap.parse_args(argv)
    tier = args.tier if args.tier in ("quick", "thorough") else "quick"
    seed = int(os.environ.get("VERIF_SEED", "0") or 0)
    pid = mod.ID
    t0 = time.time()
    violations = []  # (replay path, suffix)
    known_lines = []
    known = load_known(pid)
    known_sigs = {k["signature"]: k for k in known if k.get("status") == "known"}

    # 1. proofs
    bad = hygiene()
    proof = dict(ok=False, obligations=0, discharged=0, theorems=[], failed_theorem=None, output="")
    build_out = ""
    try:
        if not args.no_build:
            rc, build_out = build_coq(clean=(tier == "thorough" and os.environ.get("VERIF_CLEAN", "0") == "1"))
        proof = check_props(pid)
        build_driver(pid)
    except BuildError as e:
        build_out += "\n" + str(e)
        proof["output"] = str(e)
    chk = None
    if tier == "thorough" and proof.get("ok") and not args.replay:
        try:
            chk = run_coqchk(pid)
            if not chk["ok"]:
                proof["ok"] = False
                proof["output"] = "coqchk failed:\n" + chk["output"]
        except Exception as e:  # timeout etc.
            chk = dict(ok=False, axioms="?", flags_not_none=[], output="coqchk did not finish: %s" % e)
    proof_ok = proof["ok"] and not bad and proof["obligations"] > 0 and proof["discharged"] == proof["obligations"]
    own_axioms = sorted({a for t in proof["theorems"] for a in (t["axioms"] or [])})

    # 2. replay mode
    if args.replay:
        payload = json.load(open(args.replay))
        descs = [payload["case"]] if payload.get("case") is not None else []
        ran = evaluate_cases(mod, descs)
        failed = [r for r in ran if case_failed(r)]
        for r in failed:
            print("REPLAY-FAILS: pred=%s disagree=%s" % (r.get("pred"), r.get("disagree")))
        if not descs:
            print("replay names a broken obligation: proof_ok=%s failed_theorem=%s" % (proof_ok, proof.get("failed_theorem")))
            return 0 if proof_ok else 1
        if not failed:
            print("replay passes on the current tree")
        return 1 if failed else 0

    # 3. corpus, then generated stream
    rng = random.Random((seed * 1000003) ^ int(hashlib.sha1(pid.encode()).hexdigest()[:8], 16))
    descs = []
    cdir = os.path.join(VERIF, "corpus", pid)
    if os.path.isdir(cdir):
        for fn in sorted(os.listdir(cdir)):
            if fn.endswith(".json"):
                descs.append(json.load(open(os.path.join(cdir, fn))))
    n_corpus = len(descs)
    descs.extend(mod.gen(rng, tier))
    ran = evaluate_cases(mod, descs)

    feats = {}
    distinct = set()
    for r in ran:
        fs = r.get("features") or []
        for f in fs:
            feats[f] = feats.get(f, 0) + 1
        if fs and "trivial" not in fs:
            distinct.add(hashlib.sha1(json.dumps(jsonable(r["desc"]), sort_keys=True, default=str).encode()).hexdigest())

    extra_results = []
    if hasattr(mod, "extra"):
        try:
            extra_results = list(mod.extra(tier))
        except Exception as e:
            extra_results = [("extra-checks", False, "raised %s: %s" % (type(e).__name__, e))]

    # 4. classify
    failing = [r for r in ran if case_failed(r)]
    pred_fail = [r for r in failing if r.get("pred")]
    corr_only = [r for r in failing if not r.get("pred")]
    deadline = time.time() + (60 if tier == "quick" else 300)
    reported_sigs = set()

    def sig_of(r):
        if hasattr(mod, "signature"):
            try:
                return mod.signature(r["desc"], r)
            except Exception:
                return None
        return None

    for r in pred_fail:
        s = sig_of(r)
        if s is not None and s in known_sigs:
            if s not in reported_sigs:
                reported_sigs.add(s)
                known_lines.append("KNOWN-FINDING: property=%s %s" % (pid, known_sigs[s]["what_fails"]))
            continue
        key = ("pred", s if s is not None else r.get("desc", {}).get("kind"))
        if key in reported_sigs:
            continue
        reported_sigs.add(key)
        r = shrink_case(mod, r, deadline)
        p = write_replay(pid, dict(kind="counterexample", case=jsonable(r["desc"]), wire=sexp_dumps(r["wire"]) if r.get("wire") is not None else None,
                                   impl_output=jsonable(canon(r.get("impl"))), model_output=jsonable(r.get("model")),
                                   predicate_failed=r.get("pred"), disagreement=r.get("disagree"), seed=seed, signature=s))
        violations.append((p, ""))
    if corr_only:
        # correspondence broke but the property predicate held on those inputs: look for a
        # failing input among everything explored (done above: pred evaluated on every case).
        byk = {}
        for r in corr_only:
            byk.setdefault(r["desc"].get("kind") if isinstance(r["desc"], dict) else "case", []).append(r)
        for kind, rs in byk.items():
            r = shrink_case(mod, rs[0], deadline)
            found_elsewhere = bool(violations)
            p = write_replay(pid, dict(kind="correspondence-only", theorem_or_check="correspondence %s/%s" % (pid, kind),
                                       case=jsonable(r["desc"]), wire=sexp_dumps(r["wire"]) if r.get("wire") is not None else None,
                                       impl_output=jsonable(canon(r.get("impl"))), model_output=jsonable(r.get("model")),
                                       disagreement=r.get("disagree"), n_disagreeing=len(rs), seed=seed))
            violations.append((p, "" if found_elsewhere else " no-failing-input-found"))
    for name, ok, detail in extra_results:
        if not ok:
            p = write_replay(pid, dict(kind="extra-check", theorem_or_check=name, case=None, detail=detail, seed=seed))
            violations.append((p, " no-failing-input-found"))
    if not proof_ok:
        refused = refusals_for(pid)
        what = "Props/%s.v theorem %s" % (pid, proof.get("failed_theorem"))
        if refused:
            what += "; source no longer translatable: " + "; ".join("Generated/%s: %s" % kv for kv in sorted(refused.items()))
        p = write_replay(pid, dict(kind="broken-obligation", case=None,
                                   theorem_or_check=what, translation_refused=refused,
                                   hygiene=bad, coqc_output=proof.get("output", "")[-3000:], make_output=build_out[-3000:], seed=seed))
        violations.append((p, "" if pred_fail and violations else " no-failing-input-found"))

    # known findings that are listed must still reproduce through their stored witness
    for s, k in known_sigs.items():
        if s in reported_sigs:
            continue
        if k.get("witness") is not None:
            try:
                r = evaluate_cases(mod, [k["witness"]])[0]
                if r.get("pred") and sig_of(r) == s:
                    known_lines.append("KNOWN-FINDING: property=%s %s" % (pid, k["what_fails"]))
            except Exception:
                pass

    # 5. evidence
    samples = []
    seen_kinds = set()
    for r in ran:
        k = r["desc"].get("kind") if isinstance(r["desc"], dict) else None
        if k not in seen_kinds and r.get("wire") is not None:
            seen_kinds.add(k)
            samples.append(dict(case=jsonable(r["desc"]), wire=sexp_dumps(r["wire"])[:600],
                                model=short(r.get("model"), 300), impl=short(canon(r.get("impl")), 300)))
    trusted = list(getattr(mod, "TRUSTED", []))
    trusted += [
        "Coq 8.16.1 kernel via coqc (full .vo build; vm_compute used for Examples/finite sweeps; no native_compute)",
        "axioms reported by Print Assumptions for this property's theorems: %s" % (", ".join(own_axioms) if own_axioms else "none (closed under the global context)"),
        "extraction: ExtrOcamlBasic + ExtrOcamlZBigInt (stdlib directives verbatim), OCaml 4.13.1 + zarith 1.12, driver/main.ml.in (s-expression I/O, libm oracles)",
        "correspondence harness harness/%s.py + harness/common.py (generators, canonicalisation, comparison)" % pid.lower(),
    ]
    links = sorted(t["name"] for t in proof["theorems"] if "model_is_source" in t["name"] or "_source_" in t["name"])
    if links:
        try:
            import src_functions
            import re as _re
            props_txt = open(os.path.join(VERIF, "coq", "theories", "Props", pid + ".v")).read()
            cfgs = [c for c in src_functions.ALL if _re.search(r"(?<![A-Za-z0-9_'])" + _re.escape(c["name"]) + r"(?![A-Za-z0-9_'])", props_txt)]
            funcs = sorted({("%s.%s" % (c["cls"], c["func"]) if c.get("cls") else c["func"]) for c in cfgs})
            nprims = sum(len(c.get("prims", [])) + len(c.get("effects", [])) + len(c.get("effect_calls", [])) + len(c.get("stmt_prims", []))
                         + len(c.get("state_calls", [])) + len(c.get("kwcalls", [])) for c in cfgs)
        except Exception:   # noqa: BLE001 - descriptive text only
            funcs, nprims = [], 0
        trusted.append("the Gallina model is hand-written; it is tied to /repo (a) by the source-translation links %s: %d function(s) re-translated from "
                       "/repo's current source on this run by harness/py2gal.py%s - trusted there: the translator, Lib/PyRt.v as the meaning of the Python "
                       "constructs, and the %d primitive / effect templates of their configurations in harness/src_functions.py; (b) by the correspondence cases of this run"
                       % (", ".join(links[:6]) + (" ..." if len(links) > 6 else ""), len(funcs), (" (" + ", ".join(funcs[:12]) + (" ..." if len(funcs) > 12 else "") + ")") if funcs else "", nprims))
    else:
        trusted.append("the Gallina model is hand-written; it is tied to /repo only by the correspondence cases of this run")
    ev = dict(
        property_id=pid, tier=tier, seed=seed, level=getattr(mod, "LEVEL", "proof"),
        coverage=dict(
            obligations=proof["obligations"], discharged=proof["discharged"],
            checker_cmd="cd /verif/coq && make (coq_makefile, full .vo) && coqc -Q theories Batchie theories/Props/%s.v" % pid,
            trusted_base=trusted,
            theorems=[dict(name=t["name"], axioms=t["axioms"], meaning=getattr(mod, "THEOREMS", {}).get(t["name"], "")) for t in proof["theorems"]],
            hygiene_violations=bad, coqchk=chk,
            evaluations=len(ran), corpus_cases=n_corpus, distinct_nontrivial=len(distinct),
            rule=getattr(mod, "RULE", ""), feature_histogram=feats, samples=samples[:6],
            correspondence_disagreements=len(corr_only), predicate_failures=len(pred_fail),
            extra_checks=[dict(name=n, ok=o, detail=str(d)[:500]) for n, o, d in extra_results],
            explanation=getattr(mod, "EXPLANATION", ""),
            known_findings_reported=known_lines,
        ),
        assumptions=list(getattr(mod, "ASSUMPTIONS", [])),
        wall_s=round(time.time() - t0, 2), violations=len(violations),
    )
    # evidence/<ID>.json describes runs against /repo itself; a run pointed at another tree (VERIF_REPO, used to try
    # seeded changes without touching /repo) writes to .work/evidence-other instead, so committed evidence is never
    # the record of a run on a modified tree
    evdir = os.path.join(VERIF, "evidence") if os.path.realpath(os.environ.get("VERIF_REPO", "/repo")) == "/repo" \
        else os.path.join(WORK, "evidence-other")
    os.makedirs(evdir, exist_ok=True)
    with open(os.path.join(evdir, pid + ".json"), "w") as f:
        json.dump(ev, f, indent=1, default=str)

    for ln in known_lines:
        print(ln)
    print("%s %s: theorems %d/%d, cases %d (distinct non-trivial %d), disagreements %d, predicate failures %d, %.1fs"
          % (pid, tier, proof["discharged"], proof["obligations"], len(ran), len(distinct), len(corr_only), len(pred_fail), time.time() - t0))
    for p, suffix in violations:
        print("VIOLATION property=%s replay=%s%s" % (pid, p, suffix))
    return 1 if violations else 0
