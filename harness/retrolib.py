"""Shared harness code of C11 and C13 (retrospective generators / smoothers / hold-out).

Case description (JSON-able):
  dict(kind=..., screen=<screenlib description>, seed=int, + per-kind parameters)
  kinds: "gen" (cls perm|ss|pairwise), "smooth" (cls mergemin|mergetb|fixed|optimal|nplate|ensemble),
         "holdout", "rholdout", "sparse", "filter"
Every random draw of the implementation is recorded (RecRng) together with every heapq.heappop answer and
the np.argsort answer inside retrospective.py, in call order; the record is the model's oracle input.
"""
import heapq as _heapq
import json
import math
import sys
from collections import Counter
from fractions import Fraction
from unittest import mock

import numpy as np

import logging

import common

logging.getLogger("batchie").setLevel(logging.ERROR)
import screenlib
from common import ImplError, s2l

# ----------------------------------------------------------------------------- recording


class Rec:
    def __init__(self):
        self.draws = []       # wire draws
        self.sizes = []       # size argument of every choice call
        self.contract = []    # contract violations of the libraries (numpy / heapq)
        self.misuse = []      # library answers that break their contract only because the caller broke a precondition

    def add(self, arr):
        a = np.asarray(arr)
        if a.dtype.kind in "US":
            self.draws.append([1, [s2l(str(x)) for x in a.reshape(-1).tolist()]])
        else:
            self.draws.append([0, [int(x) for x in a.reshape(-1).tolist()]])


class RecRng:
    """wraps a numpy Generator; records choice/permutation/shuffle/integers/random"""

    def __init__(self, seed, rec):
        self._g = np.random.default_rng(seed)
        self._rec = rec

    def permutation(self, x, *a, **k):
        r = self._g.permutation(x, *a, **k)
        if sorted(np.asarray(x).reshape(-1).tolist()) != sorted(np.asarray(r).reshape(-1).tolist()):
            self._rec.contract.append("permutation(l) is not a permutation of l")
        self._rec.add(r)
        return r

    def choice(self, a, size=None, replace=True, *rest, **k):
        pool = list(a) if isinstance(a, range) else np.asarray(a).reshape(-1).tolist()
        r = self._g.choice(a, size, replace, *rest, **k)
        out = np.asarray(r).reshape(-1).tolist()
        self._rec.sizes.append(None if size is None else int(size))
        if any(x not in pool for x in out):
            self._rec.contract.append("choice answered outside the array")
        if size is not None and len(out) != int(size):
            self._rec.contract.append("choice answered %d values for size %r" % (len(out), size))
        if not replace and len(set(out)) != len(out):
            self._rec.contract.append("choice(replace=False) answered a duplicate")
        self._rec.add(r)
        return r

    def shuffle(self, x, *a, **k):
        before = sorted(np.asarray(x).reshape(-1).tolist())
        self._g.shuffle(x, *a, **k)
        if before != sorted(np.asarray(x).reshape(-1).tolist()):
            self._rec.contract.append("shuffle is not a permutation")
        self._rec.add(x)

    def integers(self, *a, **k):
        r = self._g.integers(*a, **k)
        self._rec.add(r)
        return r

    def random(self, *a, **k):
        raise RuntimeError("rng.random is not used by the modelled code; the model has no oracle for it")


class HeapRec:
    """stands in for the heapq module inside batchie.retrospective: the answer of each heappop is
    recorded as the index of the returned plate in the list of plates currently in the heap
    (initial list order, pushes appended)"""

    def __init__(self, rec):
        self._rec = rec
        self._shadow = []

    def heapify(self, h):
        self._shadow = list(h)
        _heapq.heapify(h)

    def heappop(self, h):
        x = _heapq.heappop(h)
        i = [k for k, y in enumerate(self._shadow) if y is x][0]
        if any(y.size < x.size for y in self._shadow):
            # heapq itself is deterministic and correct: this can only happen when the CALLER broke the heap
            # invariant (e.g. grew an item in place).  Not a library-contract failure of the harness: the run
            # goes on, the model refuses the answer (Err 93) and the property predicate judges the output.
            self._rec.misuse.append("heappop did not return a smallest item (heap invariant broken by the caller)")
        self._rec.draws.append([0, [i]])
        del self._shadow[i]
        return x

    def heappush(self, h, x):
        _heapq.heappush(h, x)
        self._shadow.append(x)


def recording(rec):
    """context manager: heapq and np.argsort calls made from retrospective.py are recorded"""
    from batchie import retrospective as R

    real_argsort = np.argsort

    def argsort(a, *args, **kw):
        r = real_argsort(a, *args, **kw)
        if sys._getframe(1).f_code.co_filename.endswith("retrospective.py"):
            av = np.asarray(a).tolist()
            rv = [int(x) for x in r.tolist()]
            if sorted(rv) != list(range(len(av))) or any(av[rv[i]] > av[rv[i + 1]] for i in range(len(rv) - 1)):
                rec.contract.append("argsort answer is not a sorting permutation")
            rec.add(r)
        return r

    class _Ctx:
        def __enter__(self):
            self.p1 = mock.patch.object(R, "heapq", HeapRec(rec))
            self.p2 = mock.patch.object(np, "argsort", argsort)
            self.p1.__enter__()
            self.p2.__enter__()

        def __exit__(self, *a):
            self.p2.__exit__(*a)
            self.p1.__exit__(*a)

    return _Ctx()


# ----------------------------------------------------------------------------- rows


def key(r):
    return json.dumps(r)


def strip(r):
    """row minus plate label"""
    return key([r[0], r[2], r[3], r[4]])


def nomask(r):
    return key([r[0], r[1], r[2], r[3]])


def unobs(rows):
    return [r for r in rows if not r[4]]


def obsd(rows):
    return [r for r in rows if r[4]]


def plates_of(rows):
    """plate name (as tuple) -> rows, unobserved rows only"""
    d = {}
    for r in unobs(rows):
        d.setdefault(tuple(r[1]), []).append(r)
    return d


def sname(r):
    return tuple(r[0])


def tids(r, ctrl):
    """treatment ids as the code compares them: None = control"""
    c = s2l(ctrl)
    return [None if (t[1] <= 0 or t[0] == c) else (tuple(t[0]), t[1]) for t in r[2]]


# ----------------------------------------------------------------------------- running the implementation


def make_gen(desc):
    from batchie import retrospective as R

    c, p = desc["cls"], desc["params"]
    if c == "perm":
        return R.PlatePermutationPlateGenerator(force_include_plate_names=p["force"])
    if c == "ss":
        return R.SampleSegregatingPermutationPlateGenerator(max_plate_size=p["max"])
    if c == "pairwise":
        return R.PairwisePlateGenerator(subset_size=p["subset"], anchor_size=p["anchor"])
    raise ValueError(c)


def make_smoother(desc):
    from batchie import retrospective as R

    c, p = desc["cls"], desc["params"]
    if c == "mergemin":
        return R.MergeMinPlateSmoother(min_size=p["min_size"])
    if c == "mergetb":
        return R.MergeTopBottomPlateSmoother(n_iterations=p["n_iter"])
    if c == "fixed":
        return R.FixedSizeSmoother(plate_size=p["size"])
    if c == "optimal":
        return R.OptimalSizeSmoother()
    if c == "nplate":
        return R.NPlatePerCellLineSmoother(min_n_cell_line_plates=p["min_plates"])
    if c == "ensemble":
        return R.BatchieEnsemblePlateSmoother(min_size=p["min_size"], n_iterations=p["n_iter"], min_n_cell_line_plates=p["min_plates"])
    raise ValueError(c)


_VARIANT = {}


def variant(which):
    """which logic does /repo contain now: False = as found (defect present), True = repaired.
    Decided once per run by replaying the canonical witness on the real code."""
    if which in _VARIANT:
        return _VARIANT[which]
    from batchie import retrospective as R

    def scr(samples, plates):
        n = len(samples)
        return screenlib.build(dict(rows=[dict(s=s, p=p, t=[["a", 1.0], ["b", 1.0]], o=0.5, m=False) for s, p in zip(samples, plates)],
                                    arity=2, ctrl="", obs_given=True, mask_given=True))

    rng = np.random.default_rng(0)
    if which == "ss":
        o = R.SampleSegregatingPermutationPlateGenerator(3).generate_plates(scr("AABBB", ["p"] * 5), rng)
        _VARIANT[which] = len(set(o.plate_names.tolist())) > 1
    else:
        o = R.NPlatePerCellLineSmoother(2).smooth_plates(scr("ABBBC", ["p1", "p2", "p3", "p4", "p5"]), rng)
        _VARIANT[which] = "C" not in o.sample_names.tolist()
    return _VARIANT[which]


def wire_gen(desc):
    c, p = desc["cls"], desc["params"]
    if c == "perm":
        return [0, [s2l(x) for x in (p["force"] or [])]]
    if c == "ss":
        return [1, variant("ss"), p["max"]]
    return [2, s2l(desc["screen"]["ctrl"]), p["subset"], p["anchor"]]


def wire_smoother(desc):
    c, p = desc["cls"], desc["params"]
    if c == "mergemin":
        return [0, p["min_size"]]
    if c == "mergetb":
        return [1, p["n_iter"]]
    if c == "fixed":
        return [2, p["size"]]
    if c == "optimal":
        return [3]
    if c == "nplate":
        return [4, variant("np"), p["min_plates"]]
    return [5, variant("np"), p["min_size"], p["n_iter"], p["min_plates"]]


def dyadic(x):
    f = Fraction(x)
    return f.denominator <= 1024


def build_sd(sd):
    """the real constructor on the description; with sd["supermap"] the screen is given the treatment / sample mappings of a
    larger screen (one more sample, one more treatment: what a hold-out half or a reloaded screen carries), so that every
    Screen(..., treatment_mapping=, sample_mapping=) call of the code under test runs the encoders' existing-mapping branch"""
    if not sd.get("supermap") or not sd["rows"]:
        return screenlib.build(sd)
    from batchie.data import Screen

    extra = dict(s="zz_extra", p="zz_plate", t=[["zz", 9.0]] * sd["arity"], o=0.5, m=True)
    uni = screenlib.build(dict(sd, rows=list(sd["rows"]) + [extra]))
    tn, td, sn, pn, obs, mask = screenlib.arrays(sd)
    return Screen(treatment_names=tn, treatment_doses=td, sample_names=sn, plate_names=pn, control_treatment_name=sd["ctrl"], observations=obs,
                  observation_mask=mask, treatment_mapping=uni.treatment_mapping, sample_mapping=uni.sample_mapping)


def execute(desc):
    """run the implementation; returns dict(wire, impl, inp=<canonical input rows or None>, rec, cmp)"""
    from batchie import retrospective as R
    from batchie.data import filter_dataset_to_treatments_that_appear_in_at_least_one_combo as combo_filter

    sd = desc["screen"]
    rows_w = [screenlib.wire_row(r) for r in sd["rows"]]
    rec = Rec()
    rng = RecRng(desc.get("seed", 0), rec)
    k = desc["kind"]
    built = common.impl_call(build_sd, sd)
    if isinstance(built, ImplError):
        inp = None
    else:
        inp = screenlib.canon_rows(built)
        if inp != rows_w:
            raise RuntimeError("harness: constructed screen differs from its description")

    def rows_left(m, i):
        if m[1] != 0:
            return "model left %d oracle answers unused" % m[1]
        return None if m[0] == i else "rows differ: model %s impl %s" % (common.short(m[0]), common.short(i))

    def split_left(m, i):
        if m[2] != 0:
            return "model left %d oracle answers unused" % m[2]
        return None if [m[0], m[1]] == i else "split differs: model %s impl %s" % (common.short(m[:2]), common.short(i))

    cmpf = common.cmp_result(rows_left)
    if isinstance(built, ImplError):
        impl = built
    else:
        with recording(rec):
            if k == "gen":
                impl = common.impl_call(lambda: screenlib.canon_rows(make_gen(desc).generate_plates(built, rng)))
            elif k == "smooth":
                impl = common.impl_call(lambda: screenlib.canon_rows(make_smoother(desc).smooth_plates(built, rng)))
            elif k in ("holdout", "rholdout"):
                f = R.create_plate_balanced_holdout_set_among_masked_plates if k == "holdout" else R.create_random_holdout
                impl = common.impl_call(lambda: [screenlib.canon_rows(x) for x in f(built, desc["fraction"], rng)])
            elif k == "sparse":
                impl = common.impl_call(lambda: screenlib.canon_rows(
                    R.SparseCoverPlateGenerator(desc["reveal"]).generate_and_unmask_initial_plate(built, rng)))
            elif k == "filter":
                impl = common.impl_call(lambda: screenlib.canon_rows(combo_filter(built)))
            else:
                raise ValueError(k)
    if k == "gen":
        wire = [0, rows_w, wire_gen(desc), rec.draws]
    elif k == "smooth":
        wire = [1, rows_w, wire_smoother(desc), rec.draws]
    elif k in ("holdout", "rholdout"):
        fr = Fraction(desc["fraction"])
        exact = dyadic(desc["fraction"])
        if k == "holdout":
            counts = [] if exact else [[int(x) for x in rec.sizes]]
        else:
            counts = [] if (exact or not rec.sizes) else [int(rec.sizes[0])]
        wire = [2 if k == "holdout" else 3, rows_w, fr.numerator, fr.denominator, counts, rec.draws]
        cmpf = common.cmp_result(split_left)
    elif k == "sparse":
        wire = [4, rows_w, s2l(sd["ctrl"]), bool(desc["reveal"]), rec.draws]
    else:
        wire = [5, rows_w, s2l(sd["ctrl"]), sd["arity"]]
        cmpf = common.cmp_result()
    if rec.contract and not isinstance(impl, ImplError):
        raise RuntimeError("library contract violated: %r" % (rec.contract,))
    impure = None
    if inp is not None:
        # purity: the caller's screen is as it was (rows, plate labels, mask, values, order) - an operation that returns the right
        # screen but relabels / reorders / re-masks the screen it was GIVEN has altered experiments the caller still holds
        after = common.impl_call(screenlib.canon_rows, built)
        if after != inp:
            impure = "input-screen-mutated: the screen handed to the operation changed in place: %s -> %s" % (common.short(inp, 160), common.short(after, 160))
    return dict(wire=wire, impl=impl, inp=inp, rec=rec, cmp=cmpf, impure=impure)


# ----------------------------------------------------------------------------- C11 predicates (on the implementation)


def multiset(xs):
    return Counter(xs)


def ceil_ok(n, fr, got):
    """is `got` the number ceil(fraction x size)?  The exact value is the ceiling of the rational product (the fraction being the
    double given); the implementation multiplies in floating point, which differs from the exact product only by rounding TO an
    integer k that the exact product exceeds by less than an ulp (0.1 x 10): then k - the ceiling for the decimal the user wrote -
    is accepted as well.  Nothing here is computed the way the implementation computes it except that one float product."""
    exact = math.ceil(Fraction(fr) * n)
    if got == exact:
        return True
    prod = n * fr
    return got == exact - 1 and prod == int(prod) and int(prod) == got


def pred_conserve(desc, inp, out):
    k = desc["kind"]
    if k in ("gen", "smooth"):
        if obsd(out) != obsd(inp):
            return "observed part changed: %s -> %s" % (common.short(obsd(inp), 200), common.short(obsd(out), 200))
        n_un = len(out) - len(obsd(out))
        if unobs(out) != out[:n_un]:
            pass  # order of the two parts is not part of the property
        a, b = multiset(map(strip, unobs(out))), multiset(map(strip, unobs(inp)))
        if k == "gen" and a != b:
            return "generator output is not a permutation of the unobserved input experiments (minus plate label)"
        if k == "smooth" and (a - b):
            return "smoother output is not a sub-collection of the unobserved input experiments: extra %s" % (common.short(list((a - b).elements()), 200),)
        return None
    if k in ("holdout", "rholdout"):
        train, held = out
        if any(not r[4] for r in held):
            return "hold-out is not marked fully observed"
        if multiset(map(nomask, train + held)) != multiset(map(nomask, inp)):
            return "train + hold-out is not the input as a multiset (plate labels included)"
        if multiset(map(key, train)) - multiset(map(key, inp)):
            return "training mask changed"
        fr = desc["fraction"]
        if k == "holdout":
            obs_pl = {tuple(r[1]) for r in inp if r[4]}
            if any(tuple(r[1]) in obs_pl for r in held):
                return "hold-out row drawn from an observed plate"
            hc = Counter(tuple(r[1]) for r in held)
            for p, rs in plates_of(inp).items():
                want = math.ceil(len(rs) * fr)
                if dyadic(fr) and want != math.ceil(Fraction(len(rs)) * Fraction(fr)):
                    return "float product not exact for a dyadic fraction (harness assumption)"
                if 0 <= fr <= 1 and not ceil_ok(len(rs), fr, hc.get(p, 0)):
                    return "plate %r of size %d: %d held out, expected ceil(%r x size) = %d (exact rational ceiling)" % (
                        common.l2s(p), len(rs), hc.get(p, 0), fr, math.ceil(Fraction(fr) * len(rs)))
                if not (0 <= fr <= 1) and hc.get(p, 0) != want:
                    return "plate %r of size %d: %d held out, expected ceil(%r*size)=%d" % (common.l2s(p), len(rs), hc.get(p, 0), fr, want)
            if sum(hc.values()) != sum(hc.get(p, 0) for p in plates_of(inp)):
                return "hold-out rows from a plate that is not an unobserved input plate"
        else:
            if (not ceil_ok(len(inp), fr, len(held))) if 0 <= fr <= 1 else (len(held) != math.ceil(len(inp) * fr)):
                return "random hold-out has %d rows, expected ceil(%r x %d) = %d" % (len(held), fr, len(inp), math.ceil(Fraction(fr) * len(inp)))
        return None
    if k == "sparse":
        if [nomask(r[:1] + [[]] + r[2:]) for r in out] != [nomask(r[:1] + [[]] + r[2:]) for r in inp]:
            return "initial-plate generator altered an experiment"
        return None
    if k == "filter":
        if multiset(map(key, out)) - multiset(map(key, inp)):
            return "filter output is not a sub-collection of the input"
        return None
    return None


# ----------------------------------------------------------------------------- C13 predicates (on the implementation)


def single_sample_violation(out):
    for p, rs in plates_of(out).items():
        if len({sname(r) for r in rs}) > 1:
            return p, rs
    return None


def sample_plate_counts(rows):
    d = {}
    for p, rs in plates_of(rows).items():
        for r in rs:
            d.setdefault(sname(r), set()).add(p)
    return {s: len(ps) for s, ps in d.items()}


def ensemble_stage_input(desc):
    """input of the NPlatePerCellLine stage of the ensemble: the first three stages re-run on the real code, same seed"""
    from batchie import retrospective as R

    p = desc["params"]
    rng = np.random.default_rng(desc.get("seed", 0))
    s = screenlib.build(desc["screen"])
    s = R.MergeMinPlateSmoother(min_size=p["min_size"]).smooth_plates(s.subset_unobserved().to_screen(), rng)
    s = R.MergeTopBottomPlateSmoother(n_iterations=p["n_iter"]).smooth_plates(s, rng)
    s = R.OptimalSizeSmoother().smooth_plates(s, rng)
    return screenlib.canon_rows(s)


def pred_shape(desc, inp, out):
    """returns None or 'tag: detail'; the tag (before the colon) is the signature"""
    k = desc["kind"]
    if k == "gen" and desc["cls"] == "ss":
        mx = desc["params"]["max"]
        per_sample = Counter(sname(r) for r in unobs(inp))
        for p, rs in plates_of(out).items():
            ss = {sname(r) for r in rs}
            bad = None
            if len(ss) > 1:
                bad = "unobserved plate %r holds %d samples" % (common.l2s(p), len(ss))
            elif len(rs) > mx:
                bad = "unobserved plate %r holds %d > max %d experiments" % (common.l2s(p), len(rs), mx)
            if bad:
                if p == () and all(per_sample[s] <= mx for s in ss):
                    return "sample-segregating-lumps-small-samples: " + bad
                return ("sample-segregating-multi-sample-plate: " if len(ss) > 1 else "sample-segregating-plate-exceeds-max: ") + bad
        return None
    if k == "gen" and desc["cls"] == "pairwise":
        v = single_sample_violation(out)
        if v:
            return "pairwise-multi-sample-plate: unobserved plate %r holds several samples" % (common.l2s(v[0]),)
        return None
    if k == "sparse":
        ctrl = desc["screen"]["ctrl"]
        ob = obsd(out)
        if {sname(r) for r in inp} - {sname(r) for r in ob}:
            return "sparse-cover-sample-not-covered: a sample has no observed experiment"
        need = {t for r in inp for t in tids(r, ctrl)}
        have = {t for r in ob for t in tids(r, ctrl)}
        if need - have:
            return "sparse-cover-treatment-not-covered: %r" % (list(need - have)[:3],)
        if len(plates_of(out)) > 1:
            return "sparse-cover-several-unobserved-plates: %d" % len(plates_of(out))
        return None
    if k == "filter":
        ctrl = desc["screen"]["ctrl"]
        full = [r for r in inp if all(t is not None for t in tids(r, ctrl))]
        sel = {t for r in full for t in tids(r, ctrl)}
        want = [r for r in inp if all(t is None or t in sel for t in tids(r, ctrl))]
        if out != want:
            return "combination-filter-wrong-rows: kept %d rows, expected %d" % (len(out), len(want))
        return None
    if k == "smooth":
        c, p = desc["cls"], desc["params"]
        sizes_in = sorted(len(rs) for rs in plates_of(inp).values())
        sizes_out = sorted(len(rs) for rs in plates_of(out).values())
        if c in ("fixed", "optimal", "ensemble"):
            if len(set(sizes_out)) > 1:
                return "%s-size-not-common: unobserved plate sizes %r" % (c, sizes_out)
        if c == "fixed" and sizes_out and sizes_out[0] != p["size"]:
            return "fixed-size-wrong-size: %r" % (sizes_out,)
        if c == "fixed" and len(sizes_out) != (sum(1 for s in sizes_in if s >= p["size"]) if p["size"] > 0 else 0):
            return "fixed-size-wrong-plate-count: %r from %r" % (sizes_out, sizes_in)
        if c == "optimal":
            best = max([s * sum(1 for x in sizes_in if x >= s) for s in range(0, (max(sizes_in) if sizes_in else 0) + 1)] + [0])
            if sum(sizes_out) != best:
                return "optimal-size-not-optimal: retains %d experiments, best common size retains %d" % (sum(sizes_out), best)
        if c in ("nplate", "ensemble"):
            cnt = sample_plate_counts(out)
            low = [s for s, n in cnt.items() if n < p["min_plates"]]
            if low:
                stage_in = inp if c == "nplate" else ensemble_stage_input(desc)
                n_low_in = sum(1 for n in sample_plate_counts(stage_in).values() if n < p["min_plates"])
                tag = "nplate-stale-sample-ids" if n_low_in >= 2 else "nplate-sample-below-minimum"
                return "%s: sample %r keeps %d < %d unobserved plates" % (tag, common.l2s(low[0]), cnt[low[0]], p["min_plates"])
        if c in ("mergemin", "mergetb"):
            # rows that shared a plate still share one; plates merged together hold one sample
            lab, grp = {}, {}
            for ri, ro in zip(unobs(inp), unobs(out)):
                if strip(ri) != strip(ro):
                    return "merge-altered-experiment: merge smoother altered or reordered an experiment"
                if lab.setdefault(tuple(ri[1]), tuple(ro[1])) != tuple(ro[1]):
                    return "merge-split-plate: an input plate was split"
                grp.setdefault(tuple(ro[1]), []).append(ri)
            for po, rs in grp.items():
                if len({tuple(r[1]) for r in rs}) > 1 and len({sname(r) for r in rs}) > 1:
                    return "merge-across-samples: plates of different samples were merged into %r" % (common.l2s(po),)
        if c == "mergemin":
            ms = p["min_size"]
            by = {}
            for pl, rs in plates_of(out).items():
                by.setdefault(sname(rs[0]), []).append(len(rs))
            for s, szs in by.items():
                szs.sort()
                if len(szs) >= 2 and szs[0] + szs[1] <= ms:
                    return "mergemin-stopped-early: sample %r keeps plates of sizes %r with min_size %d" % (common.l2s(s), szs[:2], ms)
            byi = {}
            for pl, rs in plates_of(inp).items():
                byi.setdefault(sname(rs[0]), []).append(len(rs))
            if all(len(z) < 2 or sorted(z)[0] + sorted(z)[1] > ms for z in byi.values()) and unobs(out) != unobs(inp):
                return "mergemin-merged-beyond-stop: merged although every sample already met the stop rule"
        if c == "mergemin":
            # "stops EXACTLY when the two smallest together exceed min_size", per sample and per step: the sizes are all the rule
            # reads, and whichever of several equally small plates is taken the multiset of sizes after each merge is the same,
            # so the plate sizes of every sample must be the replay of the rule on its input sizes
            for s, szs_in in byi.items():
                h = sorted(szs_in)
                while len(h) >= 2 and h[0] + h[1] <= ms:
                    h = sorted([h[0] + h[1]] + h[2:])
                if sorted(by.get(s, [])) != h:
                    return "mergemin-not-exact-stop: sample %r: plate sizes %r became %r, merging the two smallest while they sum to <= %d gives %r" % (
                        common.l2s(s), sorted(szs_in), sorted(by.get(s, [])), ms, h)
        if c == "mergetb":
            ci, co = sample_plate_counts(inp), sample_plate_counts(out)
            for s, n in ci.items():
                for _ in range(max(0, p["n_iter"])):
                    n = (n + 1) // 2
                if co.get(s, 0) != n:
                    return "topbottom-not-halving: sample %r has %d plates, expected %d" % (common.l2s(s), co.get(s, 0), n)
        return None
    return None


def tag_of(pred):
    return pred.split(":")[0] if pred else None


# ----------------------------------------------------------------------------- generators of cases

SAMPLES = ["A", "B", "C", "é", "", "b", "AA"]
TNAMES = ["a", "b", "c", "d", "e", "é"]
OBS_PLATES = ["obs", "", "generated_plate_0", "generated_plate_1", "p0", "initial_plate"]


def gen_screen(rng, style=None, all_observed=False, arity=None, n_treat=None):
    """screens with duplicate conditions, single-agent rows, 1-5 unobserved plates of any sizes,
    an observed part, several samples with few experiments each"""
    style = style or rng.choice(["one_sample_plates", "one_sample_plates", "mixed", "single_plate", "many_plates"])
    ctrl = rng.choice(["", "", "control"])
    arity = arity or rng.choice([1, 2, 2, 2, 2, 3])
    samples = rng.sample(SAMPLES, rng.choice([1, 2, 3, 4, 1, 2, 3, 4, 5, 7]))
    special = rng.random() < 0.1        # NaN / inf / -0.0 / subnormal / float32-rounded observation values
    supermap = rng.random() < 0.2       # the screen carries mappings of a larger universe (retrolib.build_sd)
    tn = rng.sample(TNAMES, n_treat or rng.randint(1, 4))
    doses = rng.sample([0.5, 1.0, 2.0, 3.0], rng.randint(1, 2))
    rows = []
    counter = [0]

    def mk(s, p, m):
        t = []
        for _ in range(arity):
            if rng.random() < 0.2:
                t.append([ctrl, 0.0] if rng.random() < 0.5 else [rng.choice(tn), rng.choice([0.0, -0.0, -1.0])])
            else:
                t.append([rng.choice(tn), rng.choice(doses)])
        counter[0] += 1
        o = counter[0] / 64.0 if rng.random() < 0.85 else 0.25
        if special and rng.random() < 0.5:
            o = rng.choice([float("nan"), float("inf"), -0.0, 5e-324, 0.10000000149011612, 0.0, -1.5])
        return dict(s=s, p=p, t=t, o=o, m=m)

    n_pl = rng.choice([1, 1, 2, 3, 3, 4, 5, 6])
    if style == "single_plate":
        n_pl = 1
    if style == "big_plates":
        n_pl = rng.choice([1, 2, 2, 3])
    if style == "many_plates":
        # one or two samples with many small single-sample plates (heap / pairing logic of the merge smoothers
        # and odd plate counts over several top-bottom iterations only show with >= 4 plates of one sample)
        n_pl = rng.randint(4, 11)
        samples = samples[:rng.choice([1, 1, 2])]
    for j in range(n_pl):
        p = "p%d" % j if rng.random() < 0.9 else rng.choice(["", "é", "generated_plate_%d" % j])
        if any(r["p"] == p for r in rows):
            p = "q%d" % j
        sz = rng.choice([1, 1, 2, 2, 3, 4, 5, 7]) if style != "many_plates" else rng.choice([1, 1, 1, 2, 2, 3])
        if style == "big_plates":           # sizes at which float and exact ceil(fraction x size) part ways (0.1 x 10, 0.3 x 10, 0.7 x 30 ...)
            sz = rng.choice([10, 10, 20, 30, 9, 11])
        ps = rng.choice(samples)
        for _ in range(sz):
            s = ps if style in ("one_sample_plates", "many_plates") else rng.choice(samples)
            rows.append(mk(s, p, False))
    if rng.random() < 0.15:      # duplicate a row exactly (duplicate condition and value)
        rows.append(dict(rng.choice(rows)))
    if rng.random() < 0.5 or all_observed:
        for p in rng.sample(OBS_PLATES, rng.randint(1, 2)):
            if any(r["p"] == p for r in rows):
                continue
            for _ in range(rng.randint(1, 3)):
                rows.append(mk(rng.choice(samples + ["Z"]), p, True))
    if rng.random() < 0.08:
        rows = [r for r in rows if r["m"]]          # nothing unobserved
    if all_observed:
        for r in rows:
            r["m"] = True
    if rng.random() < 0.5:
        rng.shuffle(rows)
    return dict(rows=rows, arity=arity, ctrl=ctrl, obs_given=True, mask_given=True, tmap=None, smap=None, **(dict(supermap=True) if supermap else {}))


def inject_all_control(rng, sd):
    """make one unobserved row a vehicle-only well (every treatment slot the control): such a row is neither a
    combination nor a single-agent experiment"""
    un = [r for r in sd["rows"] if not r["m"]]
    if un:
        r = rng.choice(un)
        r["t"] = [[sd["ctrl"], 0.0] if rng.random() < 0.5 else [t[0], rng.choice([0.0, -1.0])] for t in r["t"]]
    return sd


def smoother_params(rng, sd):
    """random parameters, biased to the boundaries of the screen at hand (plate sizes, sums of the two smallest plates)"""
    sizes = Counter(r["p"] for r in sd["rows"] if not r["m"])
    szs = sorted(sizes.values()) or [1]
    by_sample = {}
    for pl, n in sizes.items():
        by_sample.setdefault(next(r["s"] for r in sd["rows"] if r["p"] == pl and not r["m"]), []).append(n)
    pair_sums = [sum(sorted(v)[:2]) for v in by_sample.values() if len(v) >= 2] or [2]
    return dict(min_size=rng.choice([0, 2, 4, 12] + [rng.choice(pair_sums) + d for d in (-1, 0, 0, 0, 1, 2)]),
                n_iter=rng.choice([0, 1, 1, 2, 2, 3, 3, 4, -1]),
                size=rng.choice([0, 2, 3, -1, 50] + [rng.choice(szs) + d for d in (-1, 0, 0, 0, 1)]),
                min_plates=rng.choice([0, 1, 2, 2, 3]))


def features(desc, res):
    sd = desc["screen"]
    f = [desc["kind"] + (":" + desc["cls"] if "cls" in desc else "")]
    rows = sd["rows"]
    if any(r["m"] for r in rows) and any(not r["m"] for r in rows):
        f.append("observed+unobserved")
    if len({(r["s"], json.dumps(r["t"])) for r in rows}) < len(rows):
        f.append("duplicate-condition")
    if any(any(t[1] <= 0 or t[0] == sd["ctrl"] for t in r["t"]) for r in rows):
        f.append("single-agent-row")
    if any((not r["m"]) and all(t[1] <= 0 or t[0] == sd["ctrl"] for t in r["t"]) for r in rows):
        f.append("vehicle-only-row")
    per_sample = Counter()
    for pl in {(r["s"], r["p"]) for r in rows if not r["m"]}:
        per_sample[pl[0]] += 1
    if per_sample and max(per_sample.values()) >= 4:
        f.append("sample-with->=4-plates")
    if sd.get("supermap"):
        f.append("superset-mappings")
    if any(r["o"] != r["o"] or r["o"] in (float("inf"), 5e-324) for r in rows):
        f.append("special-observation-values")
    if len({r["s"] for r in rows}) > 4:
        f.append(">4-samples")
    if isinstance(res["impl"], ImplError):
        f.append("raises")
    if not any(not r["m"] for r in rows) and desc["kind"] in ("gen", "smooth", "holdout"):
        f.append("trivial")
    if len(rows) == 0:
        f.append("trivial")
    return f


def shrink_desc(desc):
    rows = desc["screen"]["rows"]
    for i in range(len(rows)):
        yield dict(desc, screen=dict(desc["screen"], rows=rows[:i] + rows[i + 1:]))
