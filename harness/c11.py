"""C11 — retrospective preparation conserves experiments; the hold-out split partitions."""
import logging
from collections import Counter

import numpy as np

import common
import retrolib as L
from common import ImplError

logging.getLogger("batchie").setLevel(logging.ERROR)

ID = "C11"
LEVEL = "proof"
RULE = ("kinds: gen (PlatePermutation / SampleSegregating / Pairwise through generate_plates), smooth (MergeMin / MergeTopBottom / "
        "FixedSize / OptimalSize / NPlatePerCellLine / BatchieEnsemble through smooth_plates), holdout (plate-balanced, fractions "
        "0, 0.1, 0.25, 0.5, 1, random floats, out of range), rholdout (create_random_holdout), sparse, filter; random screens with "
        "duplicate conditions, single-agent rows, 1-6 unobserved plates of sizes 1-7, an observed part, several samples with few "
        "experiments; every rng / heappop / argsort answer of the real run is recorded and fed to the model; full row lists (order, "
        "plate labels, masks) compared.  Non-trivial: at least one unobserved experiment; distinct by case description.  Gap round: screens "
        "with up to 7 samples, NaN / inf / -0.0 / subnormal / float32-rounded observation values (10 %), screens carrying the mappings of a "
        "larger universe (20 %: the hold-out's Screen(...) calls then run the encoders' existing-mapping branch); hold-out on plates of "
        "9-30 experiments with 0.1, 0.3, 0.7, 1/3, 0.05 ... and the count judged against the EXACT rational ceiling (the float product "
        "may round down to an integer: 0.1 x 10 -> 1 accepted); purity: after every operation the caller's screen is re-read and must be "
        "unchanged; kind cliprep: prepare_retrospective_simulation.main with --plate-generator / --plate-smoother (every shipped class, incl. "
        "parameter values with which the smoother drops every remaining unobserved plate next to an observed initial plate, "
        "parameters through --*-param) and multiset conservation of (sample, treatments, doses, value) between the filtered input and "
        "training + test (equality when no smoother).")
THEOREMS = {
    "C11_model_is_source_generate_plates": "the hand-written wrapper model `wrap f` equals, for every inner generator f (in particular the shipped ones: generate_plates g), every screen and every answer stream, the Gallina translation of the whole method RetrospectivePlateGenerator.generate_plates regenerated from /repo's current core.py on this run (Generated/SrcRetro.v)",
    "C11_model_is_source_smooth_plates": "likewise for RetrospectivePlateSmoother.smooth_plates and every inner smoother (in particular smooth_plates sm for every shipped smoother)",
    "C11_model_is_source_merge_min_get_plate_sample_id": "the translation of the whole method MergeMinPlateSmoother._get_plate_sample_id (len > 1 test, raise, [0]) regenerated from /repo's retrospective.py, applied to the plate named p of a screen, equals the model's plate_sample p, for all screens and p",
    "C11_model_is_source_merge_min_smooth_plates": "the translation of the whole method MergeMinPlateSmoother._smooth_plates (loop over samples, heap comprehension, while True with both breaks, two heappops, merge, push) regenerated from /repo's retrospective.py equals the model merge_min for every min_size, screen and answer stream, whenever the explicit while-fuel exceeds the number of experiments of the screen (e.g. fuel = S (length rows))",
    "C11_model_is_source_create_plate_balanced_holdout_set_among_masked_plates": "the translation of the whole function create_plate_balanced_holdout_set_among_masked_plates (range check and raise, loop over plates, is_observed continue, ceil(plate.size*fraction), rng.choice, selection_vector[indices] = True, both Screen(...) calls, returned pair) regenerated from /repo's retrospective.py equals the model holdout_balanced for every fraction num/den, count mode, screen and answer stream",
    "C11_model_is_source_merge_tb_get_plate_sample_id": "as C11_model_is_source_merge_min_get_plate_sample_id, for MergeTopBottomPlateSmoother._get_plate_sample_id",
    "C11_model_is_source_merge_tb_smooth_plates": "the translation of the whole method MergeTopBottomPlateSmoother._smooth_plates (loop over samples, for-range loop with break, comprehension, sort by size, halfway, zip of first half with reversed first half, bigger.merge(smaller)) regenerated from /repo's retrospective.py equals the model merge_tb for every n_iterations and screen",
    "C11_model_is_source_create_random_holdout": "the translation of the whole function create_random_holdout (range check and raise, all-false vector, one rng.choice of math.ceil(size*fraction) of all row numbers, selection_vector[indices] = True, both Screen(...) calls, returned pair) regenerated from /repo equals the model holdout_random for every fraction num/den, count mode, screen and answer stream",
    "C11_model_is_source_sample_segregating_generate_plates": "as C13_model_is_source_sample_segregating_generate_plates (translation of SampleSegregating._generate_plates = sample_seg_checked for max >= 0; = sample_seg true under the permutation contract; through the wrapper = generate_plates (GSampleSeg true mx))",
    "C11_model_is_source_sample_segregating_generate_plates_negative_max": "as the C13 theorem of that name (negative max: same outcome up to the error tag)",
    "C11_model_is_source_plate_permutation_generate_plates": "translation of PlatePermutationPlateGenerator._generate_plates = plate_perm; through the wrapper = generate_plates (GPerm force)",
    "C11_model_is_source_fixed_size_smooth_plates": "translation of FixedSizeSmoother._smooth_plates = size_smooth; through the wrapper = smooth_plates (SFixed t)",
    "C11_model_is_source_optimal_size_smooth_plates": "translation of OptimalSizeSmoother._smooth_plates = optimal_smooth; through the wrapper = smooth_plates SOptimal",
    "C11_model_is_source_nplate_smooth_plates": "translations of NPlatePerCellLineSmoother._get_plate_sample_id / ._smooth_plates = plate_sample (as id) / nplate true; through the wrapper = smooth_plates (SNPlate true m)",
    "C11_model_is_source_ensemble_smooth_plates": "translation of BatchieEnsemblePlateSmoother._smooth_plates = ensemble true for sufficient MergeMin fuel; through the wrapper = smooth_plates (SEnsemble true ..)",
    "C11_model_is_source_sparse_cover_generate_and_unmask_initial_plate": "translations of the public initial-plate wrapper (core.py) and of SparseCoverPlateGenerator._generate_and_unmask_initial_plate compose to sparse_cover for sufficient while-fuel (> recorded answers or > distinct treatment ids)",
    "C11_model_is_source_sparse_cover_terminates": "as C13_model_is_source_sparse_cover_terminates: the fuel hypothesis is discharged by the termination theorem",
    "C11_model_is_source_filter_dataset_to_treatments_that_appear_in_at_least_one_combo": "translation of the combination filter (data.py) = combo_filter",
    "C11_model_is_source_pairwise_generate_plates": "as C13_model_is_source_pairwise_generate_plates: translation of the whole method PairwisePlateGenerator._generate_plates = pairwise under the argsort hypothesis (first answer = np.argsort's positions when anchors are requested); through the wrapper = generate_plates (GPairwise ..)",
    "C11_generator_conserves": "every shipped generator, any oracle: generate_plates = Ok out -> out = new ++ observed input rows (unchanged), new all unobserved, new minus plate labels is a Permutation of the unobserved input rows minus plate labels",
    "C11_relabel_conserves": "generic: ANY relabelling of plates (any label oracle) leaves rows-minus-label unchanged, in order",
    "C11_smoother_sub": "every shipped smoother, any oracle: smooth_plates = Ok out -> out = new ++ observed input rows, new all unobserved, exists rest with Permutation (strip new ++ rest) (strip unobserved input)",
    "C11_select_sub": "generic: ANY boolean row selection yields a sub-multiset, rows untouched (labels included)",
    "C11_merge_smoothers_relabel_only": "MergeMin / MergeTopBottom: output rows minus plate label = input rows minus plate label, same order",
    "C11_size_smoothers_keep_rows": "FixedSize / OptimalSize / NPlatePerCellLine (both variants): output is the input filtered by a boolean vector (rows untouched, labels included)",
    "C11_holdout_partition": "plate-balanced hold-out, any oracle: held = held0 marked observed, Permutation (train ++ held0) input (plate labels and masks included), train rows keep their mask",
    "C11_holdout_counts": "under the numpy choice contract: held has exactly n_p rows of each unobserved plate p, none from observed plates; n_p = the exact ceiling of size_p * fraction (exact mode) or the supplied Python value (oracle mode)",
    "C11_holdout_counts_oracle": "oracle mode: per unobserved plate (plate order) the held-out count is the supplied math.ceil(size*fraction) value; no row of any other plate",
    "C11_ceil_frac_spec": "n = ceil_frac size num den is the least integer with n*den >= size*num",
    "C11_random_holdout_partition": "create_random_holdout partitions likewise and holds out exactly n rows",
    "C11_initial_plate_conserves": "SparseCover initial plate: output rows = input rows up to plate label and mask, same order",
    "C11_filter_sub": "combination filter: output is the input filtered by a predicate (rows untouched)",
    'C11_model_is_source_screen_combine': "primitive `a.combine(b)` -> combine_screens: on two valid screens of one arity and control name the translated Screen.combine is refused (mixed plate) exactly when construct refuses the concatenated rows, else it builds a fresh screen whose rows are a's then b's",
    'C11_model_is_source_subset_to_screen': "primitives `s.subset(v)` -> subset_of and `x.to_screen()` -> Retro.to_screen: the translated Screen.subset gives a view selecting subset_of's rows; the translated to_screen of a view of a valid screen never fails and yields a fresh screen with exactly those rows, same arity and control name",
    'C11_model_is_source_subset_unobserved_observed': "primitives `s.subset_unobserved()` / `s.subset_observed()`: the translations answer None exactly when Retro's do, else a view of the screen whose rows are Retro's unobserved / observed rows",
    'C11_model_is_source_is_observed': 'primitives `s.is_observed` -> forallb r_mask and `p.is_observed` -> vec_observed: the translated ScreenBase.is_observed on a Screen / on a Plate',
}
ASSUMPTIONS = [
    "numpy Generator.permutation / choice, heapq.heappop and np.argsort answers are oracle inputs of the model; conservation theorems hold for every answer, count theorems assume the documented contract (duplicate-free sub-list of the offered indices of length n), which the harness checks on every recorded answer",
    "the Screen constructor is reduced to the plate-uniform-mask check, the only check that can fail at the retrospective call sites (shapes and dtypes are those of a valid parent screen; mappings passed to the hold-out constructors are the parent's own)",
    "ids are not modelled: sample / plate ids are ranks of names in sorted order (pandas sort_values on str = code point order)",
    "math.ceil(size*fraction): exact for dyadic fractions (checked by the harness on every case); for other fractions Python's own value is an oracle input",
    "math.ceil(len/float(max)) and math.floor(len/2) are modelled by integer arithmetic (exact for len < 2^53)",
]
EXPLANATION = ("Models: Model/Retro.v (wrappers, PlatePermutation, SampleSegregating, FixedSize, OptimalSize, NPlatePerCellLine, "
               "MergeMin, MergeTopBottom, Ensemble, Plate.merge), Model/Pairwise.v, Model/Holdout.v, Model/RetroInit.v (SparseCover, "
               "combination filter).  Every shipped class is covered; no statement is partial.  All labelling logic is modelled (shared "
               "with C13) and the conservation theorems are proved through generic lemmas that hold for any labels / any selection "
               "vector, so they hold for every oracle answer; only the per-plate hold-out counts need the numpy choice contract.  "
               "The models of Pairwise's last choice and of SparseCover refuse an answer outside the offered array (state-dependent "
               "contract, tag 94).  Not modelled: ids (only their order), logging, numpy copy semantics (in-place Plate.merge is "
               "modelled functionally).  "
               "SOURCE LINKS (C11_model_is_source_*): seven whole functions of /repo are re-translated into Gallina on every run "
               "(harness/py2gal.py, fail-closed; configurations C11_* / C13_* in harness/src_functions.py; output "
               "Generated/SrcRetro.v) and Proofs/C11Source.v proves each translation equal to the hand-written model for all inputs: "
               "RetrospectivePlateGenerator.generate_plates and RetrospectivePlateSmoother.smooth_plates (core.py; = wrap f for "
               "EVERY inner f), MergeMinPlateSmoother._get_plate_sample_id and ._smooth_plates (the `while True` becomes recursion "
               "on an explicit fuel parameter, Err 97 when it runs out; the link holds whenever fuel > number of experiments), and "
               "MergeTopBottomPlateSmoother._get_plate_sample_id and ._smooth_plates (its `break` in a for loop is PyRt.res_fold_brk), "
               "create_plate_balanced_holdout_set_among_masked_plates.  A change of these functions changes the generated "
               "definition: either the translator refuses it (build stops) or the linking proof no longer compiles (broken "
               "obligation).  Loops, branches, `is None` checks, raises, break/continue, the comprehension, tuple returns and "
               "integer arithmetic come from the translation.  TRUSTED there: the translator with its run-time library Lib/PyRt.v "
               "(res_fold, res_fold_brk, res_while, res_filter, unwrap, zrange) and exactly these primitives (meanings in the last sections of "
               "Model/Retro.v and Model/RetroHoldout.v; a Screen / ScreenSubset is its row list, a Plate its selection vector "
               "into its parent screen, the rng / heappop answers are the stream `ds`): wrappers - screen.subset_unobserved() "
               "and .subset_observed() (None when empty, else the unobserved / observed rows), subset.to_screen() (identity on "
               "rows), a.combine(b) (construct (a ++ b)), self._generate_plates / self._smooth_plates(s, rng) (an ARBITRARY "
               "function f s ds); MergeMin - self.min_size, screen.unique_sample_ids (sorted unique sample names), "
               "screen.plates (selection vectors in sorted plate-name order), plate.unique_sample_ids, len(), a[0] (IndexError "
               "= Err 92 on empty), plate.size, heapq.heapify (identity on the item list), heapq.heappush (append), "
               "heapq.heappop (Model pop: the recorded answer, refused unless a smallest item), b.merge(a) (Model merge on the "
               "parent current_screen), self._get_plate_sample_id (= the translated method on current_screen); MergeTopBottom - "
               "self.n_iterations, unique_sample_ids / plates / len / merge / _get_plate_sample_id as for MergeMin, "
               "math.floor(len(l) / 2) (integer quotient), sorted(l, key=lambda x: x.size) (Model sort_sz, stable insertion sort "
               "by size), zip (combine), list(reversed(l)) (rev), l[:n] (firstn); hold-out - "
               "`fraction < 0` (num < 0), `fraction > 1` (den < num), np.zeros(screen.size, dtype=bool), screen.plates, "
               "np.arange(screen.size)[plate.selection_vector], plate.is_observed, plate.size, math.ceil(n * fraction) "
               "(ceil_count: exact ceiling or the oracle value), rng.choice(a, n, replace=False) (the recorded answer, refused "
               "unless of length n), selection_vector[i] = True (vor with vof_idx), and the two Screen(...) constructor calls "
               "matched as whole expressions with all nine keyword arguments (rows not selected / rows selected marked "
               "observed, then construct).  ROUND-2 LINKS (Generated/SrcRetroGen.v, Proofs/C13Source.v; the theorems "
               "C11_model_is_source_create_random_holdout ... _filter_dataset_...): create_random_holdout = holdout_random (same "
               "primitives as the plate-balanced hold-out, plus np.arange(screen.size) = all row numbers and math.ceil(screen.size * "
               "fraction) = exact ceiling or Python's own value `count`; its two Screen(...) calls pass sample_mapping before "
               "treatment_mapping and are matched as such), and the shipped generators / smoothers / SparseCover / combination "
               "filter = the models the conservation theorems are about; their hypotheses (max_plate_size >= 0, permutation contract "
               "or the checked model, sufficient while-fuel) and the full list of trusted primitives are in C13's explanation.  "
               "PairwisePlateGenerator._generate_plates is linked too (C11_model_is_source_pairwise_generate_plates, hypothesis argsort_ok)."
               '  PRIMITIVES AS THEOREMS: the meanings the configurations of this property give to the data.py helpers are no longer '
               "only trusted - Proofs/C13SourceHelpers.v proves, per primitive, that the helper's own translation (in the Views "
               'vocabulary, where a Screen object carries its id arrays), read through the representation `Retro screen = rows of the '
               'Views screen, Retro plate = selection vector of the view`, is that meaning; side conditions are those of reachable '
               'calls (screen_wf / screen_valid of constructed screens, view_ok of constructed views, plate_ids_fresh / '
               "sample_ids_fresh = `the id array is the encoder's answer on the current names without a mapping`, true of every screen "
               'built without mappings and re-established for the plate ids by every merge).  Linked here: Screen.combine, '
               'Screen.subset, ScreenSubset.to_screen, subset_unobserved / subset_observed, is_observed on a screen and on a plate '
               '(Props/C13.v: Plate.merge, plates, size, __lt__, unique_sample_ids).  What the helper translations trust is listed in '
               "C14's explanation (HELPER LINKS). ")
THEOREMS.update({
    'C11_model_is_source_cli_args_holdout_fraction_unchanged': 'whatever the class lookups do, the namespace returned by the translated prepare_retrospective_simulation.get_args carries the --holdout-fraction value parse_args produced (it is not rescaled or re-read as a percentage)',
})
EXPLANATION += ("  The prepare wrapper's get_args() is re-translated on every run (configuration ARGS_GET_ARGS_PR -> Generated/SrcCliArgs.v; link and "
                "trusted primitives: C03's evidence, theorems C03_model_is_source_cli_args_*); C11 uses its consequence that the plain arguments, "
                "--holdout-fraction among them, reach main() unchanged. ")
import c18_args
THEOREMS.update(c18_args.parser_theorems("C11", {"prepare_retrospective_simulation": ["fraction", "fields", "dests_derived"]}))
EXPLANATION += c18_args.parser_explanation(["prepare_retrospective_simulation"])


def gen(rng, tier):
    k = 1 if tier == "quick" else 12
    for _ in range(90 * k):
        sd = L.gen_screen(rng)
        cls = rng.choice(["perm", "perm", "ss", "ss", "pairwise"])
        if cls == "perm":
            names = sorted({r["p"] for r in sd["rows"]})
            force = rng.choice([None, None, [], rng.sample(names, min(len(names), rng.randint(0, 2))), ["nope"], names])
            params = dict(force=force)
        elif cls == "ss":
            from collections import Counter
            per = list(Counter(r["s"] for r in sd["rows"] if not r["m"]).values()) or [1]
            params = dict(max=rng.choice([1, 2, 3, 4, 5, rng.choice(per), rng.choice(per), max(1, rng.choice(per) - 1), 0, -1, 100]))
        else:
            sd = L.gen_screen(rng, arity=2, n_treat=rng.randint(2, 5))
            params = dict(subset=rng.choice([1, 1, 2, 2, 3, 0, -1]), anchor=rng.choice([0, 0, 0, 1, 2, 3]))
        yield dict(kind="gen", cls=cls, params=params, screen=sd, seed=rng.randrange(10 ** 6))
    for _ in range(50 * k):
        # Pairwise on screens holding a vehicle-only well (all slots control) next to combinations and single agents
        sd = L.gen_screen(rng, arity=rng.choice([2, 2, 2, 3]), n_treat=rng.randint(2, 5))
        if rng.random() < 0.7:
            sd = L.inject_all_control(rng, sd)
        params = dict(subset=rng.choice([1, 1, 2, 3]), anchor=rng.choice([0, 0, 0, 1, 2]))
        yield dict(kind="gen", cls="pairwise", params=params, screen=sd, seed=rng.randrange(10 ** 6))
    for _ in range(150 * k):
        cls = rng.choice(["mergemin", "mergetb", "fixed", "optimal", "nplate", "ensemble"])
        sd = L.gen_screen(rng, style=rng.choice(["one_sample_plates"] * 4 + ["mixed"] + ["many_plates"] * 3) if cls in ("mergemin", "mergetb", "nplate", "ensemble") else None)
        params = L.smoother_params(rng, sd)
        yield dict(kind="smooth", cls=cls, params=params, screen=sd, seed=rng.randrange(10 ** 6))
    for _ in range(110 * k):
        fr = rng.choice([0.0, 0.1, 0.25, 0.5, 1.0, 0.0, 0.1, 0.25, 0.5, 1.0, 0.75, 0.3, 1 / 3, round(rng.random(), 3), rng.random(), 1.5, -0.25])
        big = rng.random() < 0.3
        if big:     # plates of 9-30 experiments with the fractions whose float product rounds to an integer the exact product exceeds
            fr = rng.choice([0.1, 0.3, 0.7, 0.9, 0.05, 0.15, 0.35, 1 / 3, 0.1 + 1e-9, 0.2, 0.6, round(rng.random(), 2)])
            if rng.random() < 0.4:      # just above / below j / size for a size that occurs: the ceiling moves by one within 1e-12 .. 1e-7
                sz = rng.choice([9, 10, 10, 11, 20, 30])
                fr = min(1.0, max(0.0, rng.randrange(1, sz) / sz + rng.choice([1e-9, 1e-7, 1e-12, -1e-9, 1e-9])))
        yield dict(kind=rng.choice(["holdout", "holdout", "holdout", "rholdout"]), fraction=fr,
                   screen=L.gen_screen(rng, style="big_plates") if big else L.gen_screen(rng), seed=rng.randrange(10 ** 6))
    for _ in range(25 * k):
        yield dict(kind="sparse", reveal=rng.random() < 0.5, screen=L.gen_screen(rng, all_observed=rng.random() < 0.9), seed=rng.randrange(10 ** 6))
    for _ in range(25 * k):
        yield dict(kind="filter", screen=L.gen_screen(rng), seed=0)
    for i in range(40 * k):
        d = dict(kind="cliprep", screen=L.gen_screen(rng, all_observed=True, style=rng.choice(["one_sample_plates", "mixed", "many_plates"])),
                 fraction_text=rng.choice(["0", "0.0", "0.1", "0.25", "0.5", "1", "1.0", "1", "0.75"]), init=rng.random() < 0.3,
                 seed=rng.randrange(10 ** 6))
        if i % 5 >= 2:      # every shipped generator / smoother selected ON THE COMMAND LINE (--plate-generator / --plate-smoother + --*-param)
            d["pgen"] = rng.choice([None, ["PlatePermutationPlateGenerator", {}],
                                    ["SampleSegregatingPermutationPlateGenerator", dict(max_plate_size=rng.choice([1, 2, 3, 5]))],
                                    ["PairwisePlateGenerator", dict(subset_size=rng.choice([1, 2]), anchor_size=rng.choice([0, 1]))]])
            d["psm"] = rng.choice([None, ["MergeMinPlateSmoother", dict(min_size=rng.choice([2, 3, 4, 6]))],
                                   ["MergeTopBottomPlateSmoother", dict(n_iterations=rng.choice([1, 2]))],
                                   ["FixedSizeSmoother", dict(plate_size=rng.choice([1, 2, 3]))], ["OptimalSizeSmoother", {}],
                                   ["NPlatePerCellLineSmoother", dict(min_n_cell_line_plates=rng.choice([1, 2]))],
                                   ["BatchieEnsemblePlateSmoother", dict(min_size=rng.choice([2, 4]), n_iterations=1, min_n_cell_line_plates=rng.choice([1, 2]))]])
        yield d
    for i in range(8 * k):    # a smoother parameter that drops EVERY remaining unobserved plate, next to an observed initial plate
        yield dict(kind="cliprep", screen=L.gen_screen(rng, all_observed=True, style=rng.choice(["one_sample_plates", "mixed", "many_plates"])),
                   fraction_text=rng.choice(["0.1", "0.25", "0.5", "1"]), init=True, seed=rng.randrange(10 ** 6), pgen=None,
                   psm=[["FixedSizeSmoother", dict(plate_size=500)], ["NPlatePerCellLineSmoother", dict(min_n_cell_line_plates=50)]][i % 2])


def _run_cliprep(desc):
    """the hold-out as the prepare_retrospective_simulation CLI takes it (implementation-only predicate): the files it writes
    must partition the screen it split - per plate name, held-out experiments = ceil(fraction * plate size), none from
    observed plates, the hold-out fully observed - for the fraction GIVEN ON THE COMMAND LINE (0, 1 and 1.0 included)"""
    import math
    import os
    import shutil
    import screenlib
    import simlib
    from batchie.cli import prepare_retrospective_simulation as cli
    from batchie.data import Screen

    d = simlib.tmpdir()
    feats = ["cliprep", "fraction=%s" % desc["fraction_text"]]
    try:
        built = common.impl_call(screenlib.build, desc["screen"])
        if isinstance(built, ImplError) or built.size == 0:
            return dict(wire=None, impl=None, pred=None, features=feats + ["trivial"])
        src, tr, te = (os.path.join(d, n) for n in ("data.h5", "train.h5", "test.h5"))
        built.save_h5(src)
        argv = ["prep", "--data", src, "--training-output", tr, "--test-output", te, "--holdout-fraction", desc["fraction_text"], "--seed", str(desc["seed"])]
        if desc.get("init"):
            argv += ["--initial-plate-generator", "SparseCoverPlateGenerator", "--initial-plate-generator-param", "reveal_single_treatment_experiments=False"]
        for opt, sel in (("--plate-generator", desc.get("pgen")), ("--plate-smoother", desc.get("psm"))):
            if sel:
                argv += [opt, sel[0]]
                feats.append(sel[0])
                for kk, vv in sorted(sel[1].items()):
                    argv += [opt + "-param", "%s=%s" % (kk, vv)]
        r = common.impl_call(lambda: common.run_cli_main(cli, argv))
        if isinstance(r, ImplError):
            return dict(wire=None, impl=None, pred=None, features=feats + ["refused", "trivial"])
        a, b = Screen.load_h5(tr), Screen.load_h5(te)
        fr = float(desc["fraction_text"])
        pred = None
        if b.size and not bool(np.all(b.observation_mask)):
            pred = "holdout-not-observed: the test screen written by the CLI is not fully observed"
        held, kept_un, kept_ob = Counter(str(x) for x in b.plate_names), Counter(), Counter()
        for nm, m in zip(a.plate_names, a.observation_mask):
            (kept_ob if m else kept_un)[str(nm)] += 1
        for pname in sorted(set(held) | set(kept_un)):
            size = held[pname] + kept_un[pname]
            want = math.ceil(size * fr)
            if pred is None and kept_ob[pname] and held[pname]:
                pred = "holdout-from-observed: plate %r has observed training rows and %d held-out rows" % (pname, held[pname])
            if pred is None and held[pname] != want:
                pred = "holdout-count: --holdout-fraction %s: plate %r of %d unobserved experiments contributed %d to the hold-out, ceil(fraction x size) = %d" % (
                    desc["fraction_text"], pname, size, held[pname], want)
        # conservation through the whole command: every written experiment is an experiment of the combination-filtered input with the
        # same sample, treatments, doses and value (the filter's own reference: an experiment stays iff each of its treatments is the
        # control or occurs in an all-non-control experiment); without a smoother none is lost
        strip3 = lambda r: L.key([r[0], r[2], r[3]])
        inp = screenlib.canon_rows(built)
        ctrl = desc["screen"]["ctrl"]
        sel = {t_ for r in inp if all(x is not None for x in L.tids(r, ctrl)) for t_ in L.tids(r, ctrl)}
        want = Counter(strip3(r) for r in inp if all(x is None or x in sel for x in L.tids(r, ctrl)))
        got = Counter(map(strip3, screenlib.canon_rows(a) + screenlib.canon_rows(b)))
        if pred is None and got - want:
            pred = "cli-invented-experiment: training + test hold %d experiments that are not (filtered) input experiments with the same sample / treatments / doses / value: %s" % (
                sum((got - want).values()), common.short(list((got - want).elements()), 200))
        if pred is None and not desc.get("psm") and want - got:
            pred = "cli-lost-experiment: no smoother was selected but %d (filtered) input experiments are in neither output: %s" % (
                sum((want - got).values()), common.short(list((want - got).elements()), 200))
        return dict(wire=None, impl=None, pred=pred, features=feats)
    finally:
        shutil.rmtree(d, ignore_errors=True)


def run(desc):
    if desc["kind"] == "cliprep":
        return _run_cliprep(desc)
    ex = L.execute(desc)
    pred = None
    if not isinstance(ex["impl"], ImplError) and ex["inp"] is not None:
        pred = L.pred_conserve(desc, ex["inp"], ex["impl"])
    pred = pred or ex.get("impure")
    return dict(wire=ex["wire"], impl=ex["impl"], pred=pred, features=L.features(desc, ex), cmp=ex["cmp"])


def shrink(desc):
    return L.shrink_desc(desc)


def signature(desc, res):
    return "%s:%s" % (desc["kind"], desc.get("cls", ""))
