"""C07 — distance chunks partition the work and assemble to one matrix."""
import os
import shutil
import tempfile
from fractions import Fraction

import numpy as np

import common
from common import ImplError, cmp_result, frac, impl_call

ID = "C07"
LEVEL = "proof"
RULE = ("kinds: chunks (n, n_chunks) exhaustive over a grid; pipeline (n<=7, n_chunks, chunk order with "
        "repeats / omissions, distinct-valued metric table incl. 0) through the real "
        "calculate_pairwise_distance_matrix_on_predictions + save + load + concat + to_dense; mse (float vectors, "
        "sigmoid on/off).  Non-trivial: n>=2; distinct by canonical case description.")
THEOREMS = {
    "C07_model_is_source_enumeration": "lower_tri n (as integer pairs) is what the whole generator lower_triangular_indices, re-translated from /repo on this run, yields for n >= 0; for n <= 0 it yields nothing",
    "C07_chunks_partition": "concat of all chunks in index order = enumeration of pairs i>j (all n, all n_chunks>=1)",
    "C07_chunks_cover_once": "every pair j<i<n occurs exactly once over all chunks, nothing else occurs",
    "C07_chunks_disjoint": "two different chunk indices share no pair",
    "C07_chunk_sizes_differ_by_at_most_one": "chunk sizes differ by <= 1",
    "C07_assemble": "any order (with repeats) covering all chunk indices densifies to the metric's matrix",
    "C07_dense_symmetric": "assembled matrix is symmetric",
    "C07_dense_zero_diagonal": "assembled matrix has zero diagonal",
    "C07_dense_entry_is_metric": "entry (a,b), b<a, is d a b",
    "C07_incomplete_refused": "a family of chunks missing a pair refuses to densify",
    "C07_mse_symmetric": "MSE metric symmetric for every expit",
    "C07_mse_nonneg": "MSE metric >= 0",
    "C07_mse_zero_on_identical": "MSE metric 0 on identical non-empty predictions",
}
ASSUMPTIONS = [
    "h5py dataset write/read is the identity on int64/float64 arrays (exercised by every pipeline case)",
    "the zero-initialised backing arrays of ChunkedDistanceMatrix are abstracted away (slot at current_index is always 0 in pipeline-reachable states)",
    "metric values cross the wire as integers (the stub metric returns integer-valued floats); MSEDistance itself is compared over exact rationals with tolerance 1e-9",
    "expit is an oracle (libm on the nearest double) in the model",
]
EXPLANATION = ("Model: Model/Chunks.v, Model/DistMat.v, Model/Mse.v. Modelled, not verified: numpy array storage, h5py, "
               "tqdm; the CLI wrapper calculate_distance_matrix.main is exercised in-process on real Screen/ThetaHolder files by implementation-only predicate cases (kind cli).")
# ---- source-translation links of the command-line wrappers (Model/Cli.v, Generated/SrcCli.v) ----
THEOREMS.update({
    'C07_model_is_source_cli_calculate_distance_matrix': 'the translation of the whole function calculate_distance_matrix.main regenerated on this run equals, for every record L of library functions and all parsed arguments, Cli.cli_calculate_distance_matrix: calculate_pairwise_distance_matrix_on_predictions on the concatenation of the --thetas files (argument order), the metric object, the loaded screen, --chunk-index, --n-chunks, saved to --output',
})
EXPLANATION += ("  CLI wrapper: calculate_distance_matrix.main is re-translated as a WHOLE function on every run (Generated/SrcCli.v) and proved equal to Model/Cli.v.  The link trusts the translator harness/py2gal.py (for these links extended by cfg typed_effects, kwcalls keys `module.function`, state_calls assigned to a tuple), the representation of Model/Cli.v (parsed arguments = a record of the plain argparse results, get_args() not translated = the primitive `get_args()` yielding that record; a main() denotes the list of (path, content) files it writes; `L` = ANY record of library functions over abstract types) and EXACTLY these primitives of harness/src_functions.py, each one field read / one library or constructor call standing for the function of that name (whose own link, where it exists, is the one of its property): CLI_DISTANCE_MATRIX: the fields of `args` read as the record's projections (a store to one is refused); ignored: log_config.configure_logging(args), logger.info/warning; Screen.load_h5(p), ThetaHolder(n_thetas=1), h.load_h5(p), h.concat(l), args.metric_cls(**args.metric_params), the keyword call calculate_pairwise_distance_matrix_on_predictions(...) with its default progress=False, typed effect r.save(p). ")


def _tmpdir():
    os.makedirs(common.WORK, exist_ok=True)
    return tempfile.mkdtemp(dir=common.WORK)


class _StubTheta:
    def __init__(self, i):
        self.i = i

    def predict_viability(self, data):
        return np.array([float(self.i)])


class _StubThetas:
    def __init__(self, n):
        self.n_thetas = n

    def get_theta(self, i):
        return _StubTheta(i)


class _TableMetric:
    def __init__(self, table):
        self.table = table

    def distance(self, a, b):
        return float(self.table[int(a[0])][int(b[0])])


def gen(rng, tier):
    # chunks: exhaustive grid
    nmax, cmax = (9, 40) if tier == "quick" else (13, 90)
    for n in range(0, nmax + 1):
        for c in range(1, cmax + 1):
            yield dict(kind="chunks", n=n, c=c)
    for _ in range(10 if tier == "quick" else 60):
        yield dict(kind="chunks", n=rng.randint(14, 60), c=rng.randint(1, 2500))
    # pipeline
    for _ in range(120 if tier == "quick" else 1500):
        n = rng.choice([0, 1, 2, 3, 3, 4, 4, 5, 5, 6, 7])
        npairs = n * (n - 1) // 2
        c = rng.choice([1, 1, 2, 3, 4, 5, max(1, npairs), npairs + 1, npairs + 3, rng.randint(1, 30)])
        mode = rng.choice(["perm", "perm", "repeat", "repeat", "missing", "single", "swap", "swap"])
        idx = list(range(c))
        if mode == "perm":
            rng.shuffle(idx)
            order = idx
        elif mode == "repeat":
            order = idx + [rng.randrange(c) for _ in range(rng.randint(1, 4))]
            rng.shuffle(order)
        elif mode == "missing":
            order = [k for k in idx if rng.random() < 0.7] or [rng.randrange(c)]
            rng.shuffle(order)
        elif mode == "swap" and c >= 2:
            # as many chunk files as chunks, but one (or two) replaced by a repeat of another: the number of stored
            # values can equal the number of pairs although pairs are missing
            order = list(idx)
            for _ in range(rng.choice([1, 1, 2])):
                a, b = rng.sample(range(c), 2)
                order[a] = order[b]
            rng.shuffle(order)
        else:
            order = [rng.randrange(c)]
        vals = list(range(0, n * n + 3))
        rng.shuffle(vals)
        table = [[vals[i * n + j] for j in range(n)] for i in range(n)]
        yield dict(kind="pipeline", n=n, c=c, order=order, table=table)
    # the CLI wrapper, in-process, on real Screen / ThetaHolder files (implementation-only predicate)
    for _ in range(6 if tier == "quick" else 40):
        n1, n2 = rng.randint(1, 3), rng.randint(0, 3)
        n = n1 + n2
        npairs = n * (n - 1) // 2
        c = rng.choice([1, 2, 3, max(1, npairs), npairs + 2])
        order = list(range(c)) + [rng.randrange(c) for _ in range(rng.randint(0, 2))]
        rng.shuffle(order)
        yield dict(kind="cli", chains=[n1, n2], c=c, order=order, alphas=[rng.randint(-24, 24) / 8.0 for _ in range(n)])
    # mse
    for _ in range(60 if tier == "quick" else 600):
        m = rng.choice([0, 1, 1, 2, 3, 5, 8])
        mk = lambda: [rng.choice([rng.randint(-40, 40) / 8.0, rng.uniform(-6, 6), 0.0]) for _ in range(m)]
        a = mk()
        b = rng.choice([mk(), list(a)])
        yield dict(kind="mse", sigmoid=rng.random() < 0.5, a=a, b=b)


def run(desc):
    from batchie.distance_calculation import (
        ChunkedDistanceMatrix,
        calculate_pairwise_distance_matrix_on_predictions,
        get_lower_triangular_indices_chunk,
        lower_triangular_indices,
    )
    from batchie.distance.mse import MSEDistance

    k = desc["kind"]
    if k == "chunks":
        n, c = desc["n"], desc["c"]
        chunks = [[list(p) for p in get_lower_triangular_indices_chunk(n, i, c)] for i in range(c)]
        flat = [tuple(p) for ch in chunks for p in ch]
        expect = [(i, j) for i in range(n) for j in range(i)]
        pred = None
        if flat != expect:
            pred = "chunks do not concatenate to every pair i>j exactly once"
        sizes = [len(ch) for ch in chunks]
        if sizes and max(sizes) - min(sizes) > 1:
            pred = "chunk sizes differ by more than one: %r" % (sizes,)
        feats = ["chunks"] + (["n_chunks>pairs"] if c > len(expect) else []) + (["trivial"] if n < 2 else []) + (["remainder"] if len(expect) % c else [])
        return dict(wire=[0, n, c], impl=chunks, pred=pred, features=feats)
    if k == "pipeline":
        n, c, order, table = desc["n"], desc["c"], desc["order"], desc["table"]
        d = _tmpdir()
        try:
            def go():
                ms = []
                for pos, idx in enumerate(order):
                    m = calculate_pairwise_distance_matrix_on_predictions(
                        thetas=_StubThetas(n), distance_metric=_TableMetric(table), data=None,
                        chunk_index=idx, n_chunks=c)
                    fn = os.path.join(d, "chunk_%d.h5" % pos)
                    m.save(fn)
                    ms.append(ChunkedDistanceMatrix.load(fn))
                return ChunkedDistanceMatrix.concat(ms).to_dense()
            out = impl_call(go)
        finally:
            shutil.rmtree(d, ignore_errors=True)
        covers = set(order) >= set(range(c))
        present = set()
        for idx in order:
            present |= {tuple(p) for p in get_lower_triangular_indices_chunk(n, idx, c)}
        complete = len(present) == n * (n - 1) // 2
        pred = None
        if isinstance(out, ImplError):
            impl = out
            if complete:
                pred = "complete family of chunks refused: %r" % (out,)
        else:
            if not np.all(out == np.floor(out)):
                pred = "non-integer value in dense matrix"
            impl = [[int(x) for x in row] for row in out.tolist()]
            expect = [[(table[a][b] if b < a else (table[b][a] if a < b else 0)) for b in range(n)] for a in range(n)]
            if not complete:
                pred = "matrix missing a pair was densified"
            elif impl != expect:
                pred = "assembled matrix differs from the metric's matrix"
        feats = ["pipeline"] + (["repeat"] if len(order) != len(set(order)) else []) + (["covers"] if covers else ["missing-chunk"]) \
            + (["n_chunks>pairs"] if c > n * (n - 1) // 2 else []) + (["trivial"] if n < 2 else []) + (["zero-value"] if any(table[a][b] == 0 for a in range(n) for b in range(a)) else [])
        return dict(wire=[1, n, c, order, table], impl=impl, pred=pred, features=feats, cmp=cmp_result())
    if k == "cli":
        return _run_cli(desc)
    if k == "mse":
        a, b, sg = desc["a"], desc["b"], desc["sigmoid"]
        import warnings
        with warnings.catch_warnings():
            warnings.simplefilter("ignore")
            v = MSEDistance(sigmoid=sg).distance(np.array(a, dtype=float), np.array(b, dtype=float))
            v2 = MSEDistance(sigmoid=sg).distance(np.array(b, dtype=float), np.array(a, dtype=float))
        pred = None
        if len(a) > 0:
            if v != v2:
                pred = "metric not symmetric"
            if v < 0:
                pred = "metric negative"
            if a == b and v != 0:
                pred = "metric non-zero on identical predictions"
            impl = float(v)
        else:
            impl = ImplError(ValueError("nan mean of empty"))

        def cmpf(m, i):
            if not common.close(m, i, 1e-9):
                return "mse differs: model %s impl %r" % (float(Fraction(m[0], m[1])), i)
            return None
        feats = ["mse", "sigmoid" if sg else "raw"] + (["identical"] if a == b else []) + (["trivial"] if len(a) == 0 else [])
        return dict(wire=[2, sg, [frac(x) for x in a], [frac(x) for x in b]], impl=impl, pred=pred, features=feats, cmp=cmp_result(cmpf))
    raise ValueError(k)


def _run_cli(desc):
    """calculate_distance_matrix.main() per chunk index on real files, then concat + to_dense"""
    import sys
    from unittest import mock

    from scipy.special import expit

    from batchie.cli import calculate_distance_matrix
    from batchie.core import ThetaHolder
    from batchie.data import Screen
    from batchie.distance_calculation import ChunkedDistanceMatrix
    from batchie.models.sparse_combo import SparseDrugComboMCMCSample

    alphas, chains, c, order = desc["alphas"], desc["chains"], desc["c"], desc["order"]
    n = len(alphas)
    d = _tmpdir()
    try:
        scr = Screen(treatment_names=np.array([["a"], ["b"], ["a"]], dtype=str), treatment_doses=np.array([[1.0], [2.0], [1.0]]),
                     sample_names=np.array(["s", "s", "t"], dtype=str), plate_names=np.array(["p", "p", "q"], dtype=str))
        scr.save_h5(os.path.join(d, "screen.h5"))
        files, pos = [], 0
        for ci, m in enumerate(chains):
            if m == 0:
                continue
            h = ThetaHolder(m)
            for a in alphas[pos:pos + m]:
                h.add_theta(SparseDrugComboMCMCSample(W=np.zeros((2, 1)), W0=np.zeros((2,)), V2=np.zeros((2, 1)), V1=np.zeros((2, 1)),
                                                      V0=np.zeros((2,)), alpha=float(a), precision=1.0))
            pos += m
            fn = os.path.join(d, "thetas_%d.h5" % ci)
            h.save_h5(fn)
            files.append(fn)

        def go():
            ms = []
            for p_, idx in enumerate(order):
                out = os.path.join(d, "dist_%d.h5" % p_)
                argv = ["calculate_distance_matrix", "--data", os.path.join(d, "screen.h5"), "--thetas"] + files + [
                    "--distance-metric", "MSEDistance", "--n-chunks", str(c), "--chunk-index", str(idx), "--output", out]
                common.run_cli_main(calculate_distance_matrix, argv)
                ms.append(ChunkedDistanceMatrix.load(out))
            return ChunkedDistanceMatrix.concat(ms).to_dense()
        out = impl_call(go)
    finally:
        shutil.rmtree(d, ignore_errors=True)
    pred = None
    if isinstance(out, ImplError):
        pred = "CLI pipeline over a covering family of chunks failed: %r" % (out,)
    else:
        v = [float(np.clip(expit(a), 0.01, 0.99)) for a in alphas]
        for i in range(n):
            for j in range(n):
                e = 0.0 if i == j else (float(expit(v[i])) - float(expit(v[j]))) ** 2
                if abs(out[i, j] - e) > 1e-12:
                    pred = "CLI-assembled matrix entry (%d,%d) = %r, metric on the two predictions = %r" % (i, j, float(out[i, j]), e)
    return dict(wire=None, impl=None, pred=pred, features=["cli"] + (["trivial"] if n < 2 else []) + (["two-chain-files"] if all(chains) else []))


def shrink(desc):
    if desc["kind"] == "pipeline":
        o = desc["order"]
        for i in range(len(o)):
            if len(o) > 1:
                yield dict(desc, order=o[:i] + o[i + 1:])
    if desc["kind"] == "chunks":
        if desc["n"] > 0:
            yield dict(desc, n=desc["n"] - 1)
        if desc["c"] > 1:
            yield dict(desc, c=desc["c"] - 1)
