"""C07 — distance chunks partition the work and assemble to one matrix."""
import os
import shutil
import tempfile
from fractions import Fraction

import numpy as np

import common
from common import ImplError, cmp_result, frac, impl_call

ID = "C07"
LEVEL = "proof"
RULE = ("kinds: chunks (n, n_chunks) exhaustive over a grid; srcpipeline / script: the same pipeline cases, and random scripts of "
        "ChunkedDistanceMatrix calls (incl. invalid ones), run on the TRANSLATED source (Generated/Src*.v extracted) and compared with the real class; pipeline (n<=7, n_chunks, chunk order with "
        "repeats / omissions, distinct-valued metric table incl. 0) through the real "
        "calculate_pairwise_distance_matrix_on_predictions + save + load + concat + to_dense; mse (float vectors, "
        "sigmoid on/off; the same two arrays serve three calls and must come back unchanged).  Non-trivial: n>=2; distinct by canonical case description.")
THEOREMS = {
    "C07_model_is_source_arithmetic": "n_lower and chunk_bounds are the source's arithmetic (round-1 integer-kernel translation py2coq of get_number_of_lower_triangular_indices and the arithmetic prefix of get_lower_triangular_indices_chunk)",
    "C07_model_is_source_enumeration": "lower_tri n (as integer pairs) is what the whole generator lower_triangular_indices, re-translated from /repo on this run, yields for n >= 0; for n <= 0 it yields nothing",
    "C07_model_is_source_get_lower_triangular_indices_chunk": "get_lower_triangular_indices_chunk translated as ONE whole function (assert, checked // and %, the generator's list, consume / list(islice) as skipn / firstn refusing a negative count) = Chunks.chunk_checked for all integer arguments; for 0 <= chunk_index < n_chunks that is Chunks.chunk; a dimension <= 0 gives the empty chunk",
    "C07_model_is_source_init": "ChunkedDistanceMatrix.__init__ translated: chunk_size argument unless None or 0, else the length of the (n_chunks, chunk_index) chunk; negative refused by np.zeros; the new object is well formed and represents the empty matrix",
    "C07_model_is_source_add_value": "add_value + _expand_storage translated: on a well-formed stored object with room it is the model's add_value through the representation map (guards >= and <, entry appended, the already-calculated tests cannot fire); on an object built for an empty chunk (no room) a value passing the guards raises IndexError",
    "C07_model_is_source_is_complete": "is_complete translated = model's count test",
    "C07_model_is_source_combine": "combine translated (size test, prefix copy into a new object, duplicate suppression by (row, col) membership as written, add_value per new entry) = model's combine, for well-formed objects (a size<2 matrix is not combined with one holding a value)",
    "C07_model_is_source_concat": "concat translated (single element returned as is, empty list refused, size test + combine per further matrix) = model's dm_concat",
    "C07_model_is_source_to_dense": "to_dense translated (refusal of an incomplete matrix, zero matrix, both mirrored cells written per entry) = model's to_dense, for objects whose stored index pairs are inside the matrix",
    "C07_model_is_source_calculate_pairwise": "calculate_pairwise_distance_matrix_on_predictions translated, for ANY get_theta / predict_viability / metric = model's compute_chunk with d i j = metric(pred i, pred j) for 0 <= chunk_index < n_chunks; outside it fails as the chunk function does",
    "C07_model_is_source_save_load": "save translated (h5py calls as primitives over the record of the file's four datasets) writes the used prefixes of the three arrays and [size]; load translated, applied to what save wrote, gives a well-formed object representing the same matrix = the model's dm_load (dm_save m)",
    "C07_model_is_source_pipeline": "the translated calculate_pairwise, save, load per listed chunk, then concat, to_dense composed = the model's pipeline (the subject of C07_assemble / C07_incomplete_refused)",
    "C07_model_is_source_mse_distance": "MSEDistance.distance translated (sigmoid branch, a - b, ** 2, mean) = Mse.mse_distance on two vectors of one length",
    "C07_chunks_partition": "concat of all chunks in index order = enumeration of pairs i>j (all n, all n_chunks>=1)",
    "C07_chunks_cover_once": "every pair j<i<n occurs exactly once over all chunks, nothing else occurs",
    "C07_chunks_disjoint": "two different chunk indices share no pair",
    "C07_chunk_sizes_differ_by_at_most_one": "chunk sizes differ by <= 1",
    "C07_assemble": "any order (with repeats) covering all chunk indices densifies to the metric's matrix",
    "C07_dense_symmetric": "assembled matrix is symmetric",
    "C07_dense_zero_diagonal": "assembled matrix has zero diagonal",
    "C07_dense_entry_is_metric": "entry (a,b), b<a, is d a b",
    "C07_incomplete_refused": "a family of chunks missing a pair refuses to densify",
    "C07_mse_symmetric": "MSE metric symmetric for every expit",
    "C07_mse_nonneg": "MSE metric >= 0",
    "C07_mse_zero_on_identical": "MSE metric 0 on identical non-empty predictions",
}
ASSUMPTIONS = [
    "h5py dataset write/read is the identity on int64/float64 arrays (exercised by every pipeline case)",
    "the entry-list model abstracts the zero-initialised backing arrays of ChunkedDistanceMatrix away; the C07_model_is_source_* links prove that abstraction sound for the translated methods (storage_ok: every slot from current_index on is zero, so the already-calculated tests cannot fire)",
    "metric values cross the wire as integers (the stub metric returns integer-valued floats); MSEDistance itself is compared over exact rationals with tolerance 1e-9",
    "expit is an oracle (libm on the nearest double) in the model",
]
EXPLANATION = ("Model: Model/Chunks.v, Model/DistMat.v, Model/Mse.v. Modelled, not verified: h5py (save / load are the identity in the model), "
               "tqdm; the CLI wrapper calculate_distance_matrix.main is exercised in-process on real Screen/ThetaHolder files by implementation-only predicate cases (kind cli). "
               "Source-translation links (C07_model_is_source_*): consume, get_number_of_lower_triangular_indices, lower_triangular_indices, "
               "get_lower_triangular_indices_chunk, ChunkedDistanceMatrix.__init__ / _expand_storage / add_value / is_complete / to_dense / save / load / combine / concat, "
               "calculate_pairwise_distance_matrix_on_predictions and MSEDistance.distance are re-translated WHOLE from the source on every run "
               "(harness/py2gal.py, configurations C07_* in harness/src_functions.py, output Generated/SrcChunks.v, SrcDistMat.v, SrcMse.v) and proved equal to the model "
               "(the matrix methods through the explicit representation map DistMat.dm_of_storage: entry k = (row_indices[k], col_indices[k], values[k]) for k < current_index, "
               "under the storage invariant storage_ok that __init__ establishes and every method is proved to keep). "
               "These links TRUST the translator (incl. its new constructs: assert, checked // and %, truthiness of an Optional[int], x.attr[i] = v, x.attr += e) and exactly these primitives: "
               "an iterator over a generator = the list of its remaining items; collections.deque(islice(it, n), maxlen=0) = drop n items, list(islice(it, k)) = take k items, both ValueError for a negative count; "
               "len; np.zeros(n, dtype=int|float) = n zeros (ValueError for n < 0); np.zeros((n, m)); np.concatenate((a, b)) = a ++ b; a[:k] (numpy prefix slice); a[i] read / a[i] = v / a[i, j] = v with one wrap of a negative index and IndexError outside; "
               "a[:k] = v (lengths equal, or one item broadcast, else ValueError); x != 0 on an int / on a stored value; (r, c) not in zip(a, b) = no position holds the pair; ChunkedDistanceMatrix(s, chunk_size=c) / ChunkedDistanceMatrix(size=, chunk_index=, n_chunks=) = the translated __init__ on a blank object with the signature's defaults (checked); "
               "a.combine(b), self.is_complete(), self._expand_storage(), x.add_value(...) = the translated methods; tqdm.tqdm(l) iterates l; logger.info ignored; thetas.n_thetas, thetas.get_theta(i), sample.predict_viability(data), distance_metric.distance(a, b) = arbitrary values / functions; "
               "self.sigmoid; expit(x) = the oracle elementwise; x - y (elementwise, one item broadcast, else ValueError), x ** 2, np.mean(x) (NaN of an empty array = the model's error 6). "
               "Hypotheses of the links, all facts about every object the pipeline builds: storage_ok (constructed objects), has_room / the size >= 2 side conditions (an object built for an EMPTY chunk has no slot and chunk_size 0: add_value on it would raise IndexError - "
               "the pipeline never adds to it), entries_in_range (stored indices come from the enumeration, so they are not negative), equal prediction lengths for the metric. "
               "save / load are linked with the h5py calls as primitives over the record of the file's four datasets: h5py.File(name, 'w') = a file without datasets, create_dataset(name, data=a, compression='gzip') stores a under name, "
               "h5py.File(name, 'r') = the file's content, f[name][:] the whole array (KeyError when absent), f['size'][0] its first item, np.array([x]) = [x], cls(size, chunk_size=c) = the translated __init__; "
               "load is linked on files written by save (the pipeline's only use); that h5py really round-trips int64 / float64 arrays is exercised by every pipeline case.")
EXPLANATION = ("Model: Model/Chunks.v, Model/DistMat.v, Model/Mse.v. Modelled, not verified: numpy array storage, h5py, "
               "tqdm; the CLI wrapper calculate_distance_matrix.main is exercised in-process on real Screen/ThetaHolder files by implementation-only predicate cases (kind cli).")
# ---- source-translation links of the command-line wrappers (Model/Cli.v, Generated/SrcCli.v) ----
THEOREMS.update({
    'C07_model_is_source_cli_calculate_distance_matrix': 'the translation of the whole function calculate_distance_matrix.main regenerated on this run equals, for every record L of library functions and all parsed arguments, Cli.cli_calculate_distance_matrix: calculate_pairwise_distance_matrix_on_predictions on the concatenation of the --thetas files (argument order), the metric object, the loaded screen, --chunk-index, --n-chunks, saved to --output',
})
EXPLANATION += ("  CLI wrapper: calculate_distance_matrix.main is re-translated as a WHOLE function on every run (Generated/SrcCli.v) and proved equal to Model/Cli.v.  The link trusts the translator harness/py2gal.py (for these links extended by cfg typed_effects, kwcalls keys `module.function`, state_calls assigned to a tuple), the representation of Model/Cli.v (parsed arguments = a record of the plain argparse results, get_args() not translated = the primitive `get_args()` yielding that record; a main() denotes the list of (path, content) files it writes; `L` = ANY record of library functions over abstract types) and EXACTLY these primitives of harness/src_functions.py, each one field read / one library or constructor call standing for the function of that name (whose own link, where it exists, is the one of its property): CLI_DISTANCE_MATRIX: the fields of `args` read as the record's projections (a store to one is refused); ignored: log_config.configure_logging(args), logger.info/warning; Screen.load_h5(p), ThetaHolder(n_thetas=1), h.load_h5(p), h.concat(l), args.metric_cls(**args.metric_params), the keyword call calculate_pairwise_distance_matrix_on_predictions(...) with its default progress=False, typed effect r.save(p). ")

# ---- wave 6 of the source link: the constructor of MSEDistance (Generated/SrcInits.v, Proofs/C07Source_Init_MSEDistance.v, C07Source_ConstructedMse.v) ----
THEOREMS.update({
    "C07_model_is_source_mse_distance_init": "the translated MSEDistance.__init__ stores sigmoid (default True, checked against the signature): the flag the translated distance reads is the constructor argument",
    "C07_source_constructed_mse_distance": "translated __init__ composed with the translated distance: an MSEDistance constructed with `sigmoid` is the model mse_distance with that flag",
})
EXPLANATION += ("  CONSTRUCTOR: MSEDistance.__init__ is re-translated on every run (LS_INIT_MSE -> Generated/SrcInits.v) and proved to store its flag; "
                "trusted: the translator only (no primitive): `self.<attr>` is a variable of the translation (attr_vars), the value of the translated __init__ is the tuple of the attributes when it ends; an attribute that is not declared is refused.")

# ---- gap review G7.2: calculate_distance_matrix.get_args translated, main() as a whole command (Generated/SrcCliArgsDist.v, Proofs/C07SourceArgs.v) ----
THEOREMS.update({
    "C07_model_is_source_cli_args_get_args": "the translation of the WHOLE function calculate_distance_matrix.get_args (parse_args() = the raw namespace) equals Cli.cd_get_args: class lookup among DistanceMetric subclasses, its required-argument annotations, --distance-metric-param cast by them ({} when the option is absent), stored in metric_cls / metric_params; no other attribute of the namespace is written (args.thetas keeps its command-line order)",
    "C07_model_is_source_cli_args_calculate_distance_matrix": "calculate_distance_matrix.main translated as a whole command (get_args() = the translated get_args; args.metric_cls(**args.metric_params) = construct on the two attributes) equals Cli.cli_calculate_distance_matrix_cmd",
    "C07_model_is_source_cli_args_calculate_distance_matrix_world": "the same with the introspection record made of the TRANSLATED get_class / get_required_init_args_with_annotations (Props/C18.v)",
    "C07_cli_metric_is_configured": "whenever the translated command writes its file: the class named by --distance-metric was found, the --distance-metric-param items were cast by its required-argument annotations, construct on that class and EXACTLY those parameters gave the metric, and the file holds what the library computes with that metric (an option that is dropped or ignored contradicts this)",
    "C07_cli_defaulted_metric_param_is_key_error": "observation, outside the property: a --distance-metric-param key naming an __init__ argument that has a default is a KeyError (types are looked up among required arguments only) - so MSEDistance's only option sigmoid cannot be given on the command line",
})
THEOREMS.update({
    "C07_hand_built_incomplete_refused": "gap review G7.1: ANY matrix whose stored keys are distinct, strictly lower-triangular and in range (= what add_value calls in any order build) and that misses a pair refuses to densify",
    "C07_hand_built_complete_densifies": "such a matrix with every pair stored densifies to the symmetric zero-diagonal matrix of its values",
    "C07_to_dense_accepts_ill_formed_refuted": "the side condition is needed: add_value accepts a diagonal key and is_complete counts entries, so ChunkedDistanceMatrix(3) + add_value(1,1,5), (2,2,7), (1,0,3) densifies with two pairs missing and a non-zero diagonal (witness replayed on the implementation: extra check props-witness-ill-formed-densified); outside the property's quantifier",
})
RULE += ("  script (gap review G7.1): now with a predicate - a to_dense on a hand-built matrix whose stored keys are distinct, strictly lower-triangular and in range must refuse iff a pair is missing and "
         "otherwise give the symmetric zero-diagonal matrix of the stored values; a dedicated stream adds all pairs of a size 2-5 matrix by hand in random order over one or two objects "
         "(one pair left out / a diagonal, repeated or out-of-range key thrown in), concat, save + load, is_complete, to_dense; matrices with a diagonal / repeated key are tagged, not judged.  "
         "mse_edge (gap review G7.3): +-inf predictions and predictions of unequal lengths, outcome of the unchanged tree written down in _run_mse_edge (NaN for identical +-inf without sigmoid; a length-1 vector is broadcast).")
RULE += ("  cli (gap review G7.2 + seeded C07-m9): several --thetas files whose command-line order differs from the lexicographic order of their paths "
         "(12 single-sample files chain_0..chain_11 in numeric order, 3 files reversed, random shuffles; distinct predictions per posterior sample), 1 and several chunks: entry (i,j) of the assembled "
         "matrix = the configured metric on posterior samples i and j in COMMAND-LINE order (chain-major); --distance-metric-param on a harness-defined DistanceMetric with required "
         "annotated arguments (every boolean spelling, a float; the constructor refuses uncast strings) and on MSEDistance (sigmoid=...: KeyError on the unchanged tree = feature "
         "defaulted-param-refused, no verdict; if the command runs the entries must be those of the metric as configured).")
EXPLANATION += ("  CLI ARGUMENTS (gap review G7.2): calculate_distance_matrix.get_args and main() as a whole command are re-translated on every run (configurations ARGS_GET_ARGS_CD / ARGS_CMD_CD, "
                "Generated/SrcCliArgsDist.v) and proved equal to Cli.cd_get_args / cli_calculate_distance_matrix_cmd.  Trusted there: the translator; get_parser() = a handle, parser.parse_args() = the raw "
                "namespace `raw` (ANY record cd_ns; the option table itself is read by argparse_reader and stated in C18), introspection.get_class / get_required_init_args_with_annotations = the components of the "
                "introspection record (instantiated by their own translations in the _world theorem), cast_dict_to_type = its translation, DistanceMetric = the base-class token, "
                "c(**p) = construct c p; the namespace attributes get_args may WRITE are metric_cls and metric_params only (a store to any other attribute, e.g. args.thetas, is refused: broken obligation).  "
                "Runtime: kind cli runs main() in-process with --distance-metric-param; the parametrised metric class is defined by the harness and made visible to get_class as an attribute of the module "
                "batchie.distance.mse for the duration of the case (the package ships no metric with a required argument).  OBSERVATION (not a clause of C07): on the unchanged tree "
                "`--distance-metric-param sigmoid=false` raises KeyError('sigmoid') because parameter types are looked up only among __init__ arguments without a default. ")


def _tmpdir():
    os.makedirs(common.WORK, exist_ok=True)
    return tempfile.mkdtemp(dir=common.WORK)


class _StubTheta:
    def __init__(self, i):
        self.i = i

    def predict_viability(self, data):
        return np.array([float(self.i)])


class _StubThetas:
    def __init__(self, n):
        self.n_thetas = n

    def get_theta(self, i):
        return _StubTheta(i)


class _TableMetric:
    def __init__(self, table):
        self.table = table

    def distance(self, a, b):
        return float(self.table[int(a[0])][int(b[0])])


def gen(rng, tier):
    # chunks: exhaustive grid
    nmax, cmax = (9, 40) if tier == "quick" else (13, 90)
    for n in range(0, nmax + 1):
        for c in range(1, cmax + 1):
            yield dict(kind="chunks", n=n, c=c)
    for _ in range(10 if tier == "quick" else 60):
        yield dict(kind="chunks", n=rng.randint(14, 60), c=rng.randint(1, 2500))
    # pipeline
    for _ in range(120 if tier == "quick" else 1500):
        n = rng.choice([0, 1, 2, 3, 3, 4, 4, 5, 5, 6, 7])
        npairs = n * (n - 1) // 2
        c = rng.choice([1, 1, 2, 3, 4, 5, max(1, npairs), npairs + 1, npairs + 3, rng.randint(1, 30)])
        mode = rng.choice(["perm", "perm", "repeat", "repeat", "missing", "single", "swap", "swap"])
        idx = list(range(c))
        if mode == "perm":
            rng.shuffle(idx)
            order = idx
        elif mode == "repeat":
            order = idx + [rng.randrange(c) for _ in range(rng.randint(1, 4))]
            rng.shuffle(order)
        elif mode == "missing":
            order = [k for k in idx if rng.random() < 0.7] or [rng.randrange(c)]
            rng.shuffle(order)
        elif mode == "swap" and c >= 2:
            # as many chunk files as chunks, but one (or two) replaced by a repeat of another: the number of stored
            # values can equal the number of pairs although pairs are missing
            order = list(idx)
            for _ in range(rng.choice([1, 1, 2])):
                a, b = rng.sample(range(c), 2)
                order[a] = order[b]
            rng.shuffle(order)
        else:
            order = [rng.randrange(c)]
        vals = list(range(0, n * n + 3))
        rng.shuffle(vals)
        table = [[vals[i * n + j] for j in range(n)] for i in range(n)]
        yield dict(kind="pipeline", n=n, c=c, order=order, table=table)
        # the same case against the TRANSLATED source (driver op 4): exercises the primitives the links trust
        yield dict(kind="srcpipeline", n=n, c=c, order=order, table=table)
    # scripts of ChunkedDistanceMatrix calls, real class vs translated methods (driver op 5)
    for _ in range(150 if tier == "quick" else 1500):
        yield dict(kind="script", script=_gen_script(rng))
    # hand-built matrices (gap review G7.1): all pairs of a size-n matrix added by hand in a random order over one or two
    # objects (one pair possibly left out, a diagonal / repeated / out-of-range key possibly thrown in), concat, save + load, to_dense
    for _ in range(60 if tier == "quick" else 600):
        yield dict(kind="script", script=_gen_hand_built(rng))
    # the CLI wrapper, in-process, on real Screen / ThetaHolder files (implementation-only predicate)
    for _ in range(6 if tier == "quick" else 40):
        n1, n2 = rng.randint(1, 3), rng.randint(0, 3)
        n = n1 + n2
        npairs = n * (n - 1) // 2
        c = rng.choice([1, 2, 3, max(1, npairs), npairs + 2])
        order = list(range(c)) + [rng.randrange(c) for _ in range(rng.randint(0, 2))]
        rng.shuffle(order)
        yield dict(kind="cli", chains=[n1, n2], c=c, order=order, alphas=[rng.randint(-24, 24) / 8.0 for _ in range(n)])
    # ... several --thetas files whose command-line order is NOT the lexicographic order of their paths (the matrix index is
    # the position in command-line order, chain-major), and --distance-metric-param (gap review G7.2)
    yield from _gen_cli_files(rng, tier)
    # mse
    for _ in range(60 if tier == "quick" else 600):
        m = rng.choice([0, 1, 1, 2, 3, 5, 8])
        mk = lambda: [rng.choice([rng.randint(-40, 40) / 8.0, rng.uniform(-6, 6), 0.0]) for _ in range(m)]
        a = mk()
        b = rng.choice([mk(), list(a)])
        yield dict(kind="mse", sigmoid=rng.random() < 0.5, a=a, b=b)
    # gap review G7.3: inputs the pipeline never produces (predictions are clipped viabilities of ONE screen), with the outcome
    # of the unchanged tree written down: non-finite predictions, predictions of unequal lengths
    for _ in range(12 if tier == "quick" else 80):
        m = rng.choice([1, 2, 3, 5])
        if rng.random() < 0.5:
            a = [rng.choice(["inf", "-inf", "inf", "1.5", "0.0"]) for _ in range(m)]
            b = list(a) if rng.random() < 0.6 else [rng.choice(["inf", "-inf", "2.0"]) for _ in range(m)]
        else:
            a = [repr(rng.randint(-16, 16) / 8.0) for _ in range(m + rng.choice([1, 2]))]
            b = [repr(rng.randint(-16, 16) / 8.0) for _ in range(rng.choice([1, 1, m]))]
        yield dict(kind="mse_edge", sigmoid=rng.random() < 0.5, a=a, b=b)


def _distinct_alphas(rng, n):
    """n different logits on a grid of eighths: every posterior sample predicts a different viability"""
    return [x / 8.0 for x in rng.sample(range(-24, 25), n)]


_BOOL_WORDS = {True: ["true", "T", "yes", "y", "1", "True"], False: ["false", "F", "no", "n", "0", "False"]}


def _gen_cli_files(rng, tier):
    big = tier != "quick"

    def case(names, chains, c, mparam=None, repeat=0):
        n = sum(chains)
        order = list(range(c)) + [rng.randrange(c) for _ in range(repeat)]
        rng.shuffle(order)
        d = dict(kind="cli", chains=chains, names=names, c=c, order=order, alphas=_distinct_alphas(rng, n))
        if mparam is not None:
            d.update(mparam)
        return d

    def mparam():
        r = rng.random()
        if r < 0.34:
            return None
        if r < 0.5:      # the shipped metric, its only option: today a KeyError (the option is looked up among required arguments)
            b = rng.random() < 0.7
            return dict(metric="MSEDistance", params=[["sigmoid", rng.choice(_BOOL_WORDS[not b]), "bool", not b]])
        sg = rng.random() < 0.5
        sc = rng.choice([0.5, 2.0, 3.0, 0.25])
        ps = [["sigmoid", rng.choice(_BOOL_WORDS[sg]), "bool", sg], ["scale", repr(sc), "float", sc]]
        if rng.random() < 0.5:
            ps.reverse()
        return dict(metric="VerifParamMSE", params=ps)

    # twelve single-sample files chain_0 .. chain_11 in numeric order (chain_10 sorts before chain_2), 1 and several chunks
    yield case(["chain_%d.h5" % i for i in range(12)], [1] * 12, 1)
    yield case(["chain_%d.h5" % i for i in range(12)], [1] * 12, 3, mparam=dict(metric="VerifParamMSE", params=[["scale", "2.0", "float", 2.0], ["sigmoid", "no", "bool", False]]))
    # three files in reverse lexicographic order, unequal sizes
    yield case(["c.h5", "b.h5", "a.h5"], [2, 1, 2], 1)
    yield case(["c.h5", "b.h5", "a.h5"], [1, 2, 1], 4, repeat=1)
    # the only option of the only shipped metric
    yield case(["t.h5"], [3], 2, mparam=dict(metric="MSEDistance", params=[["sigmoid", "false", "bool", False]]))
    for _ in range(6 if not big else 60):
        k = rng.choice([2, 3, 3, 4, 5, 11])
        chains = [rng.choice([1, 1, 2]) for _ in range(k)] if k < 11 else [1] * k
        scheme = rng.choice(["numeric", "shuffled", "reversed"])
        if scheme == "numeric" and k < 11:
            names = ["chain_%d.h5" % i for i in rng.sample(range(8, 13), min(k, 5))]
            names = sorted(names, key=lambda s_: int(s_[6:-3]))      # numeric order; 8, 9 sort after 10 lexicographically
            chains = chains[:len(names)]
        elif scheme == "numeric":
            names = ["chain_%d.h5" % i for i in range(k)]
        else:
            names = ["%s.h5" % ch for ch in "abcdefghijkl"[:k]]
            if scheme == "reversed":
                names.reverse()
            else:
                while names == sorted(names):
                    rng.shuffle(names)
        n = sum(chains)
        npairs = n * (n - 1) // 2
        c = rng.choice([1, 2, 3, npairs + 1]) if n <= 6 else rng.choice([1, 2, 3])
        yield case(names, chains, c, mparam=mparam(), repeat=rng.choice([0, 0, 1]))


def _gen_hand_built(rng):
    n = rng.choice([2, 3, 3, 4, 4, 5])
    pairs = [(i, j) for i in range(n) for j in range(i)]
    rng.shuffle(pairs)
    flavour = rng.choice(["complete", "complete", "missing", "missing", "diagonal", "repeat", "range"])
    if flavour == "missing":
        pairs = pairs[:-rng.randint(1, min(2, len(pairs)))]
    two = rng.random() < 0.4 and len(pairs) >= 2
    cut = rng.randint(1, len(pairs) - 1) if two else len(pairs)
    room = len(pairs) + 3
    cmds = [[0, n, 1, 0, [room]]] + ([[0, n, 1, 0, [room]]] if two else [])
    vals = rng.sample(range(0, 40), len(pairs))          # distinct values (0 included): a misplaced entry shows
    adds = [[1, 0 if k < cut else 1, i, j, vals[k]] for k, (i, j) in enumerate(pairs)]
    if flavour == "diagonal":
        a = rng.randrange(n)
        adds.insert(rng.randint(0, len(adds)), [1, 0, a, a, 17])
        if rng.random() < 0.5 and adds:
            adds.pop(rng.randrange(len(adds)))            # as many entries as pairs, one of them on the diagonal
    elif flavour == "repeat" and pairs:
        i, j = rng.choice(pairs[:cut])
        adds.insert(rng.randint(0, len(adds)), [1, 0, i, j, 23])
    elif flavour == "range":
        adds.insert(rng.randint(0, len(adds)), [1, 0, rng.choice([n, n + 1, 1]), rng.choice([-1, 0, -2]), 29])
    cmds += adds
    reg = 0
    if two:
        order = [0, 1] if rng.random() < 0.5 else [1, 0]
        cmds.append([3, order + ([rng.choice(order)] if rng.random() < 0.3 else [])])
        reg = 2
    if rng.random() < 0.5:
        cmds.append([7, reg])
        reg += 1
    cmds += [[4, reg], [5, reg]]
    return cmds


def _gen_script(rng):
    """a random script over a register file of matrices; mostly valid calls, a smaller stream of invalid ones"""
    cmds, regs = [], []      # regs: the size each live register was created with (None entries never happen: failed creations add none)
    size0 = rng.choice([0, 1, 2, 3, 3, 4, 4, 5])
    for _ in range(rng.randint(1, 14)):
        r = rng.random()
        if not regs or r < 0.2:
            size = size0 if rng.random() < 0.8 else rng.choice([0, 1, 2, 3, 4, 5, -1])
            nch = rng.choice([1, 1, 2, 3, 4, 7, 0, -1])
            ci = rng.randrange(max(nch, 1)) if rng.random() < 0.85 else rng.choice([-1, nch, nch + 1])
            cs = rng.choice([None, None, None, 0, 1, 2, 3, 6, -1])
            cmds.append([0, size, nch, ci, [] if cs is None else [cs]])
            # does the creation succeed?  (mirrors nothing of the code under test beyond the obvious refusals; a wrong guess
            # only makes later register numbers refer to a missing register, which both sides then refuse alike... so be exact)
            regs.append(size)      # placeholder, fixed up by _script_regs below
        elif r < 0.6:
            k = rng.randrange(len(regs))
            size = regs[k]
            if rng.random() < 0.8 and size >= 2:
                i = rng.randrange(1, size)
                j = rng.randrange(0, i)
            else:
                i, j = rng.randint(-2, size + 1), rng.randint(-2, size + 1)
            cmds.append([1, k, i, j, rng.choice([0, 1, 2, 3, 5, 8, 13, -4])])
        elif r < 0.75:
            cmds.append([2, rng.randrange(len(regs)), rng.randrange(len(regs))])
            regs.append(regs[cmds[-1][1]])
        elif r < 0.85:
            ks = [rng.randrange(len(regs)) for _ in range(rng.choice([0, 1, 2, 2, 3]))]
            cmds.append([3, ks])
            regs.append(regs[ks[0]] if ks else 0)
        elif r < 0.9:
            cmds.append([4, rng.randrange(len(regs))])
        elif r < 0.93:
            cmds.append([7, rng.randrange(len(regs))])
            regs.append(regs[cmds[-1][1]])
        elif r < 0.97:
            cmds.append([5, rng.randrange(len(regs))])
        else:
            cmds.append([6, rng.randint(-1, 6), rng.randint(-1, 4), rng.randint(-1, 4)])
    return cmds


_ERR_TAGS = [("Indices are out of bounds", 1), ("Indices must be lower triangular", 2), ("already been calculated", 12),
             ("must be of the same size", 3), ("Cannot concat matrices of different sizes", 3), ("Cannot concat empty list", 4),
             ("The distance matrix is not complete", 5), ("islice", 8), ("negative dimensions", 13), ("broadcast", 14)]


def _err_tag(e):
    """the model's error tag of an exception of the implementation (Model/DistMat.v, Model/Chunks.v, Lib/PyRt.v)"""
    if isinstance(e, AssertionError):
        return 9
    if isinstance(e, ZeroDivisionError):
        return 10
    if isinstance(e, IndexError):
        return 98
    if isinstance(e, ValueError):
        for frag, tag in _ERR_TAGS:
            if frag in str(e):
                return tag
    raise e      # an exception the translation has no tag for: surfaces as a harness error, never dropped


def _run_script(cmds):
    """the script on the real ChunkedDistanceMatrix; a command whose register does not exist is skipped on both sides by
    construction: register numbers are made valid here (modulo the live count), the rewritten script is what goes on the wire"""
    import copy

    from batchie.distance_calculation import ChunkedDistanceMatrix, get_lower_triangular_indices_chunk

    regs, outs, wire, obs = [], [], [], []

    def attempt(f):
        try:
            return [0, f()]
        except Exception as e:
            return [1, _err_tag(e)]

    def fix(k):
        return k % len(regs)

    for cmd in cmds:
        op = cmd[0]
        if op != 0 and op != 6 and not regs and not (op == 3 and not cmd[1]):
            continue
        if op == 0:
            _, size, nch, ci, cs = cmd
            wire.append(cmd)
            res = attempt(lambda: ChunkedDistanceMatrix(size, n_chunks=nch, chunk_index=ci, chunk_size=(cs[0] if cs else None)))
        elif op == 1:
            k = fix(cmd[1])
            wire.append([1, k] + cmd[2:])
            res = attempt(lambda: regs[k].add_value(cmd[2], cmd[3], float(cmd[4])))
            if res[0] == 0:
                res = [0, []]
        elif op == 2:
            a, b = fix(cmd[1]), fix(cmd[2])
            wire.append([2, a, b])
            res = attempt(lambda: regs[a].combine(regs[b]))
        elif op == 3:
            ks = [fix(k) for k in cmd[1]]
            wire.append([3, ks])
            # concat of a single matrix returns that object itself; the registers hold values, so copy it
            res = attempt(lambda: copy.deepcopy(ChunkedDistanceMatrix.concat([regs[k] for k in ks])))
        elif op == 7:
            k = fix(cmd[1])
            wire.append([7, k])
            res = attempt(lambda: _save_load(regs[k]))
        elif op == 4:
            k = fix(cmd[1])
            wire.append([4, k])
            res = attempt(lambda: 1 if regs[k].is_complete() else 0)
        elif op == 5:
            k = fix(cmd[1])
            wire.append([5, k])
            res = attempt(lambda: [[_as_int(x) for x in row] for row in regs[k].to_dense().tolist()])
            m_ = regs[k]
            cur_ = int(m_.current_index)
            obs.append(dict(size=int(m_.size), keys=[(int(r_), int(c_)) for r_, c_ in zip(m_.row_indices[:cur_], m_.col_indices[:cur_])],
                            vals=[float(x) for x in m_.values[:cur_]], res=res))
        else:
            wire.append(cmd)
            res = attempt(lambda: [[int(i), int(j)] for i, j in get_lower_triangular_indices_chunk(cmd[1], cmd[2], cmd[3])])
        if op in (0, 2, 3, 7) and res[0] == 0:
            regs.append(res[1])
            res = [0, []]
        outs.append(res)
    dump = [[int(m.size), int(m.chunk_size), int(m.current_index), [int(x) for x in m.row_indices], [int(x) for x in m.col_indices],
             [_as_int(x) for x in m.values]] for m in regs]
    return wire, [outs, dump], obs


def _pred_hand_built(obs):
    """gap review G7.1: 'a matrix missing any pair refuses to be densified' on matrices built by hand through the public class.
    Judged only for matrices whose stored keys are distinct, strictly lower-triangular and in range (what any family of chunk
    files can produce, in any order): missing a pair <=> refused, and a densified matrix is symmetric with zero diagonal and
    carries each stored value at both mirrored cells.  A matrix with a diagonal / repeated / negative key is outside the
    property (the class accepts such keys: Props/C07.v, C07_to_dense_accepts_ill_formed_refuted); it is only tagged."""
    pred, tags = None, set()
    for o in obs:
        n, keys = o["size"], o["keys"]
        wf = len(set(keys)) == len(keys) and all(0 <= j < i < n for i, j in keys)
        if not wf:
            tags.add("ill-formed-densified" if o["res"][0] == 0 else "ill-formed-refused")
            continue
        complete = len(keys) == n * (n - 1) // 2
        if o["res"][0] == 0:
            D = o["res"][1]
            if not complete:
                pred = "hand-built matrix of size %d missing a pair was densified (stored keys %r)" % (n, keys)
            else:
                exp = [[0] * n for _ in range(n)]
                for (i, j), v in zip(keys, o["vals"]):
                    exp[i][j] = exp[j][i] = int(v)
                if D != exp:
                    pred = "hand-built complete matrix densified to %r, stored values give %r" % (D, exp)
            tags.add("hand-built-densified")
        else:
            if complete and n >= 0:
                pred = "hand-built complete matrix of size %d refused: error tag %r" % (n, o["res"][1])
            tags.add("hand-built-refused")
    return pred, sorted(tags)


def extra(tier):
    """the witness of C07_to_dense_accepts_ill_formed_refuted (Props/C07.v) replayed on the implementation"""
    from batchie.distance_calculation import ChunkedDistanceMatrix

    def go():
        m = ChunkedDistanceMatrix(3)
        m.add_value(1, 1, 5.0)
        m.add_value(2, 2, 7.0)
        m.add_value(1, 0, 3.0)
        return [[int(x) for x in row] for row in m.to_dense().tolist()]
    got = impl_call(go)
    want = [[0, 3, 0], [3, 5, 0], [0, 0, 7]]
    return [("props-witness-ill-formed-densified", got == want,
             "ChunkedDistanceMatrix(3) + add_value(1,1,5), (2,2,7), (1,0,3): to_dense gave %r, the model (Props/C07.v) says %r" % (got, want))]


def _save_load(m):
    from batchie.distance_calculation import ChunkedDistanceMatrix

    d = _tmpdir()
    try:
        fn = os.path.join(d, "m.h5")
        m.save(fn)
        return ChunkedDistanceMatrix.load(fn)
    finally:
        shutil.rmtree(d, ignore_errors=True)


def _as_int(x):
    if x != int(x):
        raise ValueError("non-integer stored value %r" % (x,))
    return int(x)


def run(desc):
    from batchie.distance_calculation import (
        ChunkedDistanceMatrix,
        calculate_pairwise_distance_matrix_on_predictions,
        get_lower_triangular_indices_chunk,
        lower_triangular_indices,
    )
    from batchie.distance.mse import MSEDistance

    k = desc["kind"]
    if k == "chunks":
        n, c = desc["n"], desc["c"]
        chunks = [[list(p) for p in get_lower_triangular_indices_chunk(n, i, c)] for i in range(c)]
        flat = [tuple(p) for ch in chunks for p in ch]
        expect = [(i, j) for i in range(n) for j in range(i)]
        pred = None
        if flat != expect:
            pred = "chunks do not concatenate to every pair i>j exactly once"
        sizes = [len(ch) for ch in chunks]
        if sizes and max(sizes) - min(sizes) > 1:
            pred = "chunk sizes differ by more than one: %r" % (sizes,)
        feats = ["chunks"] + (["n_chunks>pairs"] if c > len(expect) else []) + (["trivial"] if n < 2 else []) + (["remainder"] if len(expect) % c else [])
        return dict(wire=[0, n, c], impl=chunks, pred=pred, features=feats)
    if k == "script":
        wire, impl, obs = _run_script(desc["script"])
        errs = sorted({"err%d" % o[1] for o in impl[0] if o[0] == 1})
        ops = sorted({"op%d" % c[0] for c in wire})
        pred, tags = _pred_hand_built(obs)
        return dict(wire=[5, wire], impl=impl, pred=pred, features=["script"] + errs + ops + tags + (["trivial"] if len(wire) < 2 else []))
    if k in ("pipeline", "srcpipeline"):
        n, c, order, table = desc["n"], desc["c"], desc["order"], desc["table"]
        d = _tmpdir()
        try:
            def go():
                ms = []
                for pos, idx in enumerate(order):
                    m = calculate_pairwise_distance_matrix_on_predictions(
                        thetas=_StubThetas(n), distance_metric=_TableMetric(table), data=None,
                        chunk_index=idx, n_chunks=c)
                    fn = os.path.join(d, "chunk_%d.h5" % pos)
                    m.save(fn)
                    ms.append(ChunkedDistanceMatrix.load(fn))
                return ChunkedDistanceMatrix.concat(ms).to_dense()
            out = impl_call(go)
        finally:
            shutil.rmtree(d, ignore_errors=True)
        covers = set(order) >= set(range(c))
        present = set()
        for idx in order:
            present |= {tuple(p) for p in get_lower_triangular_indices_chunk(n, idx, c)}
        complete = len(present) == n * (n - 1) // 2
        pred = None
        if isinstance(out, ImplError):
            impl = out
            if complete:
                pred = "complete family of chunks refused: %r" % (out,)
        else:
            if not np.all(out == np.floor(out)):
                pred = "non-integer value in dense matrix"
            impl = [[int(x) for x in row] for row in out.tolist()]
            expect = [[(table[a][b] if b < a else (table[b][a] if a < b else 0)) for b in range(n)] for a in range(n)]
            if not complete:
                pred = "matrix missing a pair was densified"
            elif impl != expect:
                pred = "assembled matrix differs from the metric's matrix"
        feats = ["pipeline"] + (["repeat"] if len(order) != len(set(order)) else []) + (["covers"] if covers else ["missing-chunk"]) \
            + (["n_chunks>pairs"] if c > n * (n - 1) // 2 else []) + (["trivial"] if n < 2 else []) + (["zero-value"] if any(table[a][b] == 0 for a in range(n) for b in range(a)) else [])
        if k == "srcpipeline":
            feats = ["translated-source" if f == "pipeline" else f for f in feats]
        return dict(wire=[1 if k == "pipeline" else 4, n, c, order, table], impl=impl, pred=pred, features=feats, cmp=cmp_result())
    if k == "cli":
        return _run_cli(desc)
    if k == "mse":
        a, b, sg = desc["a"], desc["b"], desc["sigmoid"]
        import warnings
        with warnings.catch_warnings():
            warnings.simplefilter("ignore")
            # the SAME two arrays serve every call, as the predictions of a posterior sample serve every pair it is part of
            A, B = np.array(a, dtype=float), np.array(b, dtype=float)
            v = MSEDistance(sigmoid=sg).distance(A, B)
            v2 = MSEDistance(sigmoid=sg).distance(B, A)
            v3 = MSEDistance(sigmoid=sg).distance(A, B)
        pred = None
        if not (np.array_equal(A, np.array(a, dtype=float), equal_nan=True) and np.array_equal(B, np.array(b, dtype=float), equal_nan=True)):
            pred = "metric modified the predictions it was given (every later entry computed from them differs)"
        if len(a) > 0:
            if not (v3 == v or (v3 != v3 and v != v)):
                pred = "metric gives %r then %r on the same two prediction arrays" % (float(v), float(v3))
            if v != v2:
                pred = "metric not symmetric"
            if v < 0:
                pred = "metric negative"
            if a == b and v != 0:
                pred = "metric non-zero on identical predictions"
            impl = float(v)
        else:
            impl = ImplError(ValueError("nan mean of empty"))

        def cmpf(m, i):
            if not common.close(m, i, 1e-9):
                return "mse differs: model %s impl %r" % (float(Fraction(m[0], m[1])), i)
            return None
        feats = ["mse", "sigmoid" if sg else "raw"] + (["identical"] if a == b else []) + (["trivial"] if len(a) == 0 else [])
        return dict(wire=[2, sg, [frac(x) for x in a], [frac(x) for x in b]], impl=impl, pred=pred, features=feats, cmp=cmp_result(cmpf))
    if k == "mse_edge":
        return _run_mse_edge(desc)
    raise ValueError(k)


def _run_mse_edge(desc):
    """MSEDistance outside the pipeline's inputs; implementation only (the model is over rationals of one length).  Written down,
    not judged: (1) sigmoid=False on identical predictions containing +-inf gives NaN (inf - inf), sigmoid=True gives 0.0
    (expit(+-inf) = 1 / 0); (2) unequal lengths: a length-1 vector is broadcast silently (the model and the link say: equal
    lengths only, Mse.mse_distance = Err 7), other unequal lengths raise ValueError.  Judged: symmetry and non-negativity
    whenever a number comes back, and 0 on identical FINITE-after-transformation predictions."""
    import warnings

    from batchie.distance.mse import MSEDistance

    a, b, sg = [float(x) for x in desc["a"]], [float(x) for x in desc["b"]], desc["sigmoid"]
    A, B = np.array(a, dtype=float), np.array(b, dtype=float)
    with warnings.catch_warnings():
        warnings.simplefilter("ignore")
        v = impl_call(lambda: float(MSEDistance(sigmoid=sg).distance(A, B)))
        v2 = impl_call(lambda: float(MSEDistance(sigmoid=sg).distance(B, A)))
    feats = ["mse-edge", "sigmoid" if sg else "raw"]
    pred = None
    nonfinite = any(x in (float("inf"), float("-inf")) for x in a + b)
    if len(a) != len(b):
        feats.append("unequal-lengths")
        if isinstance(v, ImplError):
            feats.append("unequal-lengths-refused")
            if len(a) == 1 or len(b) == 1:
                pred = "harness expectation: a length-1 prediction is broadcast, got %r" % (v,)
        else:
            feats.append("broadcast-accepted")
            if not (len(a) == 1 or len(b) == 1):
                pred = "metric returned %r on predictions of lengths %d and %d" % (v, len(a), len(b))
    if nonfinite:
        feats.append("non-finite")
    if not isinstance(v, ImplError):
        if isinstance(v2, ImplError) or not (v == v2 or (v != v and v2 != v2)):
            pred = "metric not symmetric: %r / %r" % (v, v2)
        if v < 0:
            pred = "metric negative"
        if a == b and v != 0:
            if v != v and not sg and nonfinite:
                feats.append("identical-nonfinite-nan")       # documented: inf - inf
            else:
                pred = "metric %r on identical predictions" % (v,)
    return dict(wire=None, impl=None, pred=pred, features=feats)


def _param_metric_cls():
    """a DistanceMetric with REQUIRED annotated __init__ arguments (the package ships none): the scaled MSE.  Made visible to
    introspection.get_class by a module attribute set for the duration of one case (in this process only; /repo is untouched)."""
    from scipy.special import expit

    from batchie.core import DistanceMetric

    class VerifParamMSE(DistanceMetric):
        def __init__(self, sigmoid: bool, scale: float, power: int = 2):
            if type(sigmoid) is not bool or type(scale) is not float:
                raise TypeError("VerifParamMSE: parameters were not cast by their annotations: %r %r" % (sigmoid, scale))
            self.sigmoid, self.scale, self.power = sigmoid, scale, power

        def distance(self, a, b):
            if self.sigmoid:
                a, b = expit(a), expit(b)
            return self.scale * np.mean((a - b) ** self.power)

    return VerifParamMSE


def _run_cli(desc):
    """calculate_distance_matrix.main() per chunk index on real files, then concat + to_dense.  The --thetas files are given in
    the order of desc["names"] (default thetas_0.h5, thetas_1.h5); posterior sample i of the property is the i-th sample in
    COMMAND-LINE order, chain-major.  desc["metric"] / desc["params"]: --distance-metric and --distance-metric-param words."""
    import sys
    from unittest import mock

    from scipy.special import expit

    import batchie.distance.mse as mse_mod
    from batchie.cli import calculate_distance_matrix
    from batchie.core import ThetaHolder
    from batchie.data import Screen
    from batchie.distance_calculation import ChunkedDistanceMatrix
    from batchie.models.sparse_combo import SparseDrugComboMCMCSample

    alphas, chains, c, order = desc["alphas"], desc["chains"], desc["c"], desc["order"]
    names = desc.get("names") or ["thetas_%d.h5" % ci for ci in range(len(chains))]
    metric, params = desc.get("metric", "MSEDistance"), desc.get("params") or []
    n = len(alphas)
    d = _tmpdir()
    try:
        scr = Screen(treatment_names=np.array([["a"], ["b"], ["a"]], dtype=str), treatment_doses=np.array([[1.0], [2.0], [1.0]]),
                     sample_names=np.array(["s", "s", "t"], dtype=str), plate_names=np.array(["p", "p", "q"], dtype=str))
        scr.save_h5(os.path.join(d, "screen.h5"))
        files, pos = [], 0
        for ci, m in enumerate(chains):
            if m == 0:
                continue
            h = ThetaHolder(m)
            for a in alphas[pos:pos + m]:
                h.add_theta(SparseDrugComboMCMCSample(W=np.zeros((2, 1)), W0=np.zeros((2,)), V2=np.zeros((2, 1)), V1=np.zeros((2, 1)),
                                                      V0=np.zeros((2,)), alpha=float(a), precision=1.0))
            pos += m
            fn = os.path.join(d, names[ci])
            h.save_h5(fn)
            files.append(fn)
        extra = []
        for k_, word, _t, _v in params:
            extra += ["--distance-metric-param", "%s=%s" % (k_, word)]

        def go():
            ms = []
            for p_, idx in enumerate(order):
                out = os.path.join(d, "dist_%d.h5" % p_)
                argv = ["calculate_distance_matrix", "--data", os.path.join(d, "screen.h5"), "--thetas"] + files + [
                    "--distance-metric", metric] + extra + ["--n-chunks", str(c), "--chunk-index", str(idx), "--output", out]
                with mock.patch.object(mse_mod, "VerifParamMSE", _param_metric_cls(), create=True):
                    common.run_cli_main(calculate_distance_matrix, argv)
                ms.append(ChunkedDistanceMatrix.load(out))
            return ChunkedDistanceMatrix.concat(ms).to_dense()
        out = impl_call(go)
    finally:
        shutil.rmtree(d, ignore_errors=True)
    pred = None
    feats = ["cli"] + (["trivial"] if n < 2 else []) + (["two-chain-files"] if all(chains) and len(chains) == 2 else [])
    if len(files) > 1 and files != sorted(files):
        feats.append("thetas-order-not-lexicographic")
    if len(files) > 2:
        feats.append("many-thetas-files")
    if params:
        feats.append("metric-param:" + metric)
    conf = {k_: v_ for k_, _w, _t, v_ in params}
    sigmoid, scale = conf.get("sigmoid", True), conf.get("scale", 1.0)
    # the shipped MSEDistance has no required argument: the unchanged tree refuses its only option with KeyError (observation
    # recorded in Props/C07.v, C07_cli_defaulted_metric_param_is_key_error); not a clause of C07, so no verdict - but when the
    # command DOES run, the entries must be those of the metric as configured
    refused = (isinstance(out, ImplError) and metric == "MSEDistance" and params and out.cls == "KeyError"
               and out.msg.strip("'\"") in conf)
    if refused:
        feats.append("defaulted-param-refused")
    elif isinstance(out, ImplError):
        pred = "CLI pipeline over a covering family of chunks failed: %r" % (out,)
    else:
        v = [float(np.clip(expit(a), 0.01, 0.99)) for a in alphas]
        f = (lambda x: float(expit(x))) if sigmoid else (lambda x: x)
        if out.shape != (n, n):
            pred = "CLI-assembled matrix has shape %r for %d posterior samples" % (out.shape, n)
        for i in range(n if pred is None else 0):
            for j in range(n):
                e = 0.0 if i == j else scale * (f(v[i]) - f(v[j])) ** 2
                if abs(out[i, j] - e) > 1e-12:
                    pred = ("CLI-assembled matrix entry (%d,%d) = %r, the configured metric on posterior samples %d and %d (command-line order) = %r"
                            % (i, j, float(out[i, j]), i, j, e))
    return dict(wire=None, impl=None, pred=pred, features=feats)


def shrink(desc):
    if desc["kind"] == "pipeline":
        o = desc["order"]
        for i in range(len(o)):
            if len(o) > 1:
                yield dict(desc, order=o[:i] + o[i + 1:])
    if desc["kind"] == "chunks":
        if desc["n"] > 0:
            yield dict(desc, n=desc["n"] - 1)
        if desc["c"] > 1:
            yield dict(desc, c=desc["c"] - 1)
