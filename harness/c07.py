"""C07 — distance chunks partition the work and assemble to one matrix."""
import os
import shutil
import tempfile
from fractions import Fraction

import numpy as np

import common
from common import ImplError, cmp_result, frac, impl_call

ID = "C07"
LEVEL = "proof"
RULE = ("kinds: chunks (n, n_chunks) exhaustive over a grid; pipeline (n<=7, n_chunks, chunk order with "
        "repeats / omissions, distinct-valued metric table incl. 0) through the real "
        "calculate_pairwise_distance_matrix_on_predictions + save + load + concat + to_dense; mse (float vectors, "
        "sigmoid on/off).  Non-trivial: n>=2; distinct by canonical case description.")
THEOREMS = {
    "C07_chunks_partition": "concat of all chunks in index order = enumeration of pairs i>j (all n, all n_chunks>=1)",
    "C07_chunks_cover_once": "every pair j<i<n occurs exactly once over all chunks, nothing else occurs",
    "C07_chunks_disjoint": "two different chunk indices share no pair",
    "C07_chunk_sizes_differ_by_at_most_one": "chunk sizes differ by <= 1",
    "C07_assemble": "any order (with repeats) covering all chunk indices densifies to the metric's matrix",
    "C07_dense_symmetric": "assembled matrix is symmetric",
    "C07_dense_zero_diagonal": "assembled matrix has zero diagonal",
    "C07_dense_entry_is_metric": "entry (a,b), b<a, is d a b",
    "C07_incomplete_refused": "a family of chunks missing a pair refuses to densify",
    "C07_mse_symmetric": "MSE metric symmetric for every expit",
    "C07_mse_nonneg": "MSE metric >= 0",
    "C07_mse_zero_on_identical": "MSE metric 0 on identical non-empty predictions",
}
ASSUMPTIONS = [
    "h5py dataset write/read is the identity on int64/float64 arrays (exercised by every pipeline case)",
    "the zero-initialised backing arrays of ChunkedDistanceMatrix are abstracted away (slot at current_index is always 0 in pipeline-reachable states)",
    "metric values cross the wire as integers (the stub metric returns integer-valued floats); MSEDistance itself is compared over exact rationals with tolerance 1e-9",
    "expit is an oracle (libm on the nearest double) in the model",
]
EXPLANATION = ("Model: Model/Chunks.v, Model/DistMat.v, Model/Mse.v. Modelled, not verified: numpy array storage, h5py, "
               "tqdm; the CLI wrapper calculate_distance_matrix.main is not exercised.")


def _tmpdir():
    os.makedirs(common.WORK, exist_ok=True)
    return tempfile.mkdtemp(dir=common.WORK)


class _StubTheta:
    def __init__(self, i):
        self.i = i

    def predict_viability(self, data):
        return np.array([float(self.i)])


class _StubThetas:
    def __init__(self, n):
        self.n_thetas = n

    def get_theta(self, i):
        return _StubTheta(i)


class _TableMetric:
    def __init__(self, table):
        self.table = table

    def distance(self, a, b):
        return float(self.table[int(a[0])][int(b[0])])


def gen(rng, tier):
    # chunks: exhaustive grid
    nmax, cmax = (9, 40) if tier == "quick" else (13, 90)
    for n in range(0, nmax + 1):
        for c in range(1, cmax + 1):
            yield dict(kind="chunks", n=n, c=c)
    for _ in range(10 if tier == "quick" else 60):
        yield dict(kind="chunks", n=rng.randint(14, 60), c=rng.randint(1, 2500))
    # pipeline
    for _ in range(120 if tier == "quick" else 1500):
        n = rng.choice([0, 1, 2, 3, 3, 4, 4, 5, 5, 6, 7])
        npairs = n * (n - 1) // 2
        c = rng.choice([1, 1, 2, 3, 4, 5, max(1, npairs), npairs + 1, npairs + 3, rng.randint(1, 30)])
        mode = rng.choice(["perm", "perm", "repeat", "repeat", "missing", "single"])
        idx = list(range(c))
        if mode == "perm":
            rng.shuffle(idx)
            order = idx
        elif mode == "repeat":
            order = idx + [rng.randrange(c) for _ in range(rng.randint(1, 4))]
            rng.shuffle(order)
        elif mode == "missing":
            order = [k for k in idx if rng.random() < 0.7] or [rng.randrange(c)]
            rng.shuffle(order)
        else:
            order = [rng.randrange(c)]
        vals = list(range(0, n * n + 3))
        rng.shuffle(vals)
        table = [[vals[i * n + j] for j in range(n)] for i in range(n)]
        yield dict(kind="pipeline", n=n, c=c, order=order, table=table)
    # mse
    for _ in range(60 if tier == "quick" else 600):
        m = rng.choice([0, 1, 1, 2, 3, 5, 8])
        mk = lambda: [rng.choice([rng.randint(-40, 40) / 8.0, rng.uniform(-6, 6), 0.0]) for _ in range(m)]
        a = mk()
        b = rng.choice([mk(), list(a)])
        yield dict(kind="mse", sigmoid=rng.random() < 0.5, a=a, b=b)


def run(desc):
    from batchie.distance_calculation import (
        ChunkedDistanceMatrix,
        calculate_pairwise_distance_matrix_on_predictions,
        get_lower_triangular_indices_chunk,
        lower_triangular_indices,
    )
    from batchie.distance.mse import MSEDistance

    k = desc["kind"]
    if k == "chunks":
        n, c = desc["n"], desc["c"]
        chunks = [[list(p) for p in get_lower_triangular_indices_chunk(n, i, c)] for i in range(c)]
        flat = [tuple(p) for ch in chunks for p in ch]
        expect = [(i, j) for i in range(n) for j in range(i)]
        pred = None
        if flat != expect:
            pred = "chunks do not concatenate to every pair i>j exactly once"
        sizes = [len(ch) for ch in chunks]
        if sizes and max(sizes) - min(sizes) > 1:
            pred = "chunk sizes differ by more than one: %r" % (sizes,)
        feats = ["chunks"] + (["n_chunks>pairs"] if c > len(expect) else []) + (["trivial"] if n < 2 else []) + (["remainder"] if len(expect) % c else [])
        return dict(wire=[0, n, c], impl=chunks, pred=pred, features=feats)
    if k == "pipeline":
        n, c, order, table = desc["n"], desc["c"], desc["order"], desc["table"]
        d = _tmpdir()
        try:
            def go():
                ms = []
                for pos, idx in enumerate(order):
                    m = calculate_pairwise_distance_matrix_on_predictions(
                        thetas=_StubThetas(n), distance_metric=_TableMetric(table), data=None,
                        chunk_index=idx, n_chunks=c)
                    fn = os.path.join(d, "chunk_%d.h5" % pos)
                    m.save(fn)
                    ms.append(ChunkedDistanceMatrix.load(fn))
                return ChunkedDistanceMatrix.concat(ms).to_dense()
            out = impl_call(go)
        finally:
            shutil.rmtree(d, ignore_errors=True)
        covers = set(order) >= set(range(c))
        present = set()
        for idx in order:
            present |= {tuple(p) for p in get_lower_triangular_indices_chunk(n, idx, c)}
        complete = len(present) == n * (n - 1) // 2
        pred = None
        if isinstance(out, ImplError):
            impl = out
            if complete:
                pred = "complete family of chunks refused: %r" % (out,)
        else:
            if not np.all(out == np.floor(out)):
                pred = "non-integer value in dense matrix"
            impl = [[int(x) for x in row] for row in out.tolist()]
            expect = [[(table[a][b] if b < a else (table[b][a] if a < b else 0)) for b in range(n)] for a in range(n)]
            if not complete:
                pred = "matrix missing a pair was densified"
            elif impl != expect:
                pred = "assembled matrix differs from the metric's matrix"
        feats = ["pipeline"] + (["repeat"] if len(order) != len(set(order)) else []) + (["covers"] if covers else ["missing-chunk"]) \
            + (["n_chunks>pairs"] if c > n * (n - 1) // 2 else []) + (["trivial"] if n < 2 else []) + (["zero-value"] if any(table[a][b] == 0 for a in range(n) for b in range(a)) else [])
        return dict(wire=[1, n, c, order, table], impl=impl, pred=pred, features=feats, cmp=cmp_result())
    if k == "mse":
        a, b, sg = desc["a"], desc["b"], desc["sigmoid"]
        import warnings
        with warnings.catch_warnings():
            warnings.simplefilter("ignore")
            v = MSEDistance(sigmoid=sg).distance(np.array(a, dtype=float), np.array(b, dtype=float))
            v2 = MSEDistance(sigmoid=sg).distance(np.array(b, dtype=float), np.array(a, dtype=float))
        pred = None
        if len(a) > 0:
            if v != v2:
                pred = "metric not symmetric"
            if v < 0:
                pred = "metric negative"
            if a == b and v != 0:
                pred = "metric non-zero on identical predictions"
            impl = float(v)
        else:
            impl = ImplError(ValueError("nan mean of empty"))

        def cmpf(m, i):
            if not common.close(m, i, 1e-9):
                return "mse differs: model %s impl %r" % (float(Fraction(m[0], m[1])), i)
            return None
        feats = ["mse", "sigmoid" if sg else "raw"] + (["identical"] if a == b else []) + (["trivial"] if len(a) == 0 else [])
        return dict(wire=[2, sg, [frac(x) for x in a], [frac(x) for x in b]], impl=impl, pred=pred, features=feats, cmp=cmp_result(cmpf))
    raise ValueError(k)


def shrink(desc):
    if desc["kind"] == "pipeline":
        o = desc["order"]
        for i in range(len(o)):
            if len(o) > 1:
                yield dict(desc, order=o[:i] + o[i + 1:])
    if desc["kind"] == "chunks":
        if desc["n"] > 0:
            yield dict(desc, n=desc["n"] - 1)
        if desc["c"] > 1:
            yield dict(desc, c=desc["c"] - 1)
