"""C10 — posterior-sample collections persist exactly and keep chain-major order."""
import contextlib
import io
import logging
import math
import os
import random
import shutil
import struct
import sys
import tempfile
import warnings

import numpy as np

import common
from common import ImplError, cmp_result, impl_call, s2l

ID = "C10"
LEVEL = "proof"
# When True, a holder whose samples carry DIFFERENT shared parameters (single-effect tables) is
# counted as a violation of "every parameter value is preserved" (save_h5 stores only the table
# of sample 0).  Default: treated as outside the contract (shared parameters are shared; the
# shipped model hands the same dict object to every sample) and only checked by correspondence.
STRICT_SHARED = os.environ.get("VERIF_C10_STRICT_SHARED", "0") == "1"

RULE = ("kinds: pipeline (end to end with REAL objects, predicate only: two chains of 12 real sweeps (thorough: 30) of SparseDrugCombo / "
        "SparseDrugComboInteraction on a 20-row screen, get_model_state after every sweep, save_h5 / load_h5 of both chains - reloaded samples "
        "bit-identical incl. numpy scalar types, same order, identical predictions -, evaluate_model.main() on the files in swapped order - "
        "columns = the samples' predictions chain-major, aligned chain ids -, analyze_model_evaluation.main() - reported numbers = the "
        "definitions on that evaluation); roundtrip (also: numpy-scalar attributes alpha np.float32 / precision np.float64 as get_model_state exports them, Fortran-ordered "
        "and strided arrays, 100 / 101 stored samples (thorough: 257, 1000) through load_h5, arrays of 64x8 / 700x8 (thorough 100x10 / 3000x10); "
        "evaluate: every prediction method is called on the samples BEFORE they are saved); roundtrip (both shipped sample types, declared size 1..14, 0..13 stored samples crossing 10, "
        "float64/float32 arrays incl. zero-size, values from specials (denormals, -0.0, max double, non-float32 doubles, "
        "inf, NaN payloads) / random 64-bit patterns, empty / shared / per-sample single-effect tables) through the real "
        "save_h5 + load_h5, compared bit-for-bit; keys (h5py iteration order of the group names, n up to 3 digits); "
        "concat (0..4 chains, chain files loaded in random argument order); evaluate (batchie.cli.evaluate_model.main "
        "in-process on 1..4 chain files x 1..13 samples: column k matched bitwise to the prediction of an in-memory sample); "
        "ops (add_theta/get_theta sequences incl. negative and too large indices, declared <= 0); equals (Theta.equals on a sample and a rebuilt copy "
        "changed in at most one array / scalar / table entry / the class: true exactly for the unchanged copy).  "
        "Non-trivial: at least one stored sample / one operation; distinct by case description.")
THEOREMS = {
    "C10_model_is_source_init": "the Gallina translation of the whole method ThetaHolder.__init__, regenerated from /repo's current source on this run (Generated/SrcThetas.v), turns ANY fresh instance into (same class, declared size n, no samples) = the model's empty_holder n",
    "C10_model_is_source_n_thetas": "the translation of the whole property ThetaHolder.n_thetas returns the model's declared size, for every object",
    "C10_model_is_source_get_theta": "the translation of the whole method ThetaHolder.get_theta (bound check, raise, self.thetas[step_index] with Python's list indexing) equals the model's get_theta on the object's attribute values, for every object and every integer index",
    "C10_model_is_source_add_theta": "the translation of the whole method ThetaHolder.add_theta (which mutates self: the translation denotes the new self) equals the model's add_theta on the attribute values, same class, for every object and sample",
    "C10_model_is_source_is_complete": "the translation of the whole property ThetaHolder.is_complete equals the model's is_complete, for every object",
    "C10_model_is_source_combine": "the translation of the whole method ThetaHolder.combine equals, for ALL pairs of objects: Err if their classes differ (the guard the model leaves out), else a new instance of ThetaHolder itself holding the model's combine_holders of the two attribute values",
    "C10_model_is_source_concat": "the translation of the whole classmethod ThetaHolder.concat (two length tests, instances[0], the loop over instances[1:] with class guard and first = first.combine(instance)) equals the model's concat_holders for ALL lists of instances of ThetaHolder itself (representation map as_obj h = (class 0, h); the tree has no subclass)",
    "C10_model_is_source_load_h5": "the translation of the whole staticmethod ThetaHolder.load_h5 (n_thetas attribute, ThetaHolder(n), sorted(list(private_grp.keys()), key=int), the loop in that order with private_grp[name], from_dicts and result.add_theta, return) equals the model's load on every file whose private_params members have distinct names (every HDF5 file); h5py / dict plumbing enters as the configured primitives",
    "C10_model_is_source_save_h5": "the translation of the whole method ThetaHolder.save_h5 (empty refusal, shared parameters and class of self.thetas[0], n_thetas attribute, the loop over enumerate(self.thetas) creating group str(i) from private_parameters_dict()) denotes the written file; read back (all parts present, members in h5py's name order) it equals the model's save, for every object",
    "C10_model_is_source_save_load": "the translated save_h5 followed by the translated load_h5 equals the model's save_load for every object (no side condition), so the C10_load_save* theorems are theorems about the translated source",
    "C10_load_save": "load (save h) = Ok h for every holder with 1 <= #samples <= declared size whose samples share their shared parameters: same declared size, number, order, values (any file iteration order of distinct decimal keys would do; the model uses h5py's lexicographic one)",
    "C10_load_save_complete": "the same for complete holders (n >= 1 samples, declared n)",
    "C10_load_save_general": "for ANY non-empty holder within its declared size, load (save h) = Ok (h with every sample's shared parameters replaced by those of sample 0)",
    "C10_load_save_mixed_shared_refuted": "there is a holder (two samples with different shared parameters) that does not survive save/load",
    "C10_save_load_fixed_point": "whatever save/load returns is itself reproduced exactly by a further save/load",
    "C10_file_keys": "the group keys of the saved file are a permutation of the decimal strings of 0..n-1, and int(str(k)) = k",
    "C10_numeric_sort_restores_order": "sorting any permutation of [(str k, x_k) | k < n] by int(key) gives back x_0 .. x_{n-1} in order",
    "C10_concat_chain_major": "concat hs = Ok h with h.thetas = h1.thetas ++ h2.thetas ++ ... and declared size = sum of declared sizes (hs non-empty)",
    "C10_chain_ids_aligned": "for complete holders, pairing chain_ids with the concatenated samples gives exactly [(i, t) | chain i in argument order, t in chain i in step order]",
    "C10_chain_ids_position": "for complete holders, the sample at position p of the concatenation is the (p - offset)-th sample of holder number chain_ids[p]",
    "C10_evaluate_labels": "whenever evaluate_model's pipeline succeeds on holders that respect their declared sizes, column k is labelled with the chain its sample came from (chain-major)",
    "C10_evaluate_complete": "on complete non-empty chains saved to files the pipeline succeeds with exactly that labelling",
    "C10_evaluate_partial_refused": "a partially filled chain makes the pipeline refuse (get_theta out of range) instead of mislabelling",
    "C10_chain_ids_aligned_partial_refuted": "witness: chain_ids alone (declared sizes) is NOT aligned with the concatenation when a holder is partial",
    "C10_add_beyond_declared_refused": "add_theta on a holder already holding >= declared samples is Err",
    "C10_add_within_declared": "add_theta below the declared size appends at the end",
    "C10_get_out_of_range_refused": "get_theta i is Err for i < 0 or i >= #samples",
    "C10_get_in_range": "get_theta i returns the i-th sample for 0 <= i < #samples",
    "C10_save_empty_refused": "save of a holder without samples is Err",
    "C10_concat_nothing_refused": "concat [] is Err",
    "C10_load_overfull_refused": "a file with more groups than its n_thetas attribute does not load",
}
ASSUMPTIONS = [
    "an HDF5 dataset / attribute read through h5py returns the array / scalar written (dtype, shape, bits), and from_dicts rebuilds a sample from its two dicts: abstracted in the model (sample = opaque pair private/shared), checked bit-for-bit on every roundtrip case",
    "h5py iterates group names in lexicographic order (checked by the `keys` cases against the model's file order); the round-trip theorem does not depend on it",
    "the type(self) != type(other) guards of combine/concat are not part of the model's combine_holders/concat_holders (one holder class in the tree); they ARE part of the source translation: C10_model_is_source_combine states the guard, C10_model_is_source_concat is stated for lists of instances of ThetaHolder itself",
    "source-translation link: trusted are the translator harness/py2gal.py (its rendering of if / raise / return / for / arithmetic / comparisons / list + / attribute read, store and .append on an object held as a value (class id, attributes) - aliasing is not modelled; add_theta's in-place append is the only mutation and the translation returns the new self) and the primitives configured in harness/src_functions.py C10_*: len(l) = Z.of_nat (length l); l[i] = PyRt.list_get (negative index from the end, IndexError otherwise); l[1:] = tl l; type(a) != type(b) = the class ids differ; attributes self.thetas / self._n_thetas = the two fields of the model's holder (getter / one-field-replaced setter); ThetaHolder(n) = the translated __init__ applied to a fresh instance of class 0; h.n_thetas = the translated property n_thetas; a.combine(b) = the translated method combine (method and property dispatch: no subclass overrides them)",
    "source-translation link of load_h5 (harness/src_functions.py C10_LOAD; the file at `path` is a value of the model's type `file`: n_thetas attribute, content of the shared_params group, members (name, content) of the private_params group in iteration order, where the content of a group is the dict that reading it gives): `with h5py.File(path, 'r') as f` binds f to that value and closing does not change what was read; f.attrs['n_thetas'] = f_n; f.attrs['theta_class'/'theta_module'] and getattr(importlib.import_module(m), c) = the sample class, not modelled (unit); ThetaHolder(n_thetas=n) = translated __init__ on a fresh instance of class 0; f['private_params'] = f_groups; sorted(list(g.keys()), key=int) = stable insertion sort of the member names by int(name); g[name] = first member of that name else KeyError; C.from_dicts(private_params=p, shared_params=s) = the pair (p, s); result.add_theta(t) = the translated add_theta; and two STATEMENT-RUN primitives pinned to the exact source text: `shared_params = {}; shared_grp = f['shared_params']; shared_params.update(shared_grp.attrs.items()); for key in shared_grp.keys(): shared_params[key] = shared_grp[key][:]` = f_shared f, and the same four statements on i_grp / private_params = the content of that group",
    "source-translation link of save_h5 (C10_SAVE; the method returns None, the translation returns what has been written, a record of optional parts h5w): `with h5py.File(fn, 'w') as f` = nothing written yet; t.shared_parameters_dict() = second component of the sample; t.__class__.__name__ / __module__ = not modelled; f.attrs.create('n_thetas', v) sets the attribute; f.attrs.create('theta_class'/'theta_module', c) = no change of the modelled parts; private_grp = f.create_group('private_params') creates the empty member list (the handle carries no data); two statement-run primitives pinned to the exact text: `shared_grp = f.create_group('shared_params'); for key, val in shared_params.items(): <dataset if ArrayType else attribute>` = the shared part is that dict, and `i_grp = private_grp.create_group(str(i)); private_params = theta.private_parameters_dict(); for key, val in private_params.items(): <...>` = member (decimal string of i, first component of theta) appended (str(i) of a non-negative int is its decimal string; h5py's refusal of a duplicate member name is not modelled); the theorem's reading-back map h5_close orders the members by name (h5py's iteration order, see above)",
    "n_thetas is an unbounded integer in the model (int64 attribute in the file)",
    "shared parameters are shared: the round trip of a holder whose samples carry different single-effect tables is characterised (C10_load_save_general) and checked by correspondence, not counted as a violation unless VERIF_C10_STRICT_SHARED=1",
]
EXPLANATION = ("Tie to the code, two ways: (1) the whole methods ThetaHolder.__init__, n_thetas, get_theta, add_theta, is_complete, combine and "
               "concat are re-translated from /repo's current source on every run (harness/py2gal.py -> Generated/SrcThetas.v; fail-closed: a "
               "construct outside the fragment, a changed parameter list or an undeclared variable stops the build) and the "
               "C10_model_is_source_* theorems prove the translations equal to the hand-written model for all inputs (objects are (class id, "
               "holder); concat via the representation map as_obj) - trusted there: the translator and the primitives len, l[i], l[1:], "
               "type(a) != type(b), the two attribute getters/setters, and the dispatch of ThetaHolder(n) / .n_thetas / .combine to the "
               "translated __init__ / property / method (see ASSUMPTIONS).  save_h5 and load_h5 are translated whole as well "
               "(C10_model_is_source_load_h5 / _save_h5 / _save_load): there the h5py and dict plumbing is a longer list of configured "
               "primitives, including four statement-run primitives pinned to the exact source text of the 'read a group into a dict' / "
               "'write a dict into a group' loops (ASSUMPTIONS lists every one); the translation contributes the skeleton - empty refusal, "
               "n_thetas attribute, shared parameters from sample 0, enumerate + str(i) group names, sorted(..., key=int), the load loop "
               "order, add_theta.  (2) The differential correspondence below exercises all of it, primitives included, on the real h5py.  "
               "Model: Model/Thetas.v.  Modelled, not verified: h5py/HDF5 storage of arrays and scalars, numpy, dataclass "
               "construction in from_dicts, predict_viability (only used to recognise which sample produced which prediction "
               "column of evaluate_model).  ModelEvaluation.save_h5/load_h5 are used as-is to read the CLI's output.")
# ---- source-translation links of the command-line wrappers (Model/Cli.v, Generated/SrcCli.v) ----
THEOREMS.update({
    'C10_model_is_source_cli_evaluate_model': 'the translation of the whole function evaluate_model.main regenerated on this run equals, for every record L of library functions and all parsed arguments, Cli.cli_evaluate_model: chain ids = for file i of --thetas in ARGUMENT order, its declared size n_thetas many copies of i (Cli.chain_ids_of); predictions = predict_viability_all(screen, concat of the holders in that order).T; ModelEvaluation(...) saved',
})
EXPLANATION += ("  CLI wrapper: evaluate_model.main is re-translated as a WHOLE function on every run (Generated/SrcCli.v) and proved equal to Model/Cli.v.  The link trusts the translator harness/py2gal.py (for these links extended by cfg typed_effects, kwcalls keys `module.function`, state_calls assigned to a tuple), the representation of Model/Cli.v (parsed arguments = a record of the plain argparse results, get_args() not translated = the primitive `get_args()` yielding that record; a main() denotes the list of (path, content) files it writes; `L` = ANY record of library functions over abstract types) and EXACTLY these primitives of harness/src_functions.py, each one field read / one library or constructor call standing for the function of that name (whose own link, where it exists, is the one of its property): CLI_EVALUATE_MODEL: the fields of `args` read as the record's projections (a store to one is refused); ignored: log_config.configure_logging(args), logger.info/warning; Screen.load_h5(p), ThetaHolder(n_thetas=1), h.load_h5(p), h.concat(l), t.n_thetas, `[i] * n` = n copies, typed effect chain_ids.extend(l), np.array(l, dtype=int) = the same values, m.T, s.observations, s.sample_names, keyword calls predict_viability_all(screen=, thetas=) and ModelEvaluation(observations=, predictions=, chain_ids=, sample_names=), typed effect r.save_h5(p); the enumerate loop is translated. ")

# ---- source-translation links of the sample classes' dict methods and Theta.equals (Model/ThetaDicts.v, Generated/SrcThetaDicts.v) ----
THEOREMS.update({
    "C10_model_is_source_sc_private_parameters_dict": "the translation of SparseDrugComboMCMCSample.private_parameters_dict (`return self.__dict__`; the dataclass field list is read from the class body on this run) equals the model's sc_private: W, W0, V2, V1, V0 as arrays and alpha, precision as scalars, each under its own name, in declaration order - for every sample, all array / float types",
    "C10_model_is_source_theta_shared_parameters_dict": "the translation of Theta.shared_parameters_dict (inherited by SparseDrugComboMCMCSample: checked that the class defines none) returns the empty dict for an object of any class",
    "C10_model_is_source_sc_from_dicts": "the translation of SparseDrugComboMCMCSample.from_dicts (`cls(**private_params)`: ** unpacking against the dataclass fields) equals the model's sc_from_dicts for ALL pairs of dicts: TypeError unless the keys are exactly the seven field names (any order), shared_params not read",
    "C10_model_is_source_in_private_parameters_dict": "the translation of SparseDrugComboInteractionMCMCSample.private_parameters_dict equals the model's in_private (W, V2, precision under their own names)",
    "C10_model_is_source_in_shared_parameters_dict": "the translation of SparseDrugComboInteractionMCMCSample.shared_parameters_dict equals the model's in_shared: the single-effect table as three parallel arrays (sample ids, treatment ids, values) under the three single_effect_lookup_* keys, rows in the dict's iteration order",
    "C10_model_is_source_in_from_dicts": "the translation of SparseDrugComboInteractionMCMCSample.from_dicts equals the model's in_from_dicts for ALL pairs of dicts: KeyError for a missing column, the table rebuilt by dict(zip(zip(keys1, keys2), vals)), cls(single_effect_lookup=..., **private_params)",
    "C10_source_sc_roundtrip": "through the three TRANSLATED methods, from_dicts(private_parameters_dict(t), shared_parameters_dict(t)) = t for every SparseDrugComboMCMCSample t",
    "C10_source_in_roundtrip": "the same for every SparseDrugComboInteractionMCMCSample whose table has distinct keys (true of every Python dict)",
    "C10_source_in_roundtrip_empty_table": "the empty single-effect table is exported as three empty columns and comes back as the empty table",
    "C10_from_dicts_any_entry_order": "from_dicts returns the sample from ANY dicts that are the same finite maps as its two dicts, whatever the order of their entries (an HDF5 group is read back attributes first, then datasets by name)",
    "C10_sc_from_dicts_only_of_private": "conversely, a dict that from_dicts accepts is (as a finite map) the private dict of the sample it returns",
    "C10_source_save_primitives_are_translations": "consistency with C10_model_is_source_save_h5: with P = S = parameter dict and a sample represented as (private dict, shared dict), the meanings fst / snd that the save_h5 configuration gave to t.private_parameters_dict() / t.shared_parameters_dict() are what the translated methods of t's class compute, for every shipped sample",
    "C10_source_load_primitive_is_translation": "consistency with C10_model_is_source_load_h5: the pair (p, s) that the load_h5 configuration gave to C.from_dicts(private_params=p, shared_params=s) stands for the sample - the translated from_dicts of the sample's class returns t from t's own pair (tables with distinct keys)",
    "C10_source_cli_evaluate_is_thetas_evaluate": "the two models of evaluate_model.main are one: the TRANSLATED main() with the Thetas model as its library (load = any function of the path, concat_holders, declared size, one prediction column per get_theta(k), ModelEvaluation's length check) is Thetas.evaluate on the holders loaded in argument order - so C10_evaluate_labels / _partial_refused are theorems about the translated main()",
    "C10_source_cli_evaluate_complete": "... and for complete non-empty chains whose files are what save_h5 wrote, read by load_h5, the translated main() writes exactly one evaluation whose columns are chain-major (all of the first --thetas file in step order, then the second, ...) each labelled with the position of its file on the command line",
    "C10_source_samples_persist": "end to end through translated code only: a non-empty collection of shipped samples within its declared size, sharing their shared parameters, goes through the translated save_h5, the file, the translated load_h5 and the translated from_dicts and comes back as the same declared size and the same samples in the same order",
    "C10_model_is_source_theta_equals": "the translation of the whole method Theta.equals (class test, the two pairs of dicts, both loops with their early returns, `k not in d2`, the Number / ArrayType / other branches) equals the model's theta_equals for ANY sample class given by its class test and dict methods and any comparison functions",
    "C10_source_equals_is_sample_eqb": "on any two shipped samples, with dispatch to the translated dict methods, the translated equals returns (never raises) the model equality: field by field, the tables row by row in iteration order, false across classes",
    "C10_source_equals_true_iff_dicts_agree": "equals is true exactly when the samples are of one class and their private and shared dicts agree entry by entry (same keys in the same order, arrays under np.array_equal, scalars and the value column under ==, id columns exactly)",
    "C10_source_equals_true_iff_same_representation": "UNDER the stated hypothesis that == / np.array_equal decide equality of values (excludes NaN; -0.0 = 0.0): equals is true exactly when the two samples have the same dict representation (hence are the same sample)",
})
ASSUMPTIONS += [
    "source-translation links of the sample classes (harness/src_functions.py C10D_*): trusted are the translator (for these links extended by: str constants as code point lists, dicts with string keys - display, d[k] with KeyError, `k in d`, .items() -, F(..., **d) against a declared parameter list with TypeError, constant tuple indices, `return` inside for loops, checked downcasts) and: the @dataclass reading (CHECKED against the class body on every run: decorator exactly @dataclass, the single base Theta, field names and order, no defaults, no __init__ / __post_init__ / __slots__ / __setattr__ ...; TRUSTED: then x.__dict__ is {field: value} in declaration order - no attribute added or deleted after construction - and cls(k=v, ...) in a classmethod builds the instance with exactly these fields; Theta itself has no fields); field -> dict value coercions PArr / PNum and the downcasts as_arr / as_num (Err 95 = a value of another kind: outside the model, Python's dataclass does not check); list(d.items()) = the items in iteration order; np.array(list of ints / floats) = a 1-d array of these values (the float64 dtype numpy gives EMPTY id columns is not modelled); zip(a, b) on two id columns / on the key pairs and the value column = pairs up to the shorter (the one-shot zip object is consumed once); dict(pairs) = insertion from the left, a repeated key keeps its place and gets the last value",
    "source-translation link of Theta.equals (C10D_EQUALS): print(...) is ignored; isinstance(other, type(self)) = the class test parameter (instantiated by: same shipped class; there are no subclasses); self/other.private_parameters_dict() / .shared_parameters_dict() = the dict-method parameters (instantiated by the translated methods of the sample's class - method dispatch); isinstance(v, Number) = the value is a scalar, isinstance(v, ArrayType) = it is an array (any of the three array kinds); v != w on two scalars = not (feqb v w); np.array_equal(v, w) on two arrays of one kind = aeqb / elementwise comparison with equal length; a scalar compared with an array, or arrays of different kinds, is Err 95 (outside the model: numpy broadcasting) - C10_source_equals_is_sample_eqb proves no pair of shipped samples reaches it",
]
EXPLANATION += ("  Sample classes: private_parameters_dict / shared_parameters_dict / from_dicts of SparseDrugComboMCMCSample and SparseDrugComboInteractionMCMCSample, "
                "Theta.shared_parameters_dict and Theta.equals are re-translated as whole functions on every run (Generated/SrcThetaDicts.v) and proved equal to "
                "Model/ThetaDicts.v for all inputs and all array / float types; from_dicts is proved to invert the two dict methods (also on re-ordered dicts, as an HDF5 "
                "group returns them), the three primitives that the save_h5 / load_h5 links used for these calls are proved to BE these translations on the representation "
                "sample -> (private dict, shared dict), and C10_source_samples_persist composes everything: translated save_h5, file, translated load_h5, translated "
                "from_dicts give back the samples.  Trusted there: the translator and exactly the primitives listed in ASSUMPTIONS (dataclass reading, PArr / PNum / "
                "as_arr / as_num, list(d.items()), np.array, zip, dict, and for equals: print ignored, isinstance tests, !=, np.array_equal, dispatch).  The roundtrip "
                "cases of the correspondence run the real methods (including from_dicts on dicts read back from HDF5 in another entry order) bit for bit. ")

# ---- wave 6 of the source link: ThetaHolder.__iter__, Metric.evaluate_all, BayesianModel.__init__, Metric.__init__ (Generated/SrcCoreSmall.v, SrcInits.v) ----
THEOREMS.update({
    "C10_model_is_source_iter": "the translated generator ThetaHolder.__iter__ (the list it yields) = the stored samples in their order",
    "C10_model_is_source_evaluate_all": "the translated Metric.evaluate_all = the abstract evaluate (ANY function that may raise) mapped over the holder's stored samples in order, first exception aborting; iterating the holder runs the translated __iter__",
    "C10_model_is_source_bayesian_model_init": "the translated BayesianModel.__init__ stores experiment_space (an opaque value)",
    "C10_model_is_source_metric_init": "the translated Metric.__init__ stores model (an opaque value)",
    "C10_model_is_source_tracker_init": "the translated SimulationTracker.__init__ stores its three arguments, whatever the instance held before",
    "C10_model_is_source_tracker_save": "the translated SimulationTracker.save writes ONE JSON object: the instance dict = the three attributes under their names in __init__'s order",
    "C10_model_is_source_tracker_save_load": "translated load of what the translated save wrote = the tracker, for every fresh instance cls.__new__ may make",
    "C10_model_is_source_tracker_load_any_order": "the translated load binds the file's keys by name (cls(**data)): any key order gives the same object",
    "C10_model_is_source_tracker_load_refuses": "the translated load refuses an empty file (95) and an object with a foreign key or a missing one (TypeError of cls(**data), 93)",
})
EXPLANATION += ("  SMALL FUNCTIONS of core.py: ThetaHolder.__iter__ (py2gal `generator`: a generator function denotes the list it yields; laziness is not "
                "represented), Metric.evaluate_all (primitives: `for x in results_holder` = the translated __iter__ of the holder; self.evaluate = ANY "
                "function `ev` that may raise; np.array(list) = the same values), BayesianModel.__init__ and Metric.__init__ (no primitive) are "
                "re-translated on every run (LS_HOLDER_ITER / LS_METRIC_EVALUATE_ALL -> Generated/SrcCoreSmall.v, LS_INIT_* -> Generated/SrcInits.v).  "
                "Metric and BayesianModel.__init__ are not called by any code of src/batchie (no subclass calls super().__init__(experiment_space)): "
                "these two links cover dead code.  SimulationTracker.__init__ / save / load (LS_TRACKER_* -> Generated/SrcTracker.v; vocabulary Model/Tracker.v; "
                "also unused by src/batchie): J = a JSON-native value, the object = the triple of its attributes (typed fields), the file = None or "
                "Some (the object it holds).  Trusted, ONE call each: open(fn, 'w') = a new empty file, open(fn, 'r') = what the file holds, "
                "self.__dict__ = the three attributes by name in __init__'s order, json.dump(d, f) = the file then holds d (a second document: 95), "
                "json.load(f) = the object the file holds (empty file: 95); `cls(**data)` is the translator's keyword call with ** unpacking "
                "(PyRt.sdict_only / sdict_read: TypeError = 93 unless the keys are exactly the parameters) running the translated __init__.  The "
                "extra check `SimulationTracker: ...` evaluates exactly these meanings on the real class and a real file.")

_NAN1 = struct.unpack("<d", struct.pack("<Q", 0x7FF8000000000123))[0]
_NAN2 = struct.unpack("<d", struct.pack("<Q", 0xFFF0000000000001))[0]
SPECIALS = [0.0, -0.0, 5e-324, -5e-324, 2.225073858507201e-308, 2.2250738585072014e-308, 1e-320,
            1.7976931348623157e308, -1.7976931348623157e308, 0.1, 1.0 / 3.0, 1.0 + 2.0 ** -52, 16777217.0,
            math.pi, 1e300, -1e-300, 3.4028235677973366e38, 1.401298464324817e-45 / 3, float("inf"), float("-inf"),
            _NAN1, _NAN2, 1.0, -1.0, 100.0]


def _tmpdir():
    os.makedirs(common.WORK, exist_ok=True)
    return tempfile.mkdtemp(dir=common.WORK)


# --------------------------------------------------------------------------- samples


def _bits_list(a):
    a = np.ascontiguousarray(np.asarray(a))
    raw = a.tobytes()
    k = a.dtype.itemsize
    return [int.from_bytes(raw[i:i + k], "little") for i in range(0, len(raw), k)]


def _canon_val(name, v):
    a = np.asarray(v)
    return [s2l(name), s2l(a.dtype.str), [int(x) for x in a.shape], _bits_list(a)]


def canon_sample(t):
    """(private, shared) of a sample as nested ints: every field with dtype, shape and bit patterns"""
    from batchie.models.sparse_combo_interaction import SparseDrugComboInteractionMCMCSample
    if isinstance(t, SparseDrugComboInteractionMCMCSample):
        private = [_canon_val(k, getattr(t, k)) for k in ("V2", "W", "precision")]
        shared = [[int(k[0]), int(k[1]), _bits_list(np.float64(v))[0]] for k, v in t.single_effect_lookup.items()]
        return [[s2l("inter")] + private, shared]
    private = [_canon_val(k, getattr(t, k)) for k in ("V0", "V1", "V2", "W", "W0", "alpha", "precision")]
    return [[s2l("combo")] + private, []]


def _value(r, mode):
    if mode == "special":
        return r.choice(SPECIALS)
    if mode == "bits":
        return struct.unpack("<d", struct.pack("<Q", r.getrandbits(64)))[0]
    if mode == "moderate":
        return r.uniform(-0.7, 0.7)
    return r.choice([r.choice(SPECIALS), struct.unpack("<d", struct.pack("<Q", r.getrandbits(64)))[0], r.uniform(-3, 3)])


def _arr(r, shape, mode, dtype):
    n = int(np.prod(shape))
    a = np.array([_value(r, mode) for _ in range(n)], dtype=np.float64).reshape(shape)
    if dtype == "f4":
        with np.errstate(all="ignore"):
            a = a.astype(np.float32)
    return a


def _layout(a, layout):
    """the same values in another memory layout: Fortran order, or a strided (non-contiguous) view of a wider buffer"""
    if layout == "F" and a.ndim == 2:
        return np.asfortranarray(a)
    if layout == "strided":
        wide = np.zeros(a.shape[:-1] + (2 * a.shape[-1],), dtype=a.dtype) if a.ndim else None
        if wide is not None:
            wide[..., ::2] = a
            wide[..., 1::2] = 77.0
            return wide[..., ::2]
    return a


def _scalar(x, scalars):
    """real exported samples carry numpy scalars (get_model_state: alpha np.float32, precision np.float64)"""
    with np.errstate(all="ignore"):
        return {"f4": np.float32, "f8": np.float64}.get(scalars, float)(x)


def make_sample(r, typ, dims, mode, dtype, table, scalars="py", layout="C"):
    from batchie.models.sparse_combo import SparseDrugComboMCMCSample
    from batchie.models.sparse_combo_interaction import SparseDrugComboInteractionMCMCSample
    ns, nt, D = dims

    def arr(shape):
        return _layout(_arr(r, shape, mode, dtype), layout)
    if typ == "inter":
        return SparseDrugComboInteractionMCMCSample(
            W=arr((ns, D)), V2=arr((nt, D)),
            precision=_scalar(_value(r, mode), scalars if scalars != "f4" else "f8"), single_effect_lookup=table)
    return SparseDrugComboMCMCSample(
        W=arr((ns, D)), W0=arr((ns,)), V2=arr((nt, D)),
        V1=arr((nt, D)), V0=arr((nt,)),
        alpha=_scalar(_value(r, mode), scalars), precision=_scalar(_value(r, mode), scalars if scalars != "f4" else "f8"))


def make_table(r, size, mode):
    keys = [(a, b) for a in range(4) for b in range(-1, 5)]
    r.shuffle(keys)
    return {k: _value(r, mode) for k in keys[:size]}


def tag_sample(tag):
    """tiny sample recognisable by an integer tag"""
    from batchie.models.sparse_combo import SparseDrugComboMCMCSample
    z = np.zeros((1,))
    return SparseDrugComboMCMCSample(W=np.array([[float(tag)]]), W0=z, V2=np.zeros((1, 1)), V1=np.zeros((1, 1)), V0=z,
                                     alpha=0.5, precision=2.0)


def tag_of(t):
    return int(t.W[0, 0])


def build_roundtrip_samples(desc):
    r = random.Random(desc["vseed"])
    typ, n, mode, dtype = desc["type"], desc["n"], desc["mode"], desc["dtype"]
    dims = tuple(desc["dims"])
    tk = desc.get("table", "none")
    shared_table = make_table(r, desc.get("tsize", 0), mode) if typ == "inter" else None
    out = []
    for i in range(n):
        if typ == "inter" and tk == "mixed":
            tb = make_table(r, r.randint(0, 4) if i else desc.get("tsize", 0), mode)
            if i == n - 1 and n > 1 and canon_table(tb) == canon_table(out[0].single_effect_lookup):
                tb = dict(tb)
                tb[(9, 9)] = 0.25
        else:
            tb = shared_table
        out.append(make_sample(r, typ, dims, mode, dtype, tb, desc.get("scalars", "py"), desc.get("layout", "C")))
    return out


def canon_table(tb):
    return [[int(k[0]), int(k[1]), _bits_list(np.float64(v))[0]] for k, v in tb.items()]


# --------------------------------------------------------------------------- generator


def gen(rng, tier):
    big = tier != "quick"
    # keys: file iteration order
    for n in list(range(1, 26)) + [99, 100, 101, 112] + ([120, 200, 1001] if big else []):
        yield dict(kind="keys", n=n)
    # roundtrip
    for _ in range(260 if not big else 3000):
        typ = rng.choice(["combo", "inter"])
        n = rng.choice([1, 2, 3, 5, 9, 10, 11, 11, 12, 12, 13, 13, rng.randint(1, 13)])
        fill = rng.choice(["complete", "complete", "complete", "partial"])
        declared = n if fill == "complete" else n + rng.randint(1, 3)
        d = dict(kind="roundtrip", type=typ, declared=declared, n=n,
                 dims=[rng.choice([0, 1, 2, 3]), rng.choice([0, 1, 2, 4]), rng.choice([1, 2, 3])],
                 mode=rng.choice(["special", "bits", "mixed", "mixed"]), dtype=rng.choice(["f8", "f8", "f8", "f4"]),
                 vseed=rng.getrandbits(32))
        if typ == "inter":
            d["table"] = rng.choice(["empty", "shared", "shared", "mixed"])
            d["tsize"] = 0 if d["table"] == "empty" else rng.randint(0 if d["table"] == "mixed" else 1, 6)
        yield d
    # what real samples look like: numpy-scalar attributes (alpha np.float32, precision np.float64 as get_model_state exports them),
    # Fortran-ordered / strided arrays, realistic sizes (gzip chunking), three-digit sample counts through load_h5
    for _ in range(60 if not big else 500):
        typ = rng.choice(["combo", "combo", "inter"])
        n = rng.choice([1, 2, 3, 10, 11, 12])
        d = dict(kind="roundtrip", type=typ, declared=n, n=n,
                 dims=[rng.choice([1, 2, 3]), rng.choice([1, 2, 4]), rng.choice([1, 2, 3])],
                 mode=rng.choice(["special", "bits", "mixed", "moderate"]), dtype=rng.choice(["f8", "f4"]),
                 scalars=rng.choice(["f4", "f4", "f8", "py"]), layout=rng.choice(["C", "F", "F", "strided", "strided"]),
                 vseed=rng.getrandbits(32))
        if typ == "inter":
            d["table"] = "shared"
            d["tsize"] = rng.randint(1, 6)
        yield d
    for n, dims in ([(100, [1, 1, 1]), (101, [1, 1, 1]), (3, [64, 700, 8])] + ([(1000, [1, 1, 1]), (257, [2, 3, 2]), (5, [100, 3000, 10])] if big else [])):
        yield dict(kind="roundtrip", type="combo", declared=n, n=n, dims=dims, mode="moderate", dtype="f4" if n == 3 else "f8",
                   scalars="f4", layout="C", vseed=rng.getrandbits(32))
    # malformed / refusal stream for persistence
    for _ in range(12 if not big else 60):
        yield dict(kind="roundtrip", type=rng.choice(["combo", "inter"]), declared=rng.choice([0, 1, 5, -1]), n=0,
                   dims=[1, 1, 1], mode="special", dtype="f8", vseed=rng.getrandbits(32), table="empty", tsize=0)
    for _ in range(12 if not big else 60):
        n = rng.randint(2, 12)
        yield dict(kind="roundtrip", type="combo", declared=rng.randint(-1, n - 1), n=n, overfull=True,
                   dims=[1, 1, 1], mode="special", dtype="f8", vseed=rng.getrandbits(32))
    # concat
    yield dict(kind="concat", chains=[], order=[])
    for _ in range(110 if not big else 1200):
        k = rng.choice([1, 2, 2, 3, 3, 4, 4])
        chains = []
        for _c in range(k):
            n = rng.choice([0, 1, 2, 3, 9, 10, 11, 12, 13, rng.randint(1, 13)])
            chains.append([n if rng.random() < 0.75 else n + rng.randint(1, 3), n])
        order = list(range(k))
        rng.shuffle(order)
        if rng.random() < 0.15:
            order.append(rng.randrange(k))      # the same chain file given twice
        yield dict(kind="concat", chains=chains, order=order)
    # evaluate_model.main()
    for _ in range(36 if not big else 300):
        k = rng.choice([1, 2, 3, 4])
        chains = []
        for _c in range(k):
            n = rng.choice([1, 2, 3, 10, 11, 12, 13, rng.randint(1, 13)])
            chains.append([n if rng.random() < 0.85 else n + rng.randint(1, 2), n])
        order = list(range(k))
        rng.shuffle(order)
        yield dict(kind="evaluate", type=rng.choice(["combo", "inter"]), chains=chains, order=order, vseed=rng.getrandbits(32))
    # a few long evaluations (an unstable sort or a per-chain shortcut only shows beyond a few dozen columns)
    for _ in range(2 if not big else 10):
        chains = [[n, n] for n in (rng.randint(40, 70), rng.randint(30, 50), rng.randint(50, 80))][:rng.choice([2, 3])]
        order = list(range(len(chains)))
        rng.shuffle(order)
        yield dict(kind="evaluate", type=rng.choice(["combo", "inter"]), chains=chains, order=order, vseed=rng.getrandbits(32))
    # end to end with real objects: sampler -> get_model_state -> save_h5 -> load_h5 -> evaluate_model -> analyze_model_evaluation
    for i in range(2 if not big else 10):
        yield dict(kind="pipeline", type=["combo", "inter"][i % 2], D=rng.choice([2, 3]), chains=2, sweeps=12 if not big else rng.choice([12, 30]),
                   seed=rng.randrange(1 << 30))
    # checkpoints of a growing collection
    for _ in range(30 if not big else 300):
        n = rng.randint(2, 4)
        yield dict(kind="checkpoint", type=rng.choice(["inter", "inter", "inter", "combo"]), dims=[rng.randint(1, 3), rng.randint(1, 3), rng.randint(1, 2)],
                   mode=rng.choice(["mixed", "mixed", "f32"]) if False else "mixed", tsize=rng.randint(1, 6),
                   steps=["first"] + [rng.choice(["revalue", "revalue", "grow", "both", "same"]) for _ in range(n - 1)], vseed=rng.getrandbits(32))
    # Theta.equals on pairs of samples that differ in at most one place (implementation-only predicate)
    for _ in range(60 if not big else 400):
        typ = rng.choice(["combo", "inter", "inter"])
        muts = ["none", "none", "W", "V2", "precision", "other_class"] + \
            (["W0", "V1", "V0", "alpha"] if typ == "combo" else ["table_value", "table_key", "table_extra", "table_order", "table_value"])
        yield dict(kind="equals", type=typ, dims=[rng.randint(1, 3), rng.randint(1, 3), rng.randint(1, 2)], tsize=rng.randint(2, 6),
                   mutate=rng.choice(muts), vseed=rng.getrandbits(32))
    # ops
    for _ in range(90 if not big else 900):
        declared = rng.choice([-2, 0, 1, 2, 3, 5, 11, 13])
        ops = []
        for _o in range(rng.randint(1, 22)):
            if rng.random() < 0.6:
                ops.append(["add"])
            else:
                ops.append(["get", rng.choice([-1, -2, 0, 1, 2, rng.randint(-3, 16), max(declared, 0), max(declared, 1) - 1, 10 ** 20, -10 ** 20])])
        yield dict(kind="ops", declared=declared, ops=ops)


# --------------------------------------------------------------------------- run


def _holder_wire(declared, samples):
    return [int(declared), [canon_sample(t) for t in samples]]


def _run_keys(desc):
    import h5py
    from batchie.core import ThetaHolder
    n = desc["n"]
    d = _tmpdir()
    try:
        h = ThetaHolder(n)
        for i in range(n):
            h.add_theta(tag_sample(i))
        fn = os.path.join(d, "k.h5")
        h.save_h5(fn)
        with h5py.File(fn, "r") as f:
            keys = list(f["private_params"].keys())
    finally:
        shutil.rmtree(d, ignore_errors=True)
    pred = None
    if sorted(keys, key=int) != [str(i) for i in range(n)]:
        pred = "saved file does not hold exactly the groups '0'..'%d': %r" % (n - 1, keys[:20])
    feats = ["keys"] + (["n>=11(lexicographic!=numeric)"] if n >= 11 else []) + (["3-digit"] if n > 100 else [])
    return dict(wire=[1, [n, [[i, []] for i in range(n)]]], impl=[[int(c) for c in k] for k in keys], pred=pred,
                features=feats, cmp=cmp_result())


def _run_roundtrip(desc):
    from batchie.core import ThetaHolder
    samples = build_roundtrip_samples(desc)
    declared, n = desc["declared"], desc["n"]
    overfull = bool(desc.get("overfull"))
    orig = [canon_sample(t) for t in samples]
    d = _tmpdir()
    second = {}
    try:
        def go():
            h = ThetaHolder(declared)
            if overfull:
                h.thetas = list(samples)          # outside the API: more samples than declared
            else:
                for t in samples:
                    h.add_theta(t)
            fn = os.path.join(d, "h.h5")
            h.save_h5(fn)
            h2 = ThetaHolder.load_h5(fn)
            out = [int(h2.n_thetas), [canon_sample(t) for t in h2.thetas]]
            fn2 = os.path.join(d, "h2.h5")
            h2.save_h5(fn2)
            h3 = ThetaHolder.load_h5(fn2)
            second["v"] = [int(h3.n_thetas), [canon_sample(t) for t in h3.thetas]]
            return out
        out = impl_call(go)
    finally:
        shutil.rmtree(d, ignore_errors=True)
    mixed = len({repr(c[1]) for c in orig}) > 1
    pred = None
    if n == 0:
        if not isinstance(out, ImplError):
            pred = "an empty holder was saved"
    elif overfull:
        pass
    elif isinstance(out, ImplError):
        pred = "save/load of a non-empty holder within its declared size raised %r" % (out,)
    else:
        if out[0] != declared:
            pred = "declared size changed: %r -> %r" % (declared, out[0])
        elif len(out[1]) != n:
            pred = "number of samples changed: %d -> %d" % (n, len(out[1]))
        else:
            for i in range(n):
                if out[1][i][0] != orig[i][0]:
                    j = [k for k in range(n) if orig[k][0] == out[1][i][0]]
                    pred = "sample %d differs after reload (private parameters)%s" % (i, " = original sample %d: order changed" % j[0] if j else "")
                    break
                if out[1][i][1] != orig[i][1] and (STRICT_SHARED or not mixed):
                    pred = "sample %d differs after reload (shared parameters: reloaded has the table of sample 0)" % i
                    break
            if pred is None and second.get("v") != out:
                pred = "save/load of the reloaded holder is not a fixed point"
    feats = ["roundtrip", desc["type"], "values-" + desc["mode"], desc["dtype"]]
    if desc.get("scalars", "py") != "py":
        feats.append("numpy-scalars:" + desc["scalars"])
    if desc.get("layout", "C") != "C":
        feats.append("layout:" + desc["layout"])
    if n >= 100:
        feats.append("n>=100(three-digit groups loaded)")
    if int(np.prod(desc["dims"])) >= 10000:
        feats.append("realistic-size")
    if n == 0:
        feats.append("save-empty")
    if overfull:
        feats.append("overfull(malformed)")
    if n >= 11:
        feats.append("n>=11(lexicographic!=numeric)")
    if 0 < n < declared:
        feats.append("partial")
    if desc["type"] == "inter":
        feats.append("table-" + desc.get("table", "none"))
        if mixed:
            feats.append("mixed-shared(outside contract)")
        if any(len(c[1]) == 0 for c in orig):
            feats.append("empty-table")
    if any(0 in v[2] for c in orig for v in c[0][1:]):
        feats.append("zero-size-array")
    flat = [b for c in orig for v in c[0][1:] if v[1] == s2l("<f8") for b in v[3]]
    if any(0 < (b & 0x7FFFFFFFFFFFFFFF) < (1 << 52) for b in flat):
        feats.append("denormal")
    if any(b == 1 << 63 for b in flat):
        feats.append("-0.0")
    if any((b & 0x7FFFFFFFFFFFFFFF) > 0x7FF0000000000000 for b in flat):
        feats.append("nan-payload")
    if any(_not_f32(b) for b in flat):
        feats.append("not-float32-representable")
    return dict(wire=[0, _holder_wire(declared, samples)], impl=out, pred=pred, features=feats, cmp=cmp_result())


def _not_f32(b):
    x = struct.unpack("<d", struct.pack("<Q", b))[0]
    if math.isnan(x) or math.isinf(x):
        return False
    with np.errstate(all="ignore"):
        return float(np.float32(x)) != x


def _tagged_chains(chains):
    """in-memory holders with globally numbered tag samples; returns (holders, tags per chain)"""
    from batchie.core import ThetaHolder
    hs, tags, nxt = [], [], 0
    for declared, n in chains:
        h = ThetaHolder(declared)
        ts = []
        for _ in range(n):
            h.add_theta(tag_sample(nxt))
            ts.append(nxt)
            nxt += 1
        hs.append(h)
        tags.append(ts)
    return hs, tags


def _run_concat(desc):
    from batchie.core import ThetaHolder
    chains, order = desc["chains"], desc["order"]
    hs, tags = _tagged_chains(chains)
    d = _tmpdir()
    try:
        def go():
            loaded = []
            for pos, c in enumerate(order):
                if chains[c][1] == 0:
                    loaded.append(hs[c])           # an empty holder cannot be saved: concatenated in memory
                else:
                    fn = os.path.join(d, "chain_%d_%d.h5" % (pos, c))
                    hs[c].save_h5(fn)
                    loaded.append(ThetaHolder.load_h5(fn))
            r = ThetaHolder.concat(loaded)
            return [int(r.n_thetas), [[tag_of(t), []] for t in r.thetas]]
        out = impl_call(go)
    finally:
        shutil.rmtree(d, ignore_errors=True)
    pred = None
    if not order:
        if not isinstance(out, ImplError):
            pred = "concat of no holders returned a value"
    elif isinstance(out, ImplError):
        pred = "concat raised %r" % (out,)
    else:
        expect = [t for c in order for t in tags[c]]
        if [t[0] for t in out[1]] != expect:
            pred = "concatenation is not chain-major: %r, expected %r" % ([t[0] for t in out[1]][:30], expect[:30])
        elif out[0] != sum(chains[c][0] for c in order):
            pred = "declared size of the concatenation is not the sum of the declared sizes"
    feats = ["concat", "chains=%d" % len(order)]
    if not order:
        feats.append("trivial")
    if order != sorted(order):
        feats.append("shuffled-argument-order")
    if len(set(order)) < len(order):
        feats.append("same-file-twice")
    if any(chains[c][1] < chains[c][0] for c in order):
        feats.append("partial")
    if any(chains[c][1] >= 11 for c in order):
        feats.append("n>=11(lexicographic!=numeric)")
    wire = [2, [[chains[c][0], [[t, []] for t in tags[c]]] for c in order]]
    return dict(wire=wire, impl=out, pred=pred, features=feats, cmp=cmp_result())


def _eval_screen():
    from batchie.data import Screen
    return Screen(
        observations=np.array([0.1, 0.2, 0.3, 0.4, 0.5, 0.6, 0.7]),
        observation_mask=np.array([True] * 7),
        sample_names=np.array(["a", "a", "b", "b", "c", "c", "a"], dtype=str),
        plate_names=np.array(["p", "p", "q", "q", "r", "r", "p"], dtype=str),
        treatment_names=np.array([["x", "y"], ["x", "z"], ["y", "z"], ["x", "y"], ["z", "x"], ["y", "y"], ["x", ""]], dtype=str),
        treatment_doses=np.array([[2.0, 2.0], [1.0, 2.0], [2.0, 1.0], [2.0, 0.1], [2.0, 1.0], [2.0, 1.0], [1.0, 0.0]]),
    )


def _run_evaluate(desc):
    from batchie.cli import evaluate_model
    from batchie.core import ThetaHolder
    from batchie.models.main import ModelEvaluation
    chains, order, typ = desc["chains"], desc["order"], desc["type"]
    r = random.Random(desc["vseed"])
    screen = _eval_screen()
    ns, nt = int(screen.sample_ids.max()) + 1, int(screen.treatment_ids.max()) + 1
    D = 2
    hs, owner, samples = [], [], []
    for c, (declared, n) in enumerate(chains):
        table = None
        if typ == "inter":
            table = {(int(s), int(t)): (1.0 if t == -1 else r.uniform(0.3, 1.0))
                     for s in np.unique(screen.sample_ids) for t in np.unique(screen.treatment_ids)}
        h = ThetaHolder(declared)
        for _ in range(n):
            t = make_sample(r, typ, (ns, nt, D), "moderate", "f8", table)
            t.precision = 2.0
            h.add_theta(t)
            owner.append(c)
            samples.append(t)
        hs.append(h)
    with np.errstate(all="ignore"):
        ref = [np.asarray(t.predict_viability(screen), dtype=float) for t in samples]
        # every prediction method is used BEFORE the samples are saved (the order of the real pipeline: scoring / evaluation use
        # the samples that are later written): a prediction that leaves anything behind on the sample (its private parameters are
        # its __dict__) would change the file or break the reload below
        for t in samples:
            t.predict_conditional_mean(screen)
            t.predict_conditional_variance(screen)
    refbits = [tuple(_bits_list(p)) for p in ref]
    if len(set(refbits)) != len(refbits):
        raise RuntimeError("harness: two generated samples predict identically; cannot recognise columns")
    lookup = {b: i for i, b in enumerate(refbits)}
    d = _tmpdir()
    info = {}
    try:
        screen.save_h5(os.path.join(d, "screen.h5"))
        files = []
        for c, h in enumerate(hs):
            fn = os.path.join(d, "chain_%d.h5" % c)
            h.save_h5(fn)
            files.append(fn)
        argv = ["evaluate_model", "--screen", os.path.join(d, "screen.h5"), "--thetas"] + [files[c] for c in order] + \
               ["--output", os.path.join(d, "me.h5")]

        def go():
            lg = logging.getLogger("batchie")
            old_handlers, old_level, old_argv = lg.handlers[:], lg.level, sys.argv
            sys.argv = argv
            try:
                with contextlib.redirect_stderr(io.StringIO()), contextlib.redirect_stdout(io.StringIO()):
                    evaluate_model.main()
            finally:
                sys.argv = old_argv
                lg.handlers[:] = old_handlers
                lg.setLevel(old_level)
            me = ModelEvaluation.load_h5(os.path.join(d, "me.h5"))
            preds = np.asarray(me.predictions)
            info["shape"] = preds.shape
            cols = []
            for k in range(preds.shape[1]):
                b = tuple(_bits_list(np.asarray(preds[:, k], dtype=float)))
                cols.append(lookup.get(b, -1))
            info["cols"] = cols
            info["ids"] = [int(x) for x in me.chain_ids]
            return [[info["ids"][k], [cols[k], []]] for k in range(len(cols))] if len(cols) == len(info["ids"]) else \
                [["length mismatch", info["ids"], cols]]
        out = impl_call(go)
    finally:
        shutil.rmtree(d, ignore_errors=True)
    complete = all(declared == n for declared, n in chains)
    pred = None
    if isinstance(out, ImplError):
        if complete:
            pred = "evaluate_model raised on complete chains: %r" % (out,)
    else:
        expect_cols = [i for c in order for i in range(len(samples)) if owner[i] == c]
        expect_ids = [pos for pos, c in enumerate(order) for i in range(len(samples)) if owner[i] == c]
        if info["shape"][0] != screen.size:
            pred = "prediction matrix has %d rows for %d experiments" % (info["shape"][0], screen.size)
        elif -1 in info["cols"]:
            pred = "prediction column %d is not bit-identical to the prediction of any saved sample" % info["cols"].index(-1)
        elif info["cols"] != expect_cols:
            pred = "prediction columns are not in chain-major order: %r expected %r" % (info["cols"][:30], expect_cols[:30])
        elif info["ids"] != expect_ids:
            pred = "chain ids are not aligned with the columns: %r expected %r" % (info["ids"][:30], expect_ids[:30])
    # wire: the sample of global number i is (i, ()) ; the model saves/loads every chain itself
    nxt = 0
    whs = []
    base = []
    for declared, n in chains:
        base.append(nxt)
        nxt += n
    for c in order:
        declared, n = chains[c]
        whs.append([declared, [[base[c] + j, []] for j in range(n)]])
    feats = ["evaluate", typ, "chains=%d" % len(order)]
    if order != sorted(order):
        feats.append("shuffled-argument-order")
    if not complete:
        feats.append("partial")
    if any(n >= 11 for _, n in chains):
        feats.append("n>=11(lexicographic!=numeric)")
    return dict(wire=[3, whs], impl=out, pred=pred, features=feats, cmp=cmp_result())


def _run_ops(desc):
    from batchie.core import ThetaHolder
    declared, ops = desc["declared"], desc["ops"]
    h = ThetaHolder(declared)
    ref = []
    out, wire_ops = [], []
    pred = None
    nxt = 0
    for op in ops:
        if op[0] == "add":
            t = tag_sample(nxt)
            wire_ops.append([0, [nxt, []]])
            nxt += 1
            should_refuse = len(ref) >= declared
            try:
                h.add_theta(t)
                out.append([0, len(h.thetas)])
                if should_refuse:
                    pred = pred or "add_theta accepted sample number %d into a holder declared for %d" % (len(ref) + 1, declared)
                ref.append(t)
                if len(h.thetas) != len(ref) or h.thetas[-1] is not t:
                    pred = pred or "add_theta did not append the sample at the end"
            except ValueError:
                out.append([1])
                if not should_refuse:
                    pred = pred or "add_theta refused although only %d of %d samples are present" % (len(ref), declared)
                if len(h.thetas) != len(ref):
                    pred = pred or "a refused add_theta changed the holder"
        else:
            i = op[1]
            wire_ops.append([1, i])
            inside = 0 <= i < len(ref)
            try:
                t = h.get_theta(i)
                out.append([0, [tag_of(t), []]])
                if not inside:
                    pred = pred or "get_theta(%d) returned a sample from a holder of %d" % (i, len(ref))
                elif t is not ref[i]:
                    pred = pred or "get_theta(%d) returned the wrong sample" % i
            except ValueError:
                out.append([1])
                if inside:
                    pred = pred or "get_theta(%d) refused although %d samples are present" % (i, len(ref))

    def cmpf(m, i):
        if isinstance(m, str):
            return "model driver failure: " + m
        if len(m) != len(i):
            return "different number of results"
        for k, (a, b) in enumerate(zip(m, i)):
            if a[0] != b[0] or (a[0] == 0 and a[1] != b[1]):
                return "operation %d (%r): model %r impl %r" % (k, ops[k], a, b)
        return None
    feats = ["ops"]
    if any(o[0] == 1 and w[0] == 0 for o, w in zip(out, wire_ops)):
        feats.append("add-refused")
    if any(o[0] == 1 and w[0] == 1 for o, w in zip(out, wire_ops)):
        feats.append("get-refused")
    if any(w[0] == 1 and w[1] < 0 for w in wire_ops):
        feats.append("negative-index")
    if declared <= 0:
        feats.append("declared<=0")
    return dict(wire=[4, declared, wire_ops], impl=out, pred=pred, features=feats, cmp=cmpf)


def _run_checkpoint(desc):
    """a collection saved more than once while it grows (checkpointing): interaction samples share ONE single-effect
    table object that the model updates in place between the saves (same keys re-measured, or new keys); every save
    followed by a load must give back the collection as it is at that moment (implementation-only predicate)"""
    from batchie.core import ThetaHolder
    r = random.Random(desc["vseed"])
    typ, steps, mode = desc["type"], desc["steps"], desc["mode"]
    dims = tuple(desc["dims"])
    table = make_table(r, desc["tsize"], mode) if typ == "inter" else None
    d = _tmpdir()
    pred = None
    try:
        h = ThetaHolder(len(steps))
        for k, how in enumerate(steps):
            if typ == "inter" and k > 0:
                if how in ("revalue", "both"):        # same keys, new values (the same wells measured again)
                    for key in list(table):
                        table[key] = _value(r, mode)
                if how in ("grow", "both"):
                    table[(7 + k, k)] = _value(r, mode)
            h.add_theta(make_sample(r, typ, dims, mode, "f8", table))
            fn = os.path.join(d, "ck%d.h5" % k)
            h.save_h5(fn)
            back = ThetaHolder.load_h5(fn)
            now = [canon_sample(t) for t in h.thetas]
            got = [canon_sample(t) for t in back.thetas]
            if pred is None and got != now:
                pred = "checkpoint %d (%s): the collection saved after %d sample(s) does not reload as it was at that moment (%s)" % (
                    k, how, k + 1, "number of samples" if len(got) != len(now) else "a parameter value / the shared single-effect table differs")
    finally:
        shutil.rmtree(d, ignore_errors=True)
    return dict(wire=None, impl=None, pred=pred, features=["checkpoint", "type:" + typ] + sorted({"step:" + x for x in steps[1:]}))


def _run_equals(desc):
    """Theta.equals(a, b) must say whether the two samples hold the same parameter values (finite values, no NaN): b is a
    rebuilt copy of a, changed in at most one place (implementation-only predicate; the linked model is Model/ThetaDicts.v
    sample_eqb, where two tables with the same entries in another iteration order are NOT equal - as in the code)"""
    typ, mut = desc["type"], desc["mutate"]
    dims = tuple(desc["dims"])

    def build(other_class=False):
        r = random.Random(desc["vseed"])
        t = typ if not other_class else ("inter" if typ == "combo" else "combo")
        table = make_table(r, desc["tsize"], "moderate") if typ == "inter" or other_class else None
        return make_sample(r, t, dims, "moderate", "f8", table if t == "inter" else None)
    a = build()
    b = build(other_class=(mut == "other_class"))
    if mut in ("W", "V2", "W0", "V1", "V0"):
        arr = np.array(getattr(b, mut), copy=True)
        arr.flat[arr.size - 1] += 1.0
        setattr(b, mut, arr)
    elif mut in ("precision", "alpha"):
        setattr(b, mut, getattr(b, mut) + 1.0)
    elif mut.startswith("table_"):
        tb = dict(b.single_effect_lookup)
        ks = list(tb)
        if mut == "table_value":
            tb[ks[-1]] = tb[ks[-1]] + 1.0
        elif mut == "table_key":
            v = tb.pop(ks[-1])
            tb[(ks[-1][0] + 50, ks[-1][1])] = v
        elif mut == "table_extra":
            tb[(77, 7)] = 0.5
        elif mut == "table_order":
            tb = {k: tb[k] for k in reversed(ks)}
        b.single_effect_lookup = tb
    expected = mut == "none"
    with contextlib.redirect_stdout(io.StringIO()):
        got, back = impl_call(lambda: bool(a.equals(b))), impl_call(lambda: bool(b.equals(a)))
    pred = None
    if got is not expected:
        pred = "equals returned %r for two samples that %s" % (got, "hold the same values" if expected else "differ in " + mut)
    elif back is not expected:
        pred = "equals (arguments exchanged) returned %r for two samples that %s" % (back, "hold the same values" if expected else "differ in " + mut)
    return dict(wire=None, impl=None, pred=pred, features=["equals", "type:" + typ, "differ:" + mut])


def _run_pipeline(desc):
    """two chains of real sweeps of a shipped model on a 20-row screen; the exported samples (numpy-scalar attributes, float32 / float64
    arrays as the sampler leaves them) go through ThetaHolder.save_h5 / load_h5, evaluate_model.main() and analyze_model_evaluation.main().
    Predicate only: the reloaded samples are the saved ones bit for bit (dtype and shape included) in the same order and predict
    identically; the evaluation's columns are the samples' predictions in chain-major order with aligned chain ids; the report's
    numbers are those of that evaluation."""
    import json
    from batchie.cli import analyze_model_evaluation, evaluate_model
    from batchie.core import ThetaHolder
    from batchie.data import ExperimentSpace, Screen
    from batchie.models.main import ModelEvaluation
    from batchie.models.sparse_combo import SparseDrugCombo
    from batchie.models.sparse_combo_interaction import SparseDrugComboInteraction
    r = random.Random(desc["seed"])
    names, doses, samples, obs = [], [], [], []
    drugs = ["x", "y", "z"]
    for s_ in ("a", "b", "c"):                       # every single agent of every sample measured, then combinations
        for dg in drugs:
            names.append([dg, ""]); doses.append([1.0, 0.0]); samples.append(s_); obs.append(r.uniform(0.2, 0.95))
    while len(names) < 20:
        a, b = r.sample(drugs, 2)
        names.append([a, b]); doses.append([1.0, 1.0]); samples.append(r.choice(["a", "b", "c"])); obs.append(r.uniform(0.05, 0.9))
    n = len(names)
    screen = Screen(observations=np.array(obs), observation_mask=np.array([True] * n), sample_names=np.array(samples, dtype=str),
                    plate_names=np.array(["p%d" % (i % 3) for i in range(n)], dtype=str), treatment_names=np.array(names, dtype=str),
                    treatment_doses=np.array(doses))
    cls = SparseDrugCombo if desc["type"] == "combo" else SparseDrugComboInteraction
    d = _tmpdir()
    pred, feats = None, ["pipeline", desc["type"], "real-sampler"]
    state = np.random.get_state()
    try:
        def go():
            np.random.seed(desc["seed"] % (1 << 32))
            model = cls(n_embedding_dimensions=desc["D"], experiment_space=ExperimentSpace.from_screen(screen))
            model.set_rng(np.random.default_rng(desc["seed"]))
            model.add_observations(screen.subset_observed())
            holders = []
            for _c in range(desc["chains"]):
                model.reset_model()
                h = ThetaHolder(desc["sweeps"])
                for _s in range(desc["sweeps"]):
                    model.step()
                    h.add_theta(model.get_model_state())
                holders.append(h)
            files = []
            screen.save_h5(os.path.join(d, "screen.h5"))
            for c, h in enumerate(holders):
                fn = os.path.join(d, "chain_%d.h5" % c)
                h.save_h5(fn)
                files.append(fn)
            loaded = [ThetaHolder.load_h5(fn) for fn in files]
            return holders, files, loaded
        with warnings.catch_warnings():
            warnings.simplefilter("ignore")
            out = impl_call(go)
        if isinstance(out, ImplError):
            return dict(wire=None, impl=out, pred="the pipeline raised before the samples were reloaded: %r" % (out,), features=feats)
        holders, files, loaded = out
        alls = [t for h in holders for t in h.thetas]
        kinds = sorted({type(getattr(alls[0], k)).__name__ for k in ("alpha", "precision") if hasattr(alls[0], k)})
        feats.append("scalar-types:" + "+".join(kinds))
        with warnings.catch_warnings(), np.errstate(all="ignore"):
            warnings.simplefilter("ignore")
            for c, (h, h2) in enumerate(zip(holders, loaded)):
                if h2.n_thetas != h.n_thetas or len(h2.thetas) != len(h.thetas):
                    pred = "chain %d: %d of %d samples saved, %d of %d reloaded" % (c, len(h.thetas), h.n_thetas, len(h2.thetas), h2.n_thetas)
                    break
                for i, (t, t2) in enumerate(zip(h.thetas, h2.thetas)):
                    if canon_sample(t) != canon_sample(t2):
                        j = [k for k, u in enumerate(h.thetas) if canon_sample(u)[0] == canon_sample(t2)[0]]
                        pred = "chain %d: reloaded sample %d differs from the saved one%s" % (c, i, " (= saved sample %d: order changed)" % j[0] if j else " (values, dtype or shape)")
                        break
                    for m_ in ("predict_viability", "predict_conditional_mean", "predict_conditional_variance"):
                        a, b = np.asarray(getattr(t, m_)(screen)), np.asarray(getattr(t2, m_)(screen))
                        if a.dtype != b.dtype or a.shape != b.shape or a.tobytes() != b.tobytes():
                            pred = "chain %d: reloaded sample %d does not predict identically (%s)" % (c, i, m_)
                            break
                    if pred:
                        break
                if pred:
                    break
            if pred is None:
                def cli(mod, argv):
                    lg = logging.getLogger("batchie")
                    old_handlers, old_level, old_argv = lg.handlers[:], lg.level, sys.argv
                    sys.argv = argv
                    try:
                        with contextlib.redirect_stderr(io.StringIO()), contextlib.redirect_stdout(io.StringIO()):
                            mod.main()
                    finally:
                        sys.argv = old_argv
                        lg.handlers[:] = old_handlers
                        lg.setLevel(old_level)
                order = [1, 0]
                me_fn = os.path.join(d, "me.h5")
                e = impl_call(cli, evaluate_model, ["evaluate_model", "--screen", os.path.join(d, "screen.h5"), "--thetas"] + [files[c] for c in order]
                              + ["--output", me_fn])
                if isinstance(e, ImplError):
                    pred = "evaluate_model raised on the real chains: %r" % (e,)
                else:
                    me = ModelEvaluation.load_h5(me_fn)
                    P = np.asarray(me.predictions, dtype=float)
                    want_cols = [np.asarray(t.predict_viability(screen), dtype=float) for c in order for t in holders[c].thetas]
                    want_ids = [pos for pos, c in enumerate(order) for _t in holders[c].thetas]
                    if P.shape != (n, len(want_cols)):
                        pred = "evaluation has shape %r for %d experiments and %d samples" % (P.shape, n, len(want_cols))
                    elif any(P[:, k].tobytes() != want_cols[k].tobytes() for k in range(len(want_cols))):
                        k = [k for k in range(len(want_cols)) if P[:, k].tobytes() != want_cols[k].tobytes()][0]
                        pred = "prediction column %d is not the prediction of sample %d in chain-major order" % (k, k)
                    elif [int(x) for x in me.chain_ids] != want_ids:
                        pred = "chain ids are not aligned with the columns"
                    else:
                        saved = {nm: getattr(analyze_model_evaluation.plotting, nm) for nm in
                                 ("plot_correlation_heatmap", "predicted_vs_observed_scatterplot", "predicted_vs_observed_scatterplot_per_sample",
                                  "per_sample_violin_plot")}
                        try:
                            for nm in saved:
                                setattr(analyze_model_evaluation.plotting, nm, lambda *a, **k: None)
                            outdir = os.path.join(d, "report")
                            e = impl_call(cli, analyze_model_evaluation, ["analyze_model_evaluation", "--model-evaluation", me_fn, "--screen",
                                                                          os.path.join(d, "screen.h5"), "--thetas"] + [files[c] for c in order]
                                          + ["--output-dir", outdir])
                        finally:
                            for nm, fn_ in saved.items():
                                setattr(analyze_model_evaluation.plotting, nm, fn_)
                        if isinstance(e, ImplError):
                            pred = "analyze_model_evaluation raised on the real chains: %r" % (e,)
                        else:
                            rep = json.load(open(os.path.join(outdir, "summary_statistics.json")))
                            o = np.asarray(me.observations, dtype=float)
                            sq = (P - o[:, None]) ** 2
                            tot = 0.0
                            for i in range(P.shape[0]):
                                for k in range(P.shape[1]):
                                    tot += sq[i, k]
                            per_exp = [sum(sq[i, k] for k in range(P.shape[1])) / P.shape[1] for i in range(P.shape[0])]
                            per_chain = [sum(sq[i, k] for i in range(P.shape[0]) for k in range(P.shape[1]) if want_ids[k] == cid)
                                         / (P.shape[0] * want_ids.count(cid)) for cid in sorted(set(want_ids))]
                            var = lambda l: sum((x - sum(l) / len(l)) ** 2 for x in l) / len(l)
                            for key, want in (("mse", tot / sq.size), ("mse_variance", var(per_exp)), ("inter_chain_mse_variance", var(per_chain))):
                                if abs(rep.get(key, float("nan")) - want) > 1e-9 * max(1.0, abs(want)) or rep.get(key) != rep.get(key):
                                    pred = "reported %s %r differs from its definition on the evaluation %r" % (key, rep.get(key), want)
                                    break
    finally:
        np.random.set_state(state)
        shutil.rmtree(d, ignore_errors=True)
    return dict(wire=None, impl=dict(samples=len(alls), experiments=n), pred=pred, features=feats)


def run(desc):
    k = desc["kind"]
    if k == "equals":
        return _run_equals(desc)
    if k == "checkpoint":
        return _run_checkpoint(desc)
    if k == "keys":
        return _run_keys(desc)
    if k == "roundtrip":
        return _run_roundtrip(desc)
    if k == "concat":
        return _run_concat(desc)
    if k == "evaluate":
        return _run_evaluate(desc)
    if k == "ops":
        return _run_ops(desc)
    if k == "pipeline":
        return _run_pipeline(desc)
    raise ValueError(k)


def shrink(desc):
    k = desc["kind"]
    if k == "roundtrip":
        if desc["n"] > 1:
            yield dict(desc, n=desc["n"] - 1, declared=desc["declared"] - 1)
        for i in range(3):
            if desc["dims"][i] > (1 if i == 2 else 0):
                dm = list(desc["dims"])
                dm[i] -= 1
                yield dict(desc, dims=dm)
        if desc.get("tsize", 0) > 0:
            yield dict(desc, tsize=desc["tsize"] - 1)
    if k in ("concat", "evaluate"):
        ch, order = desc["chains"], desc["order"]
        for i in range(len(order)):
            if len(order) > 1:
                yield dict(desc, order=order[:i] + order[i + 1:])
        for c in range(len(ch)):
            if ch[c][1] > (1 if k == "evaluate" else 0):
                ch2 = [list(x) for x in ch]
                ch2[c] = [ch[c][0] - 1, ch[c][1] - 1]
                yield dict(desc, chains=ch2)
    if k == "ops":
        ops = desc["ops"]
        for i in range(len(ops)):
            if len(ops) > 1:
                yield dict(desc, ops=ops[:i] + ops[i + 1:])
    if k == "keys" and desc["n"] > 1:
        yield dict(desc, n=desc["n"] - 1)


def signature(desc, res):
    p = res.get("pred") or ""
    if desc.get("kind") == "roundtrip" and "shared parameters" in p:
        return "roundtrip: samples with different shared parameters reload with the table of sample 0"
    return "%s: %s" % (desc.get("kind"), p.split(":")[0][:80])


def extra(tier):
    """self-test of the predicate: a load_h5 that orders the groups lexicographically (the bug the
    numeric sort prevents) must be reported by the roundtrip predicate for 12 samples and not for 10."""
    import builtins
    import batchie.core as core
    res = []
    d12 = dict(kind="roundtrip", type="combo", declared=12, n=12, dims=[1, 1, 1], mode="mixed", dtype="f8", vseed=7)
    d10 = dict(d12, declared=10, n=10)
    core.sorted = lambda l, key=None: builtins.sorted(l)      # shadows the builtin inside batchie.core only
    try:
        p12 = _run_roundtrip(d12)["pred"]
        p10 = _run_roundtrip(d10)["pred"]
    finally:
        del core.sorted
    ok = bool(p12) and "order changed" in p12 and p10 is None
    res.append(("predicate detects a lexicographic load order (12 samples) and accepts 10", ok, "n=12: %r; n=10: %r" % (p12, p10)))
    clean = _run_roundtrip(d12)["pred"]
    res.append(("the same case passes on the real load_h5", clean is None, repr(clean)))
    res.append(_tracker_primitives())
    return res


def _tracker_primitives():
    """the meanings the SimulationTracker link gives its primitives, on the real class: the instance dict is the three attributes in
    __init__'s order, json.dump / json.load of it round-trip, load binds by name and refuses other key sets with a TypeError"""
    import json
    import shutil
    import tempfile
    from batchie.core import SimulationTracker
    d = tempfile.mkdtemp(dir=common.WORK)
    try:
        t = SimulationTracker(plate_ids_selected=[[0], [3, 1]], losses=[0.5, 0.1 + 0.2, 1e300], seed=12)
        ok = list(t.__dict__.items()) == [("plate_ids_selected", [[0], [3, 1]]), ("losses", [0.5, 0.1 + 0.2, 1e300]), ("seed", 12)]
        fn = os.path.join(d, "t.json")
        t.save(fn)
        ok = ok and json.load(open(fn)) == t.__dict__ and SimulationTracker.load(fn).__dict__ == t.__dict__
        json.dump({"seed": 1, "losses": [], "plate_ids_selected": []}, open(fn, "w"))
        ok = ok and SimulationTracker.load(fn).__dict__ == {"plate_ids_selected": [], "losses": [], "seed": 1}
        refused = []
        for bad in ({"seed": 1, "extra": 2}, {"seed": 1, "losses": []}):
            json.dump(bad, open(fn, "w"))
            r = impl_call(SimulationTracker.load, fn)
            refused.append(isinstance(r, ImplError) and r.cls == "TypeError")
        open(fn, "w").close()
        r = impl_call(SimulationTracker.load, fn)
        refused.append(isinstance(r, ImplError))
        return ("SimulationTracker: instance dict, JSON round trip, binding by name, refusals as the link's primitives say", ok and all(refused),
                "ok=%r refused=%r" % (ok, refused))
    finally:
        shutil.rmtree(d, ignore_errors=True)
