"""C08 — each Gibbs block of the sparse combination model draws from the exact full conditional."""
import inspect
import math
import random
import textwrap
import warnings
from fractions import Fraction
from unittest import mock

import numpy as np

import common
from common import frac

ID = "C08"
LEVEL = "proof"
RULE = ("kinds: sweep (2-4 samples, 2-5 treatments, D in 1..3, <= 12 observed rows: combinations, single-agent rows in "
        "either column, control-control rows, treatments seen only first / only second / both / never, samples without "
        "data, optionally no data at all; 1-3 sampler steps through SparseDrugCombo.add_observations/step (one case in ten with a "
        "reset_model() between two sweeps, as every chain of batchie.sampling.sample starts) with "
        "np.random.normal / np.random.gamma / sample_mvn_from_precision replaced by recording stubs that return prescribed "
        "values, a few MVN draws raising); selfcombo (same, plus a row with the same treatment in both columns); "
        "mvn (sample_mvn_from_precision with a stubbed generator against Model/Mvn.v); "
        "realdraws (predicate only, NOTHING stubbed: 3-8 samples, 4-14 treatments, D in {2, 5, 10}, 50-150 observations of which one case in "
        "three nearly noiseless, a history add_observations / 40 sweeps / add_observations / 15 sweeps / add_observations + reset_model / 15 "
        "sweeps (thorough: 50-200 + 30 + 30) with the real np.random.normal / gamma, the real Cholesky of sample_mvn_from_precision on the "
        "float32 Q the sampler builds - its argument-less default_rng() replaced by a seeded Generator -: no MVN draw raises and no block is "
        "skipped, every embedding row / intercept is redrawn in every sweep, after EVERY step function the cache equals the recomputation on "
        "the CURRENT data, alpha, bounds, order, export every fifth sweep).  Per step function the extracted model is "
        "restarted from the implementation's pre-block state.  Non-trivial: at least one observation.")
THEOREMS = {
    "C08_order": "the model's sweep order equals the call order read from the source of mcmc_step (Generated/ConstsMcmc.v), is duplicate-free, contains every step function, starts with the reconstruction; mcmc_step is the composition in that order",
    "C08_gauss_block_W0": "W0[c] draw N(m, v): energy(W0[c]:=x) - energy(W0[c]:=0) = (x^2 - 2 m x)/v, i.e. the full conditional (all data, exact cache)",
    "C08_gauss_block_V0": "same for V0[m], under NoSelfCombo",
    "C08_gauss_block_W": "W[c] draw (Q, b): energy difference = x'Qx - 2 b'x, i.e. N(Q^-1 b, Q^-1) is the full conditional",
    "C08_gauss_block_V2": "same for V2[m], under NoSelfCombo",
    "C08_gauss_block_V1": "same for V1[m], under NoSelfCombo",
    "C08_gauss_generic": "the generic lemma: precision * sum_i ((rho_i - X_i.x)^2 - rho_i^2) + diagonal prior = quadratic form of (gramQ, xtr), any rows, any dimension",
    "C08_prior_draw_scalar": "W0[c] / V0[m] without data draw N(0, 1/prior precision)",
    "C08_prior_draw_W": "W[c] without data draws N(0, diag 1/tau); energy difference = sum tau_k x_k^2",
    "C08_prior_draw_V2": "V2[m] without data draws from its prior",
    "C08_prior_draw_V1": "V1[m] without data draws from its prior",
    "C08_draw_stored": "each Gaussian block stores the drawn value in its slot",
    "C08_alpha_mean": "after _alpha_step alpha = mean of the transformed observations (n > 0)",
    "C08_gamma_block_prec_obs": "prec draw Gamma(a, r): a-1 and r are the coefficients of -2 ln t and 2 t in the energy (n > 0, exact cache), for every function ln",
    "C08_gamma_block_tau0": "tau0 draw likewise",
    "C08_gamma_block_gam": "multiplicative gamma process: gam[d] draw likewise with tau = cumprod gam, for ln additive on positives, positive gam",
    "C08_gamma_block_gam_is_the_draw": "the (shape, rate) of the previous theorem are literally the head draw of the gamma-process program",
    "C08_horseshoe_draws_V0": "_prec_V0_step is exactly four gamma draws (aux of phi0, phi0, aux of eta0, eta0) with shapes 1, 1, 1, (1+n_drugdoses)/2, then returns",
    "C08_horseshoe_draws_V2": "same for _prec_V2_step (matrix / vector draws)",
    "C08_horseshoe_draws_V1": "same for _prec_V1_step",
    "C08_horseshoe_phiaux0": "phiaux0 draw Gamma(sh, rates): energy_hs(aux:=x) - energy_hs(aux:=x') = sum_m [-2(sh-1)(ln x_m - ln x'_m) + 2 rates_m (x_m - x'_m)] for all vectors x, x', every ln, every tilt j: the joint full conditional of the whole auxiliary vector under the complete joint (horseshoe hyper-priors in gamma-mixture form included)",
    "C08_horseshoe_phi0": "phi0 draw Gamma(sh, rates) given the drawn auxiliaries: same identity in phi0 (whole vector), tilt j = 0.001, ln additive on positives, eta0 > 0, positive candidates",
    "C08_horseshoe_etaaux0": "etaaux0 draw Gamma(sh, r): same identity in the auxiliary of eta0, in any state with the same eta0 (so also after the phi0 update)",
    "C08_horseshoe_eta0": "eta0 draw Gamma(sh, r) given the drawn auxiliary, in the state holding the new clipped phi0 (positive): same identity in eta0",
    "C08_horseshoe_stored0": "_prec_V0_step stores clip(phi0 draw) and clip(eta0 draw) and changes nothing else the joint reads",
    "C08_horseshoe_phiaux2": "as phiaux0 for the (n_drugdoses x D) auxiliaries of phi2 (double sum over entries)",
    "C08_horseshoe_phi2": "as phi0 for the matrix phi2 (eta2 > 0 entrywise)",
    "C08_horseshoe_etaaux2": "as etaaux0 for the D auxiliaries of eta2",
    "C08_horseshoe_eta2": "as eta0 for the vector eta2 (shape (1+n_drugdoses)/2, rate aux_k + sum_m phi2[m,k] V2[m,k]^2 / 2 + 0.001)",
    "C08_horseshoe_stored2": "_prec_V2_step stores the clipped phi2 / eta2 draws and changes nothing else the joint reads",
    "C08_horseshoe_phiaux1": "as phiaux2 for V1",
    "C08_horseshoe_phi1": "as phi2 for V1",
    "C08_horseshoe_etaaux1": "as etaaux2 for V1",
    "C08_horseshoe_eta1": "as eta2 for V1",
    "C08_horseshoe_stored1": "as stored2 for V1",
    "C08_horseshoe_joint_extends": "energy_hs - energy does not depend on anything but phi/eta/auxiliaries: every Gaussian / gamma block theorem about energy is a theorem about the complete joint energy_hs",
    "C08_horseshoe_jitter_is_tilt": "energy_hs(j) = energy_hs(0) + 2 j (sum of all horseshoe precisions): the code's '+1e-3 for stability' is an exponential tilt exp(-0.001 p) of the plain half-Cauchy prior; against the plain model (j = 0) the phi/eta draws have the exact shape and a rate larger by exactly 0.001, the auxiliary draws are exact",
    "C08_clip_bounds": "tau0, prec (n > 0), eta0, phi0, eta2, phi2, eta1, phi1, tau lie in [1/sqrt(1+k), 1e6] after their step",
    "C08_prec_unclipped_without_data_refuted": "REFUTED clause: with no observation _prec_obs_step stores the draw unclipped (witness 2e6 > 1e6)",
    "C08_cache_invariant": "under NoSelfCombo, after any sequence of step functions and for all draw results Mu = reconstruct(state)",
    "C08_cache_invariant_steps": "... in particular after any number of sweeps",
    "C08_cache_invariant_blocks": "... and after every single W0/V0/W/V2/V1 block inside a step function",
    "C08_cache_refuted": "REFUTED without NoSelfCombo: a row with the same treatment in both columns leaves Mu stale after _V0_step (witness: Mu = 1, recomputation = 2)",
    "C08_export": "get_model_state predicts reconstruct(state) (= Mu when the cache is exact) on the training rows and carries prec",
    "C08_mvn_mean_cov": "L lower triangular, non-zero diagonal, L L' = Q: Q m = b and L'(x - m) = z for the substitution results",
    "C08_model_is_source_observable": "prog_eq (equality of programs up to the extensionality of their continuations) implies: for every stream of drawn values the two programs issue the same list of draw arguments and end in the same state",
    "C08_model_is_source_mcmc_step_order": "translation of the WHOLE LegacySparseDrugComboImpl.mcmc_step, for ANY behaviour of the block methods: each of the 13 methods is called once, in the model's step_order, threading the state (complements the round-1 MCMC_STEP_ORDER constant of C08_order)",
    "C08_model_is_source_mcmc_step": "... hence with block methods that behave as the model's step functions the translated mcmc_step is the model's sweep",
    "C08_model_is_source_n_obs": "translation of n_obs = number of observations",
    "C08_model_is_source_get": "translation of the WHOLE get(attr, ix) (fancy-index copy, np.where(ix == -1)[0], zeroing of those entries) on a vector / a matrix = the model's get_v / get_r at every index",
    "C08_model_is_source_alpha_step": "translation of the WHOLE _alpha_step with fake_intercept = True (the early return without data, alpha = mean(y), Mu += alpha - old) = the model's alpha_step",
    "C08_model_is_source_prec_obs_step": "translation of the WHOLE _prec_obs_step (the no-data draw Gamma(a0, scale 1/b0) and return; sse, shape a0 + n/2, scale 1/(b0 + sse/2 + 1e-3), clip to [1/sqrt(1+n), 1e6]) = the model's program, when Mu has one entry per observation",
    "C08_model_is_source_prec_W0_step": "translation of the WHOLE _prec_W0_step = the model's program (all states)",
    "C08_model_is_source_W0_step": "translation of the WHOLE _W0_step (loop over range(n_clines), cline_idxs[c], prior-only branch N(0, var 1/tau0), residual y[cidx] - Mu[cidx] + W0[c], mean prec*sum/(prec*N + tau0), variance 1/(prec*N + tau0), store, Mu[cidx] += new - old) = the model's sequence of W0 blocks, when W0 has n_clines entries",
    "C08_model_is_source_prec_V0_step": "translation of the WHOLE _prec_V0_step with local_shrinkage = True (gamma draws of phiaux0, phi0, etaaux0, eta0 with their scales, the counts N1 + N2 from dd1_idxs / dd2_idxs, clip of phi0 to [1/sqrt(1+N1+N2), 1e6] and of eta0 to [1/sqrt(1+n), 1e6]) = the model's program, when phi0 and V0 have n_drugdoses entries",
    "C08_model_is_source_prec_V2_step": "same for _prec_V2_step (matrix / vector draws, eta2 broadcast over the rows, column sums, C[:, None]) when V2, phi2 are n_drugdoses x D and eta2 has D entries",
    "C08_model_is_source_prec_V1_step": "same for _prec_V1_step",
    "C08_model_is_source_prec_W_step": "translation of the WHOLE _prec_W_step with mult_gamma_proc = True (W**2 once, component 0 with shape 2 + n_clines*D/2, the loop over d in range(1, D) with the slices cumprod(gam)[d:] / gam[d] and parssq[:, d:], shape 3 + n_clines*(D-d)/2, rate 1 + sum/2 + 1e-3, gam[d] stored before the next component reads it, tau = cumprod(gam), clip) = the model's program, when W is n_clines x D, gam has D entries, D > 0",
    "C08_model_is_source_update": "translation of the WHOLE _update on the object's observation store (four lists, three defaultdict(list) index dicts): if the store represents the model's data (lists equal, every dict lists for every key the observation numbers with that key in insertion order - what the block links' index primitive reads) then after _update(y, cl, dd1, dd2) it represents the data extended by that row",
    "C08_model_is_source_update_empty": "the empty store (as __init__ leaves it) represents the empty data",
    "C08_model_is_source_encode_obs": "translation of encode_obs on a store that represents d returns (d_y, d_cl, d_dd1, d_dd2) - the block links' encode_obs primitive",
    "C08_model_is_source_reconstruct_Mu": "translation of the WHOLE _reconstruct_Mu(clip) (early return without data, W[cline] * get(V2,dd1) * get(V2,dd2) and W[cline] * (get(V1,dd1) + get(V1,dd2)) summed over the last axis, alpha + W0[cline] + get(V0,dd1) + get(V0,dd2), the optional clip) = the model's reconstruct_Mu, when the four observation arrays have equal length and W, V2, V1 have D columns",
    "C08_model_is_source_W_step": "translation of the WHOLE _W_step (loop over range(n_clines), prior-only branch N(0, diag 1/tau), design rows get(V2,dd1)*get(V2,dd2) + get(V1,dd1) + get(V1,dd2), old contribution X @ W[c], residual, mu_part = Xt @ resid * prec, Q = Xt @ X * prec with tau added on the diagonal, try/except around sample_mvn_from_precision (a raising call leaves the state unchanged), store, Mu[cidx] += X @ W[c] - old) = the model's sequence of W blocks, when W has n_clines rows and V2, V1 are n_drugdoses x D",
    "C08_model_is_source_V2_step": "translation of the WHOLE _V2_step (both slices, design rows W[cline] * get(V2, other treatment), empty-slice branches, concatenations, prior phi2[m] * eta2, Q[dix] += phi2[m] * eta2, try/except, store, Mu[idx] += ...) = the model's sequence of V2 blocks, when V2 has n_drugdoses rows, W is n_clines x D, phi2 is n_drugdoses x D, eta2 has D entries",
    "C08_model_is_source_V1_step": "same for _V1_step (design rows W[cline])",
    "C08_model_is_source_V0_step": "translation of the WHOLE _V0_step (loop over range(n_drugdoses), dd1_idxs[m] / dd2_idxs[m], prior-only branch with phi0[m]*eta0, the two residual slices, concatenation, mean, variance, store, Mu[idx] += new - old with the concatenated - possibly repeating - index) = the model's sequence of V0 blocks, when V0 has n_drugdoses entries",
    "C08_model_is_source_sample_mvn_from_precision": "translation of the WHOLE fast_mvn.sample_mvn_from_precision (default generator, the conditional expression np.linalg.cholesky(Q).T if not chol_factor else Q.T, the standard-normal draw of size Q.shape[0] as a draw node, the masked-array test, solve_triangular(Lt, z, lower=False), the mu_part / mu / neither cases) = Model/Mvn.v's mvn_general for EVERY argument combination, every function chol (np.linalg.cholesky; Err = it raised) and every lin_solve; equality of programs of draws with a result-or-exception value, up to the extensionality of continuations",
    "C08_model_is_source_sample_mvn": "... as the Gibbs blocks call it, sample_mvn_from_precision(Q, mu_part=b): the exception chol raised, or ONE draw of len(Q) standard normals z and the value sample_mvn(L, z, b) = back_subst(L, z) + back_subst(L, fwd_subst(L, b)) of Model/Mvn.v for the factor L chol returned (the model C08_mvn_mean_cov is about)",
    "C08_model_is_source_mvn_node": "the MVN draw node of the block links becomes the translated function: programs that are equal with abstract DMvn(Q, b) nodes stay equal when every such node is replaced by the translated sample_mvn_from_precision (its Cholesky call, its draw node, its solves; a raise = the answer VFail of the block's try/except) on the source side and by the model's mvn_prog on the model side",
    "C08_model_is_source_mvn_law": "under np.linalg.cholesky's contract (lower-triangular factor of the size of Q, non-zero diagonal, L L^T = Q) the model's mvn_prog is one draw z of len(Q) standard normals returning x with Q m = b and L^T (x - m) = z, i.e. x ~ N(Q^-1 b, Q^-1)",
    "C08_model_is_source_init": "translation of the WHOLE LegacySparseDrugComboImpl.__init__ on the whole object (every attribute it assigns): sizes / options / hyper-parameters recorded, empty observation lists and index dicts, V2, V1 zeros (n_drugdoses, D), W zeros (n_clines, D), V0, W0 zeros, phi2 / phi1 / phi0 = 100 in the shapes of V2 / V1 / V0, eta2 = eta1 = ones(D), eta0 = 1, tau = 100 ones(D), tau0 = 100, gam = ones(D), alpha = 0, prec = 100, Mu empty - for non-negative sizes, any previous content of the object, mult_gamma_proc = True",
    "C08_model_is_source_init_negative": "a negative size makes the translated constructor raise (numpy's ValueError), no object is built",
    "C08_model_is_source_init_shapes": "the state __init__ creates satisfies EVERY shape hypothesis the block links carry (W n_clines x D, W0 n_clines, V2 / V1 / phi2 / phi1 n_drugdoses x D, V0 / phi0 n_drugdoses, tau / eta2 / eta1 / gam D) and its cache is empty",
    "C08_model_is_source_reset_model": "translation of the WHOLE reset_model: exactly W, W0, V2, V1, V0 (times 0.0: zeros of the same shape), alpha = 0, prec = 100, Mu = empty are reset; every other attribute is kept",
    "C08_model_is_source_reset_shapes": "reset_model keeps every shape hypothesis and empties the cache",
    "C08_model_is_source_blocks_keep_shapes": "every one of the 13 step functions keeps all shape hypotheses and the cache's length, for every well-shaped answer to its draws (a number for a scalar draw, an array of the argument's shape for a vectorised draw, `raised` or a vector with one entry per row of Q for the MVN draw)",
    "C08_model_is_source_sweep_keeps_shapes": "a whole sweep started with well-shaped arrays and a cache no longer than the data (stale after _update) ends with well-shaped arrays and a cache of the data's length",
    "C08_model_is_source_block": "all thirteen block links with their individual shape hypotheses replaced by the one predicate `shapes` (default options, D > 0)",
    "C08_model_is_source_observable_ws": "programs equal on well-shaped answers issue the same draw arguments and end in the same state for every well-shaped answer stream",
    "C08_model_is_source_reachable_ready": "every reachable state (after __init__, any number of _update calls, whole sweeps answered by well-shaped draws and reset_model calls, in any order) has well-shaped arrays, a cache no longer than the data, and data arrays of equal length",
    "C08_model_is_source_sweep": "THE COMPOSITE: the object built by the translated __init__ (fake_intercept, mult_gamma_proc, local_shrinkage = True, D > 0), fed by any number of translated _update calls (all succeed), is in a reachable state for the data its store represents, and the translated mcmc_step - running the 13 translated block methods with the object's own option flags - equals the model's sweep mcmc_step on well-shaped answers; no shape hypothesis is left",
    "C08_model_is_source_sweep_reachable": "... the same from EVERY reachable state (a second sweep, a sweep after more data, after reset_model)",
    "C08_model_is_source_sweep_mvn": "... and with every MVN draw node of the sweep expanded into the translated sample_mvn_from_precision on the source side and the model's mvn_prog on the model side (for every chol that keeps the size of its argument)",
    "C08_model_is_source_sdc_init": "translation of the WHOLE SparseDrugCombo.__init__: n_dims = n_embedding_dimensions, n_drugdoses = experiment_space.n_unique_treatments, n_clines = experiment_space.n_unique_samples and every option / hyper-parameter reach the parameter of the same name of the translated legacy constructor, run on a new instance; _rng, predict_interactions, interaction_log_transform stored",
    "C08_model_is_source_get_model_state": "translation of the WHOLE SparseDrugCombo.get_model_state = the model's export of the wrapped object's state: W, W0, V2, V1, V0 under their own names, alpha, precision = prec (what C08_export is about)",
    "C08_model_is_source_sdc_n_obs": "SparseDrugCombo.n_obs = the translated legacy n_obs = the number of observations of the data the store represents",
    "C08_model_is_source_sdc_reset_model": "SparseDrugCombo.reset_model = the translated legacy reset_model on the wrapped object, nothing else",
    "C08_model_is_source_sdc_set_rng": "set_rng stores the generator in _rng, the rng property reads it (the sampler never draws from it: known finding of C18)",
    "C08_model_is_source_sdc_step": "SparseDrugCombo.step = exactly one mcmc_step of the wrapped object, the wrapper then holding the new state",
    "C08_reconstruct_establishes_invariant": "a state ready for a sweep (the shapes __init__ allocates, cache no longer than the data - stale after __init__, _update, reset_model): after _reconstruct_Mu the cache is exact and the arrays have their sizes (Inv), from the shapes alone",
    "C08_reachable_cache_invariant": "from every REACHABLE state (after __init__, any _update calls, whole sweeps, reset_model calls in any order), valid ids, no self-combination row: after _reconstruct_Mu followed by ANY sequence of step functions, for all answers of all draws, the cache is exact - so C08_cache_invariant and the Gaussian-block theorems are not vacuous on the first sweep of a chain, after new data or after a reset",
    "C08_reachable_cache_invariant_prefix": "... in particular after every non-empty prefix of the documented sweep, also with j further whole sweeps before or after",
    "C08_reachable_sweep_invariant": "... and after the whole mcmc_step",
    "C08_reachable_gauss_draws_are_conditionals": "the bridging corollary: from a reachable state, after _reconstruct_Mu and any further step functions, whichever Gaussian step function (W0, V0, W, V2, V1) runs next, EVERY per-index draw inside it is computed in a state where the draw arguments are those of the full conditional (the conclusions of C08_gauss_block_W0 ... _V1 with no cache or length hypothesis left)",
    "C08_gauss_step_is_its_blocks": "a Gaussian step function is the sequence of its per-index blocks (the list the corollary quantifies over)",
    "C08_model_is_source_sdc_step_sweep": "... hence, read on the wrapped object's state, the model's sweep from every reachable state (well-shaped answers)",
}
ASSUMPTIONS = [
    "np.random.normal / np.random.gamma / Generator.normal sample the distributions their arguments name (the theorems are about the arguments)",
    "np.linalg.cholesky returns the lower-triangular factor (checked L L' ~ Q on every mvn case); float rounding abstracted (tolerance 1e-4*scale)",
    "sqrt is an oracle (libm on the nearest double) in the clipping bound 1/sqrt(1+n)",
    "a[idx] += d with a repeated index keeps the last write (checked on every run)",
    "default model options only (fake_intercept, mult_gamma_proc, local_shrinkage)",
    "source links: harness/py2gal.py's rendering of the Python fragment, and the primitives of the C08_* configurations (listed in the explanation); numpy's IndexError / shape errors are not represented (reads outside an array give 0, the links carry the shape facts they need as hypotheses)",
]
EXPLANATION = ("Model: Model/Gibbs.v (sampler as a program of draws), Model/Mvn.v; independent specification Model/GibbsSpec.v "
               "(energy = -2 log joint of the documented model for an arbitrary function ln). Nothing of DESIGN 5/C08 was dropped: all five "
               "Gaussian blocks, prec / tau0 / gam gamma blocks, clipping, cache invariant + refutation, order, export and the MVN law are "
               "proved for all inputs. The horseshoe steps (phiaux, phi, etaaux, eta of _prec_V0/V2/V1_step) are proved for all inputs as "
               "well (C08_horseshoe_*): GibbsSpec.v's energy_hs adds to energy the half-Cauchy hyper-priors of the scales 1/sqrt(phi), "
               "1/sqrt(eta) in gamma-mixture form (p | a ~ Gamma(1/2, rate a), a ~ Gamma(1/2, rate 1), normalising constant -ln a included; "
               "phi, eta are precisions and the code's aux is the rate a, so no draw is inverted), written from the prior's description and "
               "not from the update formulas; each vectorised draw's (shape, rates) are proved to be the coefficients of -2 ln x and 2 x of "
               "the complete joint, jointly for the whole group. As for prec/tau0/gam the code's +1e-3 on the phi/eta rates is part of the "
               "specified model (an exponential tilt exp(-0.001 p) of the half-Cauchy prior; C08_horseshoe_jitter_is_tilt makes the distance to "
               "the plain horseshoe explicit: same shape, rate + 0.001; the auxiliary draws carry no jitter and are exact for both). These steps "
               "are also in the executable model, compared on every case, and checked by the predicate against a numpy log joint. The predicate "
               "re-derives every draw's arguments from an independent numpy log joint by exact quadratic / log-linear fitting of term-wise "
               "energy differences. Findings on the unchanged tree: (1) a row with the same non-control treatment in both columns: the "
               "V0/V2/V1 draws are not the full conditional and Mu is stale for the rest of the sweep (signature "
               "self-combination-row-stale-cache; C08_cache_refuted); (2) recorded, not failed: with no observation at all _prec_obs_step "
               "draws Gamma(a0, b0) without the 1e-3 jitter and without clipping (C08_prec_unclipped_without_data_refuted). "
               "Source-translation links (C08_model_is_source_*): the methods mcmc_step, n_obs, _update, encode_obs, get, _reconstruct_Mu, _alpha_step, _prec_obs_step, "
               "_prec_W0_step, _W0_step, _V0_step, _W_step, _V2_step, _V1_step, _prec_V0_step, _prec_V2_step, _prec_V1_step, _prec_W_step of LegacySparseDrugComboImpl are re-translated from the source on every run "
               "(harness/py2gal.py, configurations C08_* of harness/src_functions.py -> Generated/SrcGibbs.v) as programs in the free monad "
               "over the model's draws (a draw call is a node carrying its arguments, the method continues with the drawn value) and proved "
               "equal to the model's programs for all inputs (equality up to the extensionality of continuations, prog_eq; "
               "C08_model_is_source_observable: same draw arguments and final state for every answer stream). What these links TRUST: "
               "the translator (with its C08 extensions: augmented-store effects, `x.attr op= e`, bare return, try/except around one "
               "declared primitive) and these one-call primitives: `self` split into options/sizes g (n_clines, n_drugdoses, D, a0, b0, "
               "min_Mu, max_Mu; fake_intercept / local_shrinkage / mult_gamma_proc as parameters, theorems at the defaults), observations d "
               "(y, encode_obs() = the four arrays, cline_idxs[k] / dd1_idxs[k] / dd2_idxs[k] = the observation numbers with that key in "
               "insertion order, np.array(list) = the list) and the state record (cfg fields W..Mu: read, store); float literals 0.0 1.0 0.5 "
               "1e-3 1e6 as exact rationals; + - * / on floats as rational arithmetic, int -> float promotion; np.sqrt(x) and "
               "1.0/np.sqrt(x) kept symbolic (a normal draw with standard deviation 1/sqrt(p) has variance 1/p; np.clip(x, 1/sqrt(k), hi) "
               "takes the oracle's value as the model does); np.random.normal(m, s) -> DNormal m s^2, np.random.normal(0.0, s) with an array "
               "s -> DNormalVec, np.random.gamma(a, scale) -> DGamma / DGammaVec / DGammaMat a (1/scale) (an array answer read at the shape "
               "of the scale), sample_mvn_from_precision(Q, mu_part=b) -> DMvn Q b whose answer VV w / VFail says whether it raised, each "
               "continuing with the drawn value; elementwise - + * on arrays of equal shape, array op scalar, scalar op array, a row vector "
               "times a matrix (broadcast over rows), np.square / **2, .sum() / .mean() / np.mean / .sum(0) / np.sum(a, -1), len, range, "
               "a[i] (Python index), a[idx] (gather by observation numbers / Python ints), a[d:], a[:, d:], np.concatenate([a, b]), "
               "np.cumprod, X @ v, Xt @ X, X.transpose() (matrices with self.D columns), np.diag_indices(n) and Q[dix] += v, a[i] = v, "
               "Mu[idx] += x (gather, add, assign in order: a repeated index keeps the last write), np.clip on vectors / rows "
               "(C[:, None]), a.copy(), ix == -1, np.where(mask)[0], A[positions] = 0.0, the empty (0, D) matrix, warnings.warn ignored. "
               "numpy's IndexError / shape errors are not represented: the links carry shape facts of reachable states as hypotheses. "
               "Loops, branches, early returns, the order of reads / draws / stores and all arithmetic structure come from the "
               "translation. _update / encode_obs are linked on the object's observation store (C08_model_is_source_update: the index-dict "
               "primitive above is an invariant _update maintains; defaultdict(list) = association list, a missing key reads []). "
               "Second part (Generated/SrcMvn.v, Generated/SrcGibbsObj.v, Proofs/C08SourceObj.v): fast_mvn.sample_mvn_from_precision, "
               "LegacySparseDrugComboImpl.__init__ / reset_model / n_obs on the WHOLE object (record pyimpl = every attribute the constructor "
               "assigns; cfg_of / pi_obs / pi_st are the three parts the first part's methods see) and SparseDrugCombo.__init__ / "
               "get_model_state / step / n_obs / reset_model / set_rng / rng are translated as well. C08_model_is_source_init_shapes + "
               "_blocks_keep_shapes discharge the shape hypotheses, and C08_model_is_source_sweep is the closed composite: translated "
               "__init__, any number of translated _update calls, translated mcmc_step over the translated block methods = the model's "
               "sweep, stated with prog_eq_ws (continuations compared on WELL-SHAPED drawn values: a vectorised draw answers with an "
               "array of its argument's shape, the MVN call with a vector of len(Q) or by raising - numpy's contract; an ill-shaped "
               "answer would make numpy raise a broadcasting error, which the model does not represent); _sweep_reachable extends it to "
               "every state reachable by _update / whole sweeps / reset_model, _sweep_mvn replaces every DMvn node by the translated "
               "sample_mvn_from_precision. Hypotheses left: D > 0 (with D = 0 the code fails at gam[0]) and the default options. What the "
               "second part TRUSTS besides the translator (new construct: conditional expressions `a if c else b`, an arm's raising "
               "call bound inside the arm): for sample_mvn_from_precision - np.linalg.cholesky is a PARAMETER chol (any function "
               "matrix -> matrix or LinAlgError; only C08_model_is_source_mvn_law assumes its contract L lower-triangular, L L^T = Q, and "
               "_sweep_mvn that it keeps the size), np.linalg.solve a parameter too (reached only for masked arrays; a list of rows is "
               "not a MaskedArray), np.random.default_rng() = a generator, rng.normal(size=n) = the draw node of n standard normals "
               "(DNormalVec of n variances 1; WHICH generator answers is not represented), Q.shape[0] = number of rows, A.T of a "
               "square matrix, solve_triangular(U, z, lower=False) = back substitution x_j = (z_j - sum_{k>j} U[j][k] x_k)/U[j][j], "
               "cho_solve((U, False), b) = forward substitution with U.T then back substitution with U, vector +; for __init__ / "
               "reset_model - the attribute table (which record component an attribute is), np.zeros(shape) / np.ones(n) (arrays of "
               "zeros / ones of that shape; a negative dimension raises), np.ones_like, defaultdict(list) = empty association list, "
               "scalar * array and array * scalar, the float literals 0.0 1.0 100.0, `super().__init__(**kwargs)` of a class without "
               "base class sets no attribute; for the wrappers - a.copy() / a.astype(FloatingPointType) have a's value, "
               "SparseDrugComboMCMCSample(...) builds the sample record from its keywords, LegacySparseDrugComboImpl(...) runs the "
               "translated constructor on a new instance, a method call on self.wrapped_model runs the translated method and the "
               "wrapper goes on holding the mutated object (aliasing is not modelled), experiment_space.n_unique_* are two integers. "
               "Not linked: the non-default option branches (translated, not modelled), predict / predict_single_drug / bliss / ess_pars of "
               "the legacy class (the exported sample's predict is C09's link), SparseDrugCombo._add_observations (C04's link).")

STEP_NAMES = ["_reconstruct_Mu", "_alpha_step", "_W0_step", "_V0_step", "_W_step", "_V2_step", "_V1_step",
              "_prec_W0_step", "_prec_V0_step", "_prec_obs_step", "_prec_V2_step", "_prec_V1_step", "_prec_W_step"]
STATE_KEYS = ["W", "W0", "V2", "V1", "V0", "alpha", "prec", "tau", "tau0", "phi2", "phi1", "phi0", "eta2", "eta1", "eta0", "gam", "Mu"]
TOL = 1e-4
JIT = 1e-3


# --------------------------------------------------------------------------- case generation

def _dy(rng, lo, hi, den=8):
    return rng.randint(lo * den, hi * den) / den


def _gen_rows(rng, n_s, n_t, nrows, selfcombo):
    roles = [rng.choice(["first", "second", "both", "both", "none"]) for _ in range(n_t)]
    if all(r == "none" for r in roles):
        roles[0] = "both"
    firsts = [t for t in range(n_t) if roles[t] in ("first", "both")]
    seconds = [t for t in range(n_t) if roles[t] in ("second", "both")]
    live = [s for s in range(n_s) if rng.random() < 0.8] or [0]
    rows = []
    for _ in range(nrows):
        s = rng.choice(live)
        k = rng.random()
        t1 = t2 = -1
        if k < 0.5 and firsts and seconds:
            t1, t2 = rng.choice(firsts), rng.choice(seconds)
            if t1 == t2:
                alt = [t for t in seconds if t != t1]
                if alt:
                    t2 = rng.choice(alt)
                else:
                    t2 = -1
        elif k < 0.7 and firsts:
            t1 = rng.choice(firsts)
        elif k < 0.9 and seconds:
            t2 = rng.choice(seconds)
        obs = rng.choice([_dy(rng, 0, 1, 16), _dy(rng, 0, 1, 16), rng.uniform(0.0, 1.1), 0.0, 1.0])
        rows.append([s, t1, t2, obs])
    if selfcombo:
        t = rng.randrange(n_t)
        rows[rng.randrange(len(rows))][1:3] = [t, t]
    return rows


def gen(rng, tier):
    n_sweep, n_self, n_mvn = (360, 6, 100) if tier == "quick" else (2400, 40, 800)
    for i in range(n_sweep):
        n_s, n_t, D = rng.randint(2, 4), rng.randint(2, 5), rng.choice([1, 2, 2, 3])
        nrows = 0 if i % 37 == 5 else rng.randint(1, 12)
        yield dict(kind="sweep", D=D, n_s=n_s, n_t=n_t, rows=_gen_rows(rng, n_s, n_t, nrows, False) if nrows else [],
                   steps=rng.choice([1, 2, 2, 3]), dseed=rng.randrange(1 << 30), fail=rng.random() < 0.25,
                   wide=rng.random() < 0.3)
    for i in range(n_sweep // 9):
        # a second chain on the same model object: sweep(s), reset_model(), sweep(s)
        n_s, n_t, D = rng.randint(2, 4), rng.randint(2, 5), rng.choice([1, 2, 2, 3])
        steps = rng.choice([2, 2, 3])
        yield dict(kind="sweep", D=D, n_s=n_s, n_t=n_t, rows=_gen_rows(rng, n_s, n_t, rng.randint(1, 10), False),
                   steps=steps, reset_at=[rng.randint(1, steps - 1)], dseed=rng.randrange(1 << 30), fail=False, wide=rng.random() < 0.3)
    for i in range(n_self):
        n_s, n_t, D = rng.randint(2, 3), rng.randint(2, 4), rng.choice([1, 2])
        yield dict(kind="selfcombo", D=D, n_s=n_s, n_t=n_t, rows=_gen_rows(rng, n_s, n_t, rng.randint(2, 8), True),
                   steps=1, dseed=rng.randrange(1 << 30), fail=False, wide=False)
    # real sweeps: nothing stubbed (real np.random.normal / gamma, the real Cholesky in sample_mvn_from_precision on the float32 Q the
    # sampler builds), a history of add_observations / sweeps / reset_model; predicate only
    for i in range(9 if tier == "quick" else 40):
        n_s, n_t = rng.randint(3, 8), rng.randint(4, 14)
        D = [2, 5, 10][i % 3]
        n = rng.randint(50, 150)
        rows = _gen_rows(rng, n_s, n_t, n, False)
        if i % 3 == 1:      # nearly noiseless data: large observation precision, Q dominated by X^T X
            rows = [[r[0], r[1], r[2], [0.25, 0.5, 0.75][(r[0] + r[1] + 2 * r[2]) % 3]] for r in rows]
        sweeps = (40, 15, 15) if tier == "quick" else (rng.choice([50, 100, 200]), 30, 30)
        c1, c2 = sorted(rng.sample(range(1, n), 2))
        yield dict(kind="realdraws", D=D, n_s=n_s, n_t=n_t, rows=rows, seed=rng.randrange(1 << 30),
                   history=[["add", 0, c1], ["sweeps", sweeps[0]], ["add", c1, c2], ["sweeps", sweeps[1]], ["add", c2, n], ["reset"],
                            ["sweeps", sweeps[2]]])
    for i in range(n_mvn):
        D = rng.choice([1, 2, 2, 3, 3, 4])
        A = [[_dy(rng, -2, 2, 4) for _ in range(D)] for _ in range(D + 1)]
        lam = [_dy(rng, 1, 16, 8) / 4 for _ in range(D)]
        yield dict(kind="mvn", D=D, A=A, lam=lam, z=[_dy(rng, -3, 3) for _ in range(D)], b=[_dy(rng, -8, 8) for _ in range(D)])


def shrink(desc):
    if desc["kind"] in ("sweep", "selfcombo"):
        rows = desc["rows"]
        if desc["steps"] > 1 and not desc.get("reset_at"):
            yield dict(desc, steps=desc["steps"] - 1)
        if desc.get("reset_at") and desc["steps"] - 1 > max(desc["reset_at"]):
            yield dict(desc, steps=desc["steps"] - 1)
        for i in range(len(rows)):
            if len(rows) > 1:
                yield dict(desc, rows=rows[:i] + rows[i + 1:])
        if desc["D"] > 1:
            yield dict(desc, D=desc["D"] - 1)


# --------------------------------------------------------------------------- the real model, instrumented

def _tname(t):
    return ("control", 0.0) if t < 0 else ("T%d" % (t // 2), float(1 + t % 2))


def build_model(desc):
    from batchie.data import Screen, ExperimentSpace
    from batchie.models import sparse_combo

    rows = desc["rows"]
    n_s, n_t = desc["n_s"], desc["n_t"]
    # masked rows span the whole experiment space (samples / treatments that have no data)
    space_rows = [[s, t, (t + 1) % n_t if n_t > 1 else -1] for s in range(n_s) for t in range(n_t)]
    names, doses, samples, plates, obs, mask = [], [], [], [], [], []
    for (s, t1, t2, o) in rows:
        (a, da), (b, db) = _tname(t1), _tname(t2)
        names.append([a, b]); doses.append([da, db]); samples.append("S%d" % s); plates.append("obs"); obs.append(float(o)); mask.append(True)
    for (s, t1, t2) in space_rows:
        (a, da), (b, db) = _tname(t1), _tname(t2)
        names.append([a, b]); doses.append([da, db]); samples.append("S%d" % s); plates.append("un"); obs.append(0.0); mask.append(False)
    scr = Screen(observations=np.array(obs, dtype=float), observation_mask=np.array(mask, dtype=bool),
                 sample_names=np.array(samples, dtype=str), plate_names=np.array(plates, dtype=str),
                 treatment_names=np.array(names, dtype=str), treatment_doses=np.array(doses, dtype=float),
                 control_treatment_name="control")
    es = ExperimentSpace.from_screen(scr)
    model = sparse_combo.SparseDrugCombo(n_embedding_dimensions=desc["D"], experiment_space=es)
    train = scr.subset_observed() if rows else None
    if train is not None:
        model.add_observations(train)
    return model, train, scr


def snap(w):
    out = {}
    for k in STATE_KEYS:
        out[k] = np.array(getattr(w, k), dtype=np.float64).copy()
    return out


class Stubs:
    """recording replacements of the draw primitives; values come from a PRNG owned by the case"""

    def __init__(self, w, dseed, fail, wide):
        self.w = w
        self.rng = random.Random(dseed)
        self.fail = fail
        self.wide = wide
        self.cur = None  # draws of the running step function
        self.problems = []

    def _nval(self):
        return self.rng.randint(-16, 16) / 8.0 if not self.wide or self.rng.random() < 0.7 else self.rng.uniform(-2, 2)

    def _gval(self):
        r = self.rng.random()
        if self.wide and r < 0.08:
            return self.rng.choice([1.0 / 64, 1.0 / 1024, 2.0e6, 3.0e7])
        if self.wide and r < 0.3:
            return self.rng.uniform(0.05, 6.0)
        return self.rng.randint(1, 40) / 8.0

    def _rec(self, kind, args, val):
        if self.cur is None:
            self.problems.append("draw %s outside a step function" % kind)
            return
        self.cur.append(dict(kind=kind, args=args, val=val, at=snap(self.w)))

    def normal(self, loc=0.0, scale=1.0, size=None):
        if size is not None:
            self.problems.append("normal called with size")
        sc = np.asarray(scale, dtype=np.float64)
        if sc.ndim == 0:
            v = self._nval()
            self._rec("normal", (float(loc), float(sc)), v)
            return v
        if np.ndim(loc) != 0 or float(loc) != 0.0:
            self.problems.append("vector normal with non-zero location")
        v = np.array([self._nval() for _ in range(sc.size)]).reshape(sc.shape)
        self._rec("normalvec", (sc.copy(),), v.copy())
        return v

    def gamma(self, shape, scale=1.0, size=None):
        if size is not None or np.ndim(shape) != 0:
            self.problems.append("gamma called with size / array shape")
        sc = np.asarray(scale, dtype=np.float64)
        if sc.ndim == 0:
            v = self._gval()
            self._rec("gamma", (float(shape), float(sc)), v)
            return v
        v = np.array([self._gval() for _ in range(sc.size)]).reshape(sc.shape)
        self._rec("gammavec" if sc.ndim == 1 else "gammamat", (float(shape), sc.copy()), v.copy())
        return v

    def mvn(self, Q, mu=None, mu_part=None, chol_factor=False, rng=None):
        if mu is not None or mu_part is None or chol_factor or rng is not None:
            self.problems.append("sample_mvn_from_precision called with unexpected arguments")
        Qa = np.array(Q, dtype=np.float64)
        ba = np.array(mu_part, dtype=np.float64)
        if self.fail and self.rng.random() < 0.15:
            self._rec("mvn", (Qa, ba), None)
            raise np.linalg.LinAlgError("stubbed Cholesky failure")
        v = np.array([self._nval() for _ in range(Qa.shape[0])])
        self._rec("mvn", (Qa, ba), v.copy())
        return v


def run_sampler(desc, mutate=None):
    """returns (model, training screen, wrapped impl, list of step records, problems)"""
    from batchie.models import sparse_combo

    model, train, scr = build_model(desc)
    w = model.wrapped_model
    if mutate is not None:
        mutate(w)
    st = Stubs(w, desc["dseed"], desc.get("fail", False), desc.get("wide", False))
    steps = []
    cur_calls = []

    def wrap(name):
        orig = getattr(w, name)

        def f(*a, **k):
            pre = snap(w)
            st.cur = []
            orig(*a, **k)
            rec = dict(name=name, pre=pre, draws=st.cur, post=snap(w), args=(a, k))
            st.cur = None
            cur_calls.append(rec)
        return f

    for nm in STEP_NAMES:
        setattr(w, nm, wrap(nm))
    exports = []
    with warnings.catch_warnings():
        warnings.simplefilter("ignore")
        with mock.patch("numpy.random.normal", st.normal), mock.patch("numpy.random.gamma", st.gamma), \
                mock.patch.object(sparse_combo, "sample_mvn_from_precision", st.mvn), \
                mock.patch("numpy.random.standard_normal", lambda *a, **k: st.problems.append("standard_normal called") or 0.0):
            for si in range(desc["steps"]):
                if si in desc.get("reset_at", ()):
                    # batchie.sampling.sample starts every chain with reset_model(): parameters back to their initial
                    # values, data kept - the next sweep must again be a sweep of full conditionals
                    model.reset_model()
                cur_calls = []
                before = snap(w)
                model.step()
                steps.append(dict(calls=cur_calls, before=before, after=snap(w)))
                th = model.get_model_state()
                exports.append(dict(pred=np.array(th.predict_conditional_mean(train), dtype=np.float64) if train is not None else np.zeros(0),
                                    precision=float(th.precision), prec=float(w.prec), Mu=np.array(w.Mu, dtype=np.float64)))
    return model, train, w, steps, exports, st.problems


# --------------------------------------------------------------------------- independent numpy specification

def impl_data(w):
    return (np.array(w.y, dtype=np.float64), np.array(w.cline, dtype=int), np.array(w.dd1, dtype=int), np.array(w.dd2, dtype=int))


def _emb(M, d):
    """embedding rows of the treatments d; a control (negative id) contributes nothing"""
    out = np.zeros((len(d),) + M.shape[1:])
    nz = d >= 0
    out[nz] = M[d[nz]]
    return out


def np_mean(P, dat):
    y, cl, d1, d2 = dat
    if len(y) == 0:
        return np.zeros(0)
    Wc = P["W"][cl]
    return (P["alpha"] + P["W0"][cl] + _emb(P["V0"], d1) + _emb(P["V0"], d2)
            + (Wc * (_emb(P["V1"], d1) + _emb(P["V1"], d2))).sum(-1)
            + (Wc * _emb(P["V2"], d1) * _emb(P["V2"], d2)).sum(-1))


def _gp(x, a, r):
    """-2 log Gamma(x; shape a, rate r) up to constants, one term per entry"""
    x = np.asarray(x, dtype=np.float64)
    r = np.asarray(r, dtype=np.float64) + 0 * x
    return (-2 * a * np.log(r) - 2 * (a - 1) * np.log(x) + 2 * r * x).ravel()


def np_energy(P, dat, a0, b0):
    """-2 log joint density of the documented model: Gaussian likelihood and priors, gamma priors on prec and
    tau0, multiplicative gamma process on tau, horseshoe (half-Cauchy through gamma auxiliaries) on phi, eta.
    Returned as the vector of its terms in a fixed order, so that differences between two parameter values can
    be taken term by term (terms that do not involve the changed parameter cancel exactly)."""
    y = dat[0]
    n = len(y)
    ncl = P["W"].shape[0]
    T = []
    if n:
        T += [P["prec"] * (y - np_mean(P, dat)) ** 2, [-n * np.log(P["prec"])]]
    T += [P["tau0"] * P["W0"] ** 2, [-ncl * np.log(P["tau0"])]]
    l0 = P["phi0"] * P["eta0"]
    T += [l0 * P["V0"] ** 2, -np.log(l0)]
    T += [P["tau"][None, :] * P["W"] ** 2, -ncl * np.log(P["tau"])]
    for k in ("2", "1"):
        lk = P["phi" + k] * P["eta" + k][None, :]
        T += [lk * P["V" + k] ** 2, -np.log(lk)]
    T += [_gp(P["prec"], a0, b0), _gp(P["tau0"], a0, b0), _gp(P["gam"][:1], 2.0, 1.0), _gp(P["gam"][1:], 3.0, 1.0)]
    for k in ("0", "1", "2"):
        T += [_gp(P["phi" + k], 0.5, P["phiaux" + k]), _gp(P["phiaux" + k], 0.5, 1.0),
              _gp(P["eta" + k], 0.5, P["etaaux" + k]), _gp(P["etaaux" + k], 0.5, 1.0)]
    return np.concatenate([np.asarray(t, dtype=np.float64).ravel() for t in T])


def with_aux(S):
    P = {k: np.array(v, dtype=np.float64) for k, v in S.items()}
    for k in ("0", "1", "2"):
        P.setdefault("phiaux" + k, np.ones_like(P["phi" + k]))
        P.setdefault("etaaux" + k, np.ones_like(P["eta" + k]))
    return P


def put(P, key, idx, val):
    Q = dict(P)
    a = np.array(P[key], dtype=np.float64)
    if idx is None:
        a = np.float64(val) if a.ndim == 0 else np.array(val, dtype=np.float64)
    else:
        a[idx] = val
    Q[key] = a
    return Q


def quad_fit(f, D):
    """E(x) = x'Qx - 2 b'x + c  ->  (Q, b, lack of fit at a probe point, magnitude); f returns the vector of terms"""
    z = np.zeros(D)
    e = np.eye(D)
    f0 = f(z)
    d = lambda x: float((f(x) - f0).sum())
    fp = [d(e[j]) for j in range(D)]
    fm = [d(-e[j]) for j in range(D)]
    Q = np.zeros((D, D))
    b = np.zeros(D)
    for j in range(D):
        Q[j, j] = (fp[j] + fm[j]) / 2
        b[j] = -(fp[j] - fm[j]) / 4
    for j in range(D):
        for k in range(j):
            Q[j, k] = Q[k, j] = (d(e[j] + e[k]) - fp[j] - fp[k]) / 2
    probe = np.array([0.75 * (-1) ** j * (j + 2) for j in range(D)])
    lack = d(probe) - (probe @ Q @ probe - 2 * b @ probe)
    return Q, b, lack, max([1.0] + [abs(x) for x in fp + fm])


def gamma_fit(f):
    """E(t) = -2 (a-1) ln t + 2 r t + c  ->  (a, r); f returns the vector of terms"""
    f1, f2, f4 = f(1.0), f(2.0), f(4.0)
    d21, d42 = float((f2 - f1).sum()), float((f4 - f2).sum())
    r = (d42 - d21) / 2
    a1 = (2 * r - d21) / (2 * math.log(2))
    return a1 + 1, r


def near(x, y, scale):
    return bool(np.all(np.abs(np.asarray(x, dtype=np.float64) - np.asarray(y, dtype=np.float64)) <= TOL * np.maximum(1.0, scale)))


def mu_scale(S, D):
    m = max([1.0] + [float(np.abs(S[k]).max()) for k in ("W", "W0", "V2", "V1", "V0") if np.size(S[k])] + [abs(float(S["alpha"]))])
    mm = float(np.abs(S["Mu"]).max()) if np.size(S["Mu"]) else 0.0
    return 1.0 + mm + 4 * m + D * (m * m + 2 * m) * m


class Checker:
    """property predicates evaluated on the implementation's own recorded behaviour"""

    def __init__(self, w, desc):
        self.dat = impl_data(w)
        self.a0, self.b0 = float(w.a0), float(w.b0)
        self.D, self.ncl, self.ndd = w.D, w.n_clines, w.n_drugdoses
        self.n = len(self.dat[0])
        self.fails = []
        self.notes = []

    def E(self, P):
        return np_energy(P, self.dat, self.a0, self.b0)

    def fail(self, tag, msg):
        self.fails.append((tag, msg))

    def cache(self, S, where):
        if self.n == 0:
            return
        mu = np_mean(with_aux(S), self.dat)
        if S["Mu"].shape != mu.shape or not near(S["Mu"], mu, mu_scale(S, self.D)):
            self.fail("cache", "fitted-value cache differs from recomputation %s: max |Mu - recomputed| = %.4g"
                      % (where, float(np.abs(S["Mu"] - mu).max()) if S["Mu"].shape == mu.shape else float("nan")))

    # -- Gaussian blocks
    def gauss_scalar(self, name, key, j, dr):
        P = with_aux(dr["at"])
        Q, b, lack, mag = quad_fit(lambda x: self.E(put(P, key, j, x[0])), 1)
        if Q[0, 0] <= 0:
            return self.fail("gauss", "%s[%d]: the log joint is not a proper quadratic in the block" % (name, j))
        dr["scale"] = dict(var=1.0 / Q[0, 0], mean=max(1.0, abs(b[0] / Q[0, 0]), abs(float(P[key][j]))
                                                          + (float(np.abs(self.dat[0] - P["Mu"]).max()) if self.n else 0.0)))
        dr["derived"] = (b[0] / Q[0, 0], 1.0 / Q[0, 0])
        if dr["kind"] != "normal":
            return self.fail("draw-kind", "%s[%d]: unexpected draw kind %s" % (name, j, dr["kind"]))
        loc, sd = dr["args"]
        if abs(lack) > 1e-6 * max(1.0, mag):
            self.fail("gauss", "%s[%d]: the log joint is not quadratic in the block (lack of fit %.3g)" % (name, j, lack))
        elif not (near(loc, b[0] / Q[0, 0], dr["scale"]["mean"]) and abs(sd * sd - 1.0 / Q[0, 0]) <= TOL * (1.0 / Q[0, 0])):
            self.fail("gauss", "%s[%d]: drawn N(%.6g, sd %.6g) but the full conditional is N(%.6g, sd %.6g)"
                      % (name, j, loc, sd, b[0] / Q[0, 0], math.sqrt(1.0 / Q[0, 0])))

    def gauss_vec(self, name, key, j, dr):
        P = with_aux(dr["at"])
        D = self.D
        Q, b, lack, mag = quad_fit(lambda x: self.E(put(P, key, j, x)), D)
        cur = P[key][j]
        sb = max(1.0, float(np.abs(b).max()),
                 math.sqrt(max(0.0, float(np.diag(Q).max()))) * math.sqrt(float(P["prec"]) * float(((self.dat[0] - P["Mu"]) ** 2).sum()) if self.n else 0.0)
                 + D * float(np.abs(Q).max()) * float(np.abs(cur).max()))
        dr["scale"] = dict(Q=max(1.0, float(np.abs(Q).max())), b=sb)
        dr["derived"] = (Q, b)
        if abs(lack) > 1e-6 * max(1.0, mag):
            return self.fail("gauss", "%s[%d]: the log joint is not quadratic in the block (lack of fit %.3g)" % (name, j, lack))
        if dr["kind"] == "normalvec":
            sd = dr["args"][0]
            off = Q - np.diag(np.diag(Q))
            if sd.shape != (D,) or not (near(off, 0 * off, dr["scale"]["Q"]) and near(b, 0 * b, 1.0)
                                        and bool(np.all(np.abs(sd * sd - 1.0 / np.diag(Q)) <= TOL / np.diag(Q)))):
                self.fail("gauss", "%s[%d]: drawn from N(0, diag sd^2) with sd=%s but the full conditional has Q=%s b=%s"
                          % (name, j, sd.tolist(), Q.tolist(), b.tolist()))
        elif dr["kind"] == "mvn":
            Qi, bi = dr["args"]
            if Qi.shape != Q.shape or not (near(Qi, Q, dr["scale"]["Q"]) and near(bi, b, sb)):
                self.fail("gauss", "%s[%d]: drawn with Q=%s b=%s but the full conditional has Q=%s b=%s"
                          % (name, j, Qi.tolist(), bi.tolist(), Q.tolist(), b.tolist()))
        else:
            self.fail("draw-kind", "%s[%d]: unexpected draw kind %s" % (name, j, dr["kind"]))

    # -- gamma blocks
    def gamma_entries(self, name, key, dr, P, jit, tie_tau=False):
        """every entry of a (scalar / vector / matrix) gamma draw against the log joint at P"""
        shape_i, scale_i = dr["args"][0], np.asarray(dr["args"][1], dtype=np.float64)
        tgt = np.asarray(P[key])
        if scale_i.shape != tgt.shape:
            return self.fail("gamma", "%s: draw for %s has shape %s, parameter has %s" % (name, key, scale_i.shape, tgt.shape))
        der = np.zeros(tgt.shape + (2,))
        for idx in np.ndindex(*tgt.shape) if tgt.ndim else [None]:
            def f(t, idx=idx):
                Pp = put(P, key, idx, t)
                if tie_tau:
                    Pp["tau"] = np.cumprod(Pp["gam"])
                return self.E(Pp)
            a, r = gamma_fit(f)
            ri = 1.0 / float(scale_i[idx] if idx is not None else scale_i)
            if idx is None:
                der = np.array([a, r + jit])
            else:
                der[idx] = (a, r + jit)
            if not (abs(shape_i - a) <= TOL * max(1.0, abs(a)) and abs(ri - (r + jit)) <= TOL * max(1.0, abs(r))):
                self.fail("gamma", "%s: %s%s drawn Gamma(shape %.6g, rate %.6g) but the full conditional is Gamma(%.6g, %.6g%s)"
                          % (name, key, list(idx) if idx is not None else "", shape_i, ri, a, r, " + 1e-3" if jit else ""))
        dr["derived"] = der

    def bounds(self, name, S):
        n = self.n
        C = 1.0 / math.sqrt(1 + n)
        d1, d2 = self.dat[2], self.dat[3]
        Cm = np.array([1.0 / math.sqrt(1.0 + (d1 == m).sum() + (d2 == m).sum()) for m in range(self.ndd)])
        what = {"_prec_W0_step": [("tau0", C)], "_prec_obs_step": [("prec", C)], "_prec_W_step": [("tau", C)],
                "_prec_V0_step": [("eta0", C), ("phi0", Cm)], "_prec_V2_step": [("eta2", C), ("phi2", Cm[:, None])],
                "_prec_V1_step": [("eta1", C), ("phi1", Cm[:, None])]}[name]
        for key, lo in what:
            v = S[key]
            if not bool(np.all((v >= lo * (1 - 1e-6)) & (v <= 1e6 * (1 + 1e-6)))):
                msg = "%s: %s = %s outside [1/sqrt(1+n), 1e6] after its step (n_obs = %d)" % (name, key, np.asarray(v).tolist(), n)
                if key == "prec" and n == 0:
                    # an empty dataset is outside the property's quantifier ("all observed datasets"): recorded, not failed
                    # (Coq: C08_prec_unclipped_without_data_refuted; C08_clip_bounds needs n > 0 for prec)
                    self.notes.append(msg)
                else:
                    self.fail("bounds", msg)

    def call(self, rec):
        name, draws = rec["name"], rec["draws"]
        for i, dr in enumerate(draws):
            self.cache(dr["at"], "before draw %d of %s" % (i, name))
        self.cache(rec["post"], "after %s" % name)
        nd = {"_reconstruct_Mu": 0, "_alpha_step": 0, "_W0_step": self.ncl, "_V0_step": self.ndd, "_W_step": self.ncl,
              "_V2_step": self.ndd, "_V1_step": self.ndd, "_prec_W0_step": 1, "_prec_V0_step": 4, "_prec_obs_step": 1,
              "_prec_V2_step": 4, "_prec_V1_step": 4, "_prec_W_step": self.D}[name]
        if len(draws) != nd:
            return self.fail("draw-count", "%s made %d draws, expected %d" % (name, len(draws), nd))
        if name == "_alpha_step" and self.n:
            if abs(float(rec["post"]["alpha"]) - float(np.mean(self.dat[0]))) > 1e-5 * max(1.0, float(np.abs(self.dat[0]).max())):
                self.fail("alpha", "alpha = %r after _alpha_step, mean of transformed observations = %r"
                          % (float(rec["post"]["alpha"]), float(np.mean(self.dat[0]))))
        if name in ("_W0_step", "_V0_step"):
            for j, dr in enumerate(draws):
                self.gauss_scalar(name, name[1:3], j, dr)
        if name in ("_W_step", "_V2_step", "_V1_step"):
            for j, dr in enumerate(draws):
                self.gauss_vec(name, name[1:-5], j, dr)
        if name == "_prec_W0_step":
            self.gamma_entries(name, "tau0", draws[0], with_aux(draws[0]["at"]), JIT)
        if name == "_prec_obs_step":
            self.gamma_entries(name, "prec", draws[0], with_aux(draws[0]["at"]), JIT if self.n else 0.0)
        if name in ("_prec_V0_step", "_prec_V2_step", "_prec_V1_step"):
            k = name[7]
            P = with_aux(draws[0]["at"])
            self.gamma_entries(name, "phiaux" + k, draws[0], P, 0.0)
            P = put(with_aux(draws[1]["at"]), "phiaux" + k, None, draws[0]["val"])
            self.gamma_entries(name, "phi" + k, draws[1], P, JIT)
            P = put(with_aux(draws[2]["at"]), "phiaux" + k, None, draws[0]["val"])
            self.gamma_entries(name, "etaaux" + k, draws[2], P, 0.0)
            P = put(put(with_aux(draws[3]["at"]), "phiaux" + k, None, draws[0]["val"]), "etaaux" + k, None, draws[2]["val"])
            self.gamma_entries(name, "eta" + k, draws[3], P, JIT)
        if name == "_prec_W_step":
            for dd, dr in enumerate(draws):
                P = with_aux(dr["at"])
                def f(t, dd=dd, P=P):
                    Pp = put(P, "gam", dd, t)
                    Pp["tau"] = np.cumprod(Pp["gam"])
                    return self.E(Pp)
                a, r = gamma_fit(f)
                ri = 1.0 / float(dr["args"][1])
                dr["derived"] = np.array([a, r + JIT])
                if dr["kind"] != "gamma" or not (abs(dr["args"][0] - a) <= TOL * max(1.0, abs(a)) and abs(ri - (r + JIT)) <= TOL * max(1.0, abs(r))):
                    self.fail("gamma", "%s: gam[%d] drawn Gamma(shape %.6g, rate %.6g) but the full conditional is Gamma(%.6g, %.6g + 1e-3)"
                              % (name, dd, dr["args"][0], ri, a, r))
        if name.startswith("_prec_"):
            self.bounds(name, rec["post"])


# --------------------------------------------------------------------------- wire encoding / comparison

def qv(a):
    return [frac(float(x)) for x in np.asarray(a, dtype=np.float64).ravel()]


def qm(a):
    a = np.asarray(a, dtype=np.float64)
    return [qv(r) for r in a]


def wire_state(S):
    out = []
    for k in STATE_KEYS:
        a = np.asarray(S[k], dtype=np.float64)
        out.append(frac(float(a)) if a.ndim == 0 else (qv(a) if a.ndim == 1 else qm(a)))
    return out


def wire_val(dr):
    k, v = dr["kind"], dr["val"]
    if v is None:
        return [3]
    if k in ("normal", "gamma"):
        return [0, frac(float(v))]
    if k in ("normalvec", "gammavec", "mvn"):
        return [1, qv(v)]
    return [2, qm(v)]


def unq(x):
    """decode a model value made of rationals (n d) into floats, keeping the nesting"""
    if isinstance(x, list) and len(x) == 2 and isinstance(x[0], int) and isinstance(x[1], int):
        return x[0] / x[1] if abs(x[0]) < 1 << 900 else float(Fraction(x[0], x[1]))
    return [unq(y) for y in x]


def cmp_draw(md, dr):
    """model draw (decoded sexp) against the implementation's recorded arguments"""
    k = dr["kind"]
    code = {"normal": 0, "normalvec": 1, "mvn": 2, "gamma": 3, "gammavec": 4, "gammamat": 5}[k]
    if md[0] != code:
        return "draw kind: model %d impl %s" % (md[0], k)
    sc = dr.get("scale", {})
    if k == "normal":
        mean, var = unq(md[1]), unq(md[2])
        loc, sd = dr["args"]
        if not near(loc, mean, sc.get("mean", 1.0)) or abs(sd * sd - var) > TOL * max(var, sd * sd):
            return "normal draw: model N(%r, var %r) impl N(%r, sd %r)" % (mean, var, loc, sd)
    elif k == "normalvec":
        var = np.array(unq(md[1]))
        sd = dr["args"][0]
        if var.shape != sd.shape or not bool(np.all(np.abs(sd * sd - var) <= TOL * np.maximum(var, sd * sd))):
            return "vector normal draw: model var %r impl sd %r" % (var.tolist(), sd.tolist())
    elif k == "mvn":
        Q, b = np.array(unq(md[1])), np.array(unq(md[2]))
        Qi, bi = dr["args"]
        if Q.shape != Qi.shape or b.shape != bi.shape or not near(Qi, Q, sc.get("Q", 1.0)) or not near(bi, b, sc.get("b", 1.0)):
            return "mvn draw: model Q=%r b=%r impl Q=%r b=%r" % (Q.tolist(), b.tolist(), Qi.tolist(), bi.tolist())
    else:
        shape, rate = unq(md[1]), np.array(unq(md[2]))
        ri = 1.0 / np.asarray(dr["args"][1], dtype=np.float64)
        if rate.shape != ri.shape or abs(shape - dr["args"][0]) > TOL * max(1.0, abs(shape)) \
                or not bool(np.all(np.abs(ri - rate) <= TOL * np.maximum(1.0, np.abs(rate)))):
            return "gamma draw: model shape %r rate %r impl shape %r rate %r" % (shape, rate.tolist(), dr["args"][0], ri.tolist())
    return None


def cmp_state(ms, S, D, what):
    if ms == [] or ms is None:
        return "%s: model did not return a state (draw count mismatch)" % what
    ms = ms[0]
    msc = mu_scale(S, D)
    for k, mv in zip(STATE_KEYS, ms):
        a = np.asarray(S[k], dtype=np.float64)
        m = np.array(unq(mv), dtype=np.float64)
        if m.shape != a.shape:
            if m.size == 0 and a.size == 0:
                continue
            return "%s: %s shape model %s impl %s" % (what, k, m.shape, a.shape)
        scale = msc if k == "Mu" else np.maximum(1.0, np.abs(a))
        if not near(a, m, scale):
            return "%s: %s model %r impl %r" % (what, k, m.tolist(), a.tolist())
    return None


def analyse(desc, mutate=None):
    """run the instrumented sampler and evaluate every property predicate on it"""
    model, train, w, steps, exports, problems = run_sampler(desc, mutate)
    dat = impl_data(w)
    D = w.D
    cfgw = [D, w.n_drugdoses, w.n_clines, frac(w.a0), frac(w.b0), frac(w.min_Mu), frac(w.max_Mu)]
    dataw = [qv(dat[0]), [int(x) for x in dat[1]], [int(x) for x in dat[2]], [int(x) for x in dat[3]]]
    ck = Checker(w, desc)
    for p in problems:
        ck.fail("stub", p)
    wires, expect = [], []
    for si, stp in enumerate(steps):
        names = [c["name"] for c in stp["calls"]]
        if names != STEP_NAMES:
            ck.fail("order", "step %d visited %r, documented order is %r" % (si, names, STEP_NAMES))
        for rec in stp["calls"]:
            ck.call(rec)
            if rec["name"] in STEP_NAMES:
                wires.append([0, cfgw, dataw, wire_state(rec["pre"]), [STEP_NAMES.index(rec["name"])], [wire_val(d) for d in rec["draws"]]])
                expect.append(("block", "step %d %s" % (si, rec["name"]), rec["draws"], rec["post"]))
        if si == 0 and names == STEP_NAMES:
            alld = [d for c in stp["calls"] for d in c["draws"]]
            wires.append([0, cfgw, dataw, wire_state(stp["before"]), list(range(13)), [wire_val(d) for d in alld]])
            expect.append(("block", "whole step 0", alld, stp["after"]))
        ex = exports[si]
        if ex["precision"] != ex["prec"]:
            ck.fail("export", "exported precision %r, sampler precision %r" % (ex["precision"], ex["prec"]))
        if ck.n and (ex["pred"].shape != ex["Mu"].shape or not near(ex["pred"], ex["Mu"], mu_scale(stp["after"], D))):
            ck.fail("export", "exported sample predicts %r on the training rows, sampler fitted values %r" % (ex["pred"].tolist(), ex["Mu"].tolist()))
    final = steps[-1]["after"]
    wires.append([1, cfgw, dataw, wire_state(final)])
    own = np.array(w.predict(dat[1], dat[2], dat[3]), dtype=np.float64) if ck.n else np.zeros(0)
    idxs = ([list(map(int, w.cline_idxs.get(c, []))) for c in range(w.n_clines)],
            [list(map(int, w.dd1_idxs.get(m, []))) for m in range(-1, w.n_drugdoses)],
            [list(map(int, w.dd2_idxs.get(m, []))) for m in range(-1, w.n_drugdoses)])
    expect.append(("final", own, idxs, exports[-1]))
    return w, dat, steps, ck, wires, expect, final, dataw


def run_sweep(desc, mutate=None):
    w, dat, steps, ck, wires, expect, final, dataw = analyse(desc, mutate)
    D = w.D

    def cmpf(mout, _impl):
        if isinstance(mout, str):
            return "model driver failure: " + mout
        if len(mout) != len(expect):
            return "model returned %d results for %d requests" % (len(mout), len(expect))
        for mo, ex in zip(mout, expect):
            if mo == [2]:
                return "model rejected the wire input"
            if ex[0] == "block":
                _, what, draws, post = ex
                if len(mo[0]) != len(draws):
                    return "%s: model makes %d draws, implementation %d" % (what, len(mo[0]), len(draws))
                for j, (md, dr) in enumerate(zip(mo[0], draws)):
                    r = cmp_draw(md, dr)
                    if r:
                        return "%s draw %d: %s" % (what, j, r)
                r = cmp_state(mo[1], post, D, what)
                if r:
                    return r
            else:
                _, own, idxs, exl = ex
                rec = np.array(unq(mo[0]), dtype=np.float64)
                if rec.shape != own.shape or not near(own, rec, mu_scale(final, D)):
                    return "reconstruct: model %r impl predict() %r" % (rec.tolist(), own.tolist())
                if (mo[1], mo[2], mo[3]) != idxs:
                    return "index lists: model %r impl %r" % ((mo[1], mo[2], mo[3]), idxs)
                pt = np.array(unq(mo[4]), dtype=np.float64)
                if pt.shape != exl["pred"].shape or not near(exl["pred"], pt, mu_scale(final, D)):
                    return "exported prediction: model %r impl %r" % (pt.tolist(), exl["pred"].tolist())
                if abs(unq(mo[5]) - exl["precision"]) > 1e-9 * max(1.0, abs(exl["precision"])):
                    return "exported precision: model %r impl %r" % (unq(mo[5]), exl["precision"])
        return None

    d1, d2 = dat[2], dat[3]
    feats = ["sweep", "D=%d" % D, "steps=%d" % desc["steps"]] + (["reset-between-sweeps"] if desc.get("reset_at") else [])
    if ck.n == 0:
        feats.append("trivial")
        if ck.notes:
            feats.append("no-data-prec-unclipped")
    else:
        seen1, seen2 = set(d1[d1 >= 0].tolist()), set(d2[d2 >= 0].tolist())
        feats += [f for f, c in [("combo", bool(((d1 >= 0) & (d2 >= 0)).any())), ("single-first", bool(((d1 >= 0) & (d2 < 0)).any())),
                                 ("single-second", bool(((d1 < 0) & (d2 >= 0)).any())), ("control-control", bool(((d1 < 0) & (d2 < 0)).any())),
                                 ("treatment-first-only", bool(seen1 - seen2)), ("treatment-second-only", bool(seen2 - seen1)),
                                 ("treatment-both", bool(seen1 & seen2)), ("treatment-no-data", len(seen1 | seen2) < w.n_drugdoses),
                                 ("sample-no-data", len(set(dat[1].tolist())) < w.n_clines),
                                 ("self-combination", bool(((d1 >= 0) & (d1 == d2)).any())),
                                 ("mvn-raises", any(d["val"] is None for s in steps for c in s["calls"] for d in c["draws"])),
                                 ("clipping-active", bool(desc.get("wide")))] if c]
    pred = None
    if ck.fails:
        pred = "; ".join("%s" % m for _, m in ck.fails[:3]) + (" (+%d more)" % (len(ck.fails) - 3) if len(ck.fails) > 3 else "")
    impl = dict(n_obs=ck.n, ids=[dataw[1], dataw[2], dataw[3]], n_draws=sum(len(c["draws"]) for s in steps for c in s["calls"]),
                final_Mu=[float(x) for x in final["Mu"]], fail_tags=sorted({t for t, _ in ck.fails}))
    return dict(wire=[9] + wires, impl=impl, pred=pred, features=feats, cmp=cmpf)


def run_mvn(desc):
    from batchie import fast_mvn

    D = desc["D"]
    A = np.array(desc["A"], dtype=np.float64)
    Q = A.T @ A + np.diag(desc["lam"])
    z = np.array(desc["z"], dtype=np.float64)
    b = np.array(desc["b"], dtype=np.float64)

    class G:
        def normal(self, size=None, **k):
            assert size == D
            return z.copy()

    with mock.patch("numpy.random.default_rng", lambda *a, **k: G()):
        x = np.array(fast_mvn.sample_mvn_from_precision(Q.copy(), mu_part=b.copy()), dtype=np.float64)
    L = np.linalg.cholesky(Q)
    pred = None
    if not np.allclose(L @ L.T, Q, rtol=1e-12, atol=1e-12) or np.abs(np.triu(L, 1)).max() > 0:
        pred = "np.linalg.cholesky did not return a lower-triangular factor of Q"
    m = np.linalg.solve(Q, b)
    sc = max(1.0, float(np.abs(x).max()), float(np.abs(m).max()))
    if not np.allclose(L.T @ (x - m), z, rtol=0, atol=1e-8 * sc * max(1.0, float(np.abs(L).max()))):
        pred = "sample_mvn_from_precision: L'(x - Q^-1 b) = %r differs from z = %r" % ((L.T @ (x - m)).tolist(), z.tolist())

    def cmpf(mout, _impl):
        if isinstance(mout, str):
            return "model driver failure: " + mout
        mx = np.array(unq(mout), dtype=np.float64)
        if mx.shape != x.shape or not bool(np.all(np.abs(mx - x) <= 1e-8 * sc)):
            return "mvn sample: model %r impl %r" % (mx.tolist(), x.tolist())
        return None

    return dict(wire=[2, D, qm(L), qv(z), qv(b)], impl=[float(v) for v in x], pred=pred, features=["mvn", "D=%d" % D], cmp=cmpf)


# --------------------------------------------------------------------------- real sweeps (no draw is stubbed)

RTOL = 2e-6     # float32 cache, incrementally updated by up to 13 step functions per sweep (observed: < 4e-8 of the scale, < 4e-6 absolute)


def _rtol(mu, sc):
    return max(1e-4 * (1.0 + (float(np.abs(mu).max()) if np.size(mu) else 0.0)), RTOL * sc)


def run_realdraws(desc):
    """a history of add_observations / real sweeps / reset_model on one model object, with the real draw primitives (np.random seeded,
    the argument-less default_rng() of sample_mvn_from_precision replaced by a seeded Generator: recording, not stubbing) and the real
    Cholesky factorisation on the Q the sampler builds.  Predicate (property clauses that need no model): every MVN draw of
    _W_step / _V2_step / _V1_step returns (no block is skipped, no 'Numeric instability' warning) and every embedding row, intercept
    and precision is redrawn in every sweep; after EVERY step function the cache equals the recomputation from the current parameters
    on the CURRENT data; alpha = mean of the transformed observations; precisions inside their bounds after their step; step functions
    in the documented order; the exported sample reproduces the fitted values and the precision after every sweep."""
    from batchie.models import sparse_combo
    rows = desc["rows"]
    from batchie.data import ExperimentSpace
    _m, _train_all, scr_all = build_model(desc)                  # one screen holding every row, to take the training subsets from
    # a fresh model on the same experiment space: the observations arrive through the history
    model = sparse_combo.SparseDrugCombo(n_embedding_dimensions=desc["D"], experiment_space=ExperimentSpace.from_screen(scr_all))
    w = model.wrapped_model
    fails, counts = [], dict(mvn_calls=0, mvn_raised=0, warnings=0, sweeps=0, step_calls=0)
    calls = []

    def fail(tag, msg):
        if len(fails) < 6:
            fails.append((tag, msg))

    def wrap(name):
        orig = getattr(w, name)

        def f(*a, **k):
            orig(*a, **k)
            calls.append((name, snap(w)))
        return f
    for nm in STEP_NAMES:
        setattr(w, nm, wrap(nm))
    real_mvn = sparse_combo.sample_mvn_from_precision
    real_default_rng = np.random.default_rng
    gens = np.random.SeedSequence(desc["seed"])

    def mvn(*a, **k):
        counts["mvn_calls"] += 1
        try:
            return real_mvn(*a, **k)
        except BaseException as e:      # noqa: BLE001 - re-raised: only counted
            counts["mvn_raised"] += 1
            Q = np.asarray(a[0] if a else k.get("Q"))
            fail("skipped", "sample_mvn_from_precision raised %s: %s on the %s %dx%d precision matrix the sampler built (min eigenvalue of its "
                 "symmetric part %.3g): the block is skipped" % (type(e).__name__, str(e)[:80], Q.dtype, Q.shape[0], Q.shape[-1],
                                                                 float(np.linalg.eigvalsh((np.float64(Q) + np.float64(Q).T) / 2).min())))
            raise

    def default_rng(*a, **k):
        if a or k:
            return real_default_rng(*a, **k)
        return real_default_rng(gens.spawn(1)[0])
    def play():
        n_now = 0
        exports_checked = 0
        for h in desc["history"]:
            if h[0] == "add":
                sel = np.zeros(scr_all.size, dtype=bool)
                sel[h[1]:h[2]] = True
                model.add_observations(scr_all.subset(sel))
                n_now = h[2]
            elif h[0] == "reset":
                model.reset_model()
            else:
                train = scr_all.subset(np.arange(scr_all.size) < n_now)
                for _ in range(h[1]):
                    del calls[:]
                    before = snap(w)
                    model.step()
                    counts["sweeps"] += 1
                    counts["step_calls"] += len(calls)
                    dat = impl_data(w)
                    if len(dat[0]) != n_now:
                        fail("data", "the sampler holds %d observations after %d were added" % (len(dat[0]), n_now))
                        break
                    names = [c[0] for c in calls]
                    if names != STEP_NAMES:
                        fail("order", "sweep %d visited %r, documented order is %r" % (counts["sweeps"], names, STEP_NAMES))
                    ck = Checker(w, desc)
                    for name, S in calls:
                        mu = np_mean(with_aux(S), dat)
                        sc = mu_scale(S, w.D)
                        if S["Mu"].shape != mu.shape or not bool(np.all(np.abs(S["Mu"] - mu) <= _rtol(mu, sc))):
                            fail("cache", "sweep %d: fitted-value cache differs from recomputation after %s: max |Mu - recomputed| = %.4g "
                                 "(tolerance %.4g)" % (counts["sweeps"], name, float(np.abs(S["Mu"] - mu).max()) if S["Mu"].shape == mu.shape
                                                       else float("nan"), _rtol(mu, sc)))
                            break
                        if name == "_alpha_step" and abs(float(S["alpha"]) - float(np.mean(dat[0]))) > 1e-5 * max(1.0, float(np.abs(dat[0]).max())):
                            fail("alpha", "alpha = %r after _alpha_step, mean of transformed observations = %r" % (float(S["alpha"]), float(np.mean(dat[0]))))
                        if name.startswith("_prec_"):
                            ck.bounds(name, S)
                    for t, msg in ck.fails:
                        fail(t, "sweep %d: %s" % (counts["sweeps"], msg))
                    after = calls[-1][1] if calls else snap(w)
                    for key in ("W", "V2", "V1"):
                        same = [i for i in range(before[key].shape[0]) if before[key].shape[1] and np.array_equal(before[key][i], after[key][i])]
                        if same:
                            fail("skipped", "sweep %d: %s[%d] was not redrawn" % (counts["sweeps"], key, same[0]))
                    for key in ("W0", "V0", "tau0", "prec", "gam", "phi0", "phi1", "phi2", "eta0", "eta1", "eta2"):
                        same = np.flatnonzero(np.asarray(before[key] == after[key]).ravel())
                        clipped = np.flatnonzero(np.asarray((after[key] >= 1e6 * (1 - 1e-6))).ravel()) if key not in ("W0", "V0", "gam") else []
                        same = [int(i) for i in same if i not in set(int(x) for x in clipped)]
                        if same and key not in ("tau0", "prec", "phi0", "phi1", "phi2", "eta0", "eta1", "eta2"):
                            fail("skipped", "sweep %d: %s[%d] was not redrawn" % (counts["sweeps"], key, same[0]))
                    if counts["sweeps"] % 5 == 0 or counts["sweeps"] <= 2:
                        th = model.get_model_state()
                        pr = np.array(th.predict_conditional_mean(train), dtype=np.float64)
                        exports_checked += 1
                        if float(th.precision) != float(w.prec):
                            fail("export", "exported precision %r, sampler precision %r" % (float(th.precision), float(w.prec)))
                        if pr.shape != after["Mu"].shape or not bool(np.all(np.abs(pr - after["Mu"]) <= _rtol(pr, mu_scale(after, w.D)))):
                            fail("export", "sweep %d: exported sample does not reproduce the fitted values on the training rows: max difference %.4g"
                                 % (counts["sweeps"], float(np.abs(pr - after["Mu"]).max()) if pr.shape == after["Mu"].shape else float("nan")))
                    if fails:
                        break
            if fails:
                break
        return exports_checked

    exports_checked = 0
    state = np.random.get_state()
    try:
        np.random.seed(desc["seed"] % (1 << 32))
        with warnings.catch_warnings(record=True) as caught, mock.patch.object(sparse_combo, "sample_mvn_from_precision", mvn), \
                mock.patch("numpy.random.default_rng", default_rng):
            warnings.simplefilter("always")
            try:
                exports_checked = play()
            except Exception as e:      # noqa: BLE001 - the implementation raised on a valid history
                fail("raised", "after %d sweeps the sampler raised %s: %s" % (counts["sweeps"], type(e).__name__, str(e)[:200]))
            counts["warnings"] = sum(1 for c in caught if "Numeric instability" in str(c.message))
    finally:
        np.random.set_state(state)
    if counts["warnings"] and not any(t == "skipped" for t, _ in fails):
        fail("skipped", "%d 'Numeric instability' warning(s): a Gaussian block was skipped" % counts["warnings"])
    pred = None
    if fails:
        pred = "; ".join(m for _, m in fails[:3])
    feats = ["realdraws", "D=%d" % desc["D"], "n=%d+" % (50 * (len(rows) // 50)), "grows-between-sweeps", "reset-between-sweeps",
             "sweeps>=%d" % (10 * (counts["sweeps"] // 10))]
    impl = dict(n_obs=len(rows), counts=counts, exports_checked=exports_checked, fail_tags=sorted({t for t, _ in fails}))
    return dict(wire=None, impl=impl, pred=pred, features=feats)


def run(desc):
    if desc["kind"] == "mvn":
        return run_mvn(desc)
    if desc["kind"] == "realdraws":
        return run_realdraws(desc)
    return run_sweep(desc)


def signature(desc, res):
    tags = (res.get("impl") or {}).get("fail_tags") if isinstance(res.get("impl"), dict) else None
    if desc.get("kind") == "realdraws":
        return "realdraws:" + "+".join(tags or [])
    if desc.get("kind") in ("sweep", "selfcombo"):
        selfc = any(r[1] >= 0 and r[1] == r[2] for r in desc["rows"])
        if selfc and tags and set(tags) <= {"cache", "gauss", "export", "gamma"}:
            return "self-combination-row-stale-cache"
        if tags:
            return "sweep:" + "+".join(tags)
        return "sweep:correspondence"
    return desc.get("kind")


# --------------------------------------------------------------------------- whole-run checks

_MUT_DESC = dict(kind="sweep", D=2, n_s=2, n_t=3, steps=2, dseed=7, fail=False, wide=False,
                 rows=[[0, 0, 1, 0.25], [0, 0, -1, 0.5], [1, -1, 1, 0.75], [1, 2, 1, 0.375], [0, 1, 2, 0.625], [1, 0, 2, 0.125]])


def _mutant(method, old, new):
    """a copy of a step function of the implementation with one textual change, bound to the instance"""
    import types
    from batchie.models import sparse_combo

    src = textwrap.dedent(inspect.getsource(getattr(sparse_combo.LegacySparseDrugComboImpl, method)))
    if old not in src:
        return None
    ns = {}
    exec(compile(src.replace(old, new, 1), "<mutant of %s>" % method, "exec"), vars(sparse_combo), ns)

    def apply(w):
        setattr(w, method, types.MethodType(ns[method], w))
    return apply


def extra(tier):
    out = []
    a = np.zeros(3)
    a[np.array([0, 0, 1])] += np.array([1.0, 2.0, 3.0])
    out.append(("numpy fancy-index += keeps the last write for a repeated index", a.tolist() == [2.0, 3.0, 0.0], a.tolist()))
    # the Coq refutation witness (Proofs/C08Cache.v wit_data / wit_state, draw 1) on the real class
    from batchie.models.sparse_combo import LegacySparseDrugComboImpl
    w = LegacySparseDrugComboImpl(n_dims=1, n_drugdoses=1, n_clines=1)
    w._update(y=np.float32(0.0), cl=0, dd1=0, dd2=0)
    w._reconstruct_Mu(clip=False)
    with mock.patch("numpy.random.normal", lambda *a, **k: 1.0):
        w._V0_step()
    cached, recomputed = float(w.Mu[0]), float(w.predict(np.array([0]), np.array([0]), np.array([0]))[0])
    out.append(("C08_cache_refuted witness replayed on the implementation (informational)", True,
                "after _V0_step: cached Mu = %r, recomputed = %r (%s)" % (cached, recomputed,
                "reproduces the stale cache" if (cached, recomputed) == (1.0, 2.0) else "does NOT reproduce: the implementation changed")))
    note = None
    for ds in range(60):
        nd = dict(kind="sweep", D=1, n_s=2, n_t=2, rows=[], steps=1, dseed=ds, fail=False, wide=True)
        _, _, stp, ck0, _, _, _, _ = analyse(nd)
        if ck0.notes:
            note = "draw seed %d: %s" % (ds, ck0.notes[0])
            break
    out.append(("no observations: _prec_obs_step returns before clipping (informational; an empty dataset is outside the quantifier)", True,
                note or "not reproduced: the implementation changed"))
    # detection self-test: realistic defects injected into copies of the step functions must be caught
    muts = [("_V0_step", "- self.Mu[idx1] + old_value", "- self.Mu[idx1] - old_value", "residual sign in _V0_step"),
            ("_W_step", "mu_part = (Xt @ resid) * prec", "mu_part = (Xt @ resid)", "dropped precision factor in _W_step"),
            ("_V1_step", "self.Mu[idx] += X @ self.V1[m] - old_contrib", "pass", "_V1_step does not update the cache"),
            ("_V2_step", "Q[dix] += self.phi2[m] * self.eta2", "Q[dix] += self.phi2[m]", "dropped eta2 in the V2 prior precision"),
            ("_prec_W0_step", "an = self.a0 + 0.5 * self.n_clines", "an = self.a0 + self.n_clines", "wrong shape in _prec_W0_step"),
            ("mcmc_step", "self._V1_step()", "pass", "_V1_step omitted from the sweep")]
    for method, old, new, what in muts:
        mu = _mutant(method, old, new)
        if mu is None:
            out.append(("detection self-test: " + what, True, "skipped: source pattern not present any more"))
            continue
        _, _, _, ck, _, _, _, _ = analyse(_MUT_DESC, mu)
        out.append(("detection self-test: " + what, bool(ck.fails), ck.fails[0][1][:300] if ck.fails else "NOT detected"))
    _, _, _, ck, _, _, _, _ = analyse(_MUT_DESC)
    out.append(("detection self-test baseline: unmodified implementation passes on the same case", not ck.fails, str(ck.fails[:1])))
    return out
