"""C14 — subset and plate views are exact row selections with set-algebra semantics."""
import logging

import numpy as np

import common
import screenlib as sl
from common import ImplError, cmp_result, float_key, impl_call, s2l

logging.getLogger("batchie").setLevel(logging.ERROR)     # Screen.single_treatment_effects warns when it returns None

ID = "C14"
LEVEL = "proof"
RULE = ("kinds: split_nan (NaN / inf / 0 / -0.0 planted on observed and unobserved rows: subset_observed / subset_unobserved select by the "
        "mask alone; implementation-side predicate), tree (random op tree, depth <= 4, over 1-2 random parent screens of 0-12 rows with small name/dose/sample pools so "
        "that (sample, treatment ids) keys repeat, 1-4 plates, plate-uniform masks; leaves = Screen.subset with empty / full / random "
        "selections, subset_observed / subset_unobserved, get_plate (existing and non-existing ids), filter_dataset_to_unique_treatments "
        "on the screen; inner nodes = ScreenSubset.subset (empty / full / random inner masks), combine, invert, concat (1-3 arguments), "
        "filter_dataset_to_unique_treatments on a view), malformed (wrong-length or non-bool selection at a random node, combine / concat "
        "of views of two different parent objects incl. content-equal ones, empty concat), to_screen (tree, then to_screen()), plates "
        "(Screen.plates), split (subset_observed + subset_unobserved), unique_raw (select_unique_zipped_numpy_arrays on 1-3 small-int "
        "columns). Non-trivial: parent with >= 2 rows (unique_raw: >= 2 rows); distinct by canonical description.  Gap round: parents of "
        "17 / 24 / 40 rows (numpy's sorts change algorithm above 16); the view predicate also reads unique_treatments, n_unique_treatments, "
        "treatment_arity, control_treatment_name, the three mappings, sample / treatment_space_size, Plate.plate_id / plate_name against the "
        "selected rows of the snapshot; kind dag: straight-line programs of 3-10 statements over view OBJECTS (a binding used in several "
        "positions: v.combine(v), concat([v, v, w]), two subsets of one v), to_screen in the middle with further views of the materialised "
        "screen (a new parent; combining its views with views of the original must be refused with ValueError), every view of the program "
        "re-read against its set-algebra semantics AFTER the last statement, the last view compared with the model over the extended "
        "screen list.  Outside the quantifier and not predicated: Screen.set_observed / Plate.merge on a parent while views exist "
        "(subset_observed() hands the parent's mask array to the view, so such a mutation shows through) and selections that are not 1-d.")
THEOREMS = {
    "C14_constructed_screens": "every screen the constructor returns satisfies the side conditions screen_wf / screen_valid used below",
    "C14_selected_rows": "np.where(selection) is strictly increasing and lists exactly the true positions",
    "C14_attr_exact": "a[selection] = the parent's values at the selected indices, in parent order (any per-row array)",
    "C14_view_attrs": "plate/sample/treatment ids, rows (names, doses, observation, mask, plate name) and size of a view are the parent's at np.where(selection)",
    "C14_subset_compose": "v.subset(inner) is a new view of the same parent selecting select(inner, rows of v); any attribute = inner applied to v's attribute",
    "C14_subset_total": "a bool mask of the view's size is always accepted; result = inner mask scattered at v's true positions",
    "C14_subset_refused": "non-bool mask or mask of the wrong length is refused",
    "C14_combine_union": "combine selects row i iff a or b selects it; same parent",
    "C14_combine_total": "two views of the same parent always combine",
    "C14_concat_union": "concat selects row i iff some argument selects it; all arguments carry the result's parent",
    "C14_concat_single_and_empty": "concat([v]) is v itself; concat([]) is refused",
    "C14_invert_complement": "invert selects exactly the rows the view does not",
    "C14_observed_split": "observed/unobserved views select exactly the rows with mask true/false (disjoint, exhaustive), None iff that side is empty",
    "C14_get_plate": "get_plate(pid) selects exactly the rows whose plate id is pid",
    "C14_plates_partition": "plates = one view per distinct plate id in ascending order; every row lies on exactly one",
    "C14_to_screen_rows": "to_screen yields a screen with the view's rows in the same order, same arity and control name",
    "C14_to_screen_total": "to_screen never fails on a view of a constructor-built screen",
    "C14_unique_mask_first": "select_unique mask keeps row i iff no earlier row has the same key (the index np.unique(return_index) returns)",
    "C14_unique_mask_exactly_one": "kept keys are pairwise distinct and every key is kept",
    "C14_unique_exactly_one": "filter_dataset_to_unique_treatments on a view keeps, per distinct (sample id, treatment ids), exactly the first selected row",
    "C14_unique_total": "the unique filter never fails on a well-formed view",
    "C14_different_parent_refused": "combine / concat of views whose parents differ in identity are refused",
    "C14_closure": "every op tree that evaluates to a view yields a view of the tree's parent whose selected rows equal the index-set reference semantics",
    "C14_closure_selection_vector": "... and whose selection_vector is the characteristic vector of that index set",
    "C14_closure_attributes": "... and whose every attribute is the parent's values at that index list",
    "C14_closure_ref_sorted": "the reference index list is strictly increasing and in range",
    # the model is the source: Generated/SrcViews.v is re-translated from /repo's data.py on every run
    "C14_model_is_source_init": "translation of ScreenSubset.__init__ (run by ScreenSubset(...) and Plate(...)) = the model's constructor mk_view: dtype check, length check against screen.size, the two attributes",
    "C14_model_is_source_size": "translation of ScreenBase.size on a Screen / on a ScreenSubset = the model's screen_size / view_size",
    "C14_model_is_source_subset": "translation of the whole ScreenSubset.subset (checks, copy, np.where, scatter of the inner mask at the true positions, new ScreenSubset) = view_subset, all inputs",
    "C14_model_is_source_combine": "translation of ScreenSubset.combine (`other.screen is not self.screen` = comparison of parent identity tags, `|`, Plate) = view_combine",
    "C14_model_is_source_concat": "translation of ScreenSubset.concat (single argument returned itself, empty refused, loop with identity check and `|` accumulation from None, Plate) = view_concat",
    "C14_model_is_source_invert": "translation of ScreenSubset.invert = view_invert",
    "C14_model_is_source_screen_subset": "translation of Screen.subset = screen_subset",
    "C14_model_is_source_subset_observed": "translation of Screen.subset_observed (None iff np.any(mask) is false, else self.subset(mask)) = subset_observed",
    "C14_model_is_source_subset_unobserved": "translation of Screen.subset_unobserved (None iff np.any(~mask) is false) = subset_unobserved",
    "C14_model_is_source_get_plate": "translation of Screen.get_plate (Plate(self, plate_ids == plate_id)) = get_plate",
    "C14_model_is_source_plates": "translations of ScreenBase.unique_plate_ids and Screen.plates ([self.get_plate(x) for x in unique ids], left to right) = plates",
    "C14_model_is_source_to_screen": "translation of ScreenSubset.to_screen: Screen(...) with exactly the seven keywords it passes (six parent arrays at the selected rows, control name; no mappings) = to_screen",
    "C14_model_is_source_attributes": "translations of the twelve attribute properties of ScreenSubset (parent.attr[selection_vector], or the parent's value for control name / mappings) = view_pids, view_sids, view_tids, ...",
    "C14_model_is_source_single_treatment_effects": "translation of ScreenSubset.single_treatment_effects = None when the parent's property is None, else its rows at the selection",
    'C14_model_is_source_screen_properties': 'translations of ScreenBase.is_observed / n_plates / unique_sample_ids / n_unique_samples / unique_treatments / n_unique_treatments / treatment_arity on a Screen object = np.all of the mask, number of distinct plate ids, sorted distinct sample ids, their number, sorted distinct treatment ids without the control sentinel, their number, the arity',
    'C14_model_is_source_view_properties': "the same one-line properties (and unique_plate_ids) on a ScreenSubset / Plate object = the same functions of the view's selected id / mask arrays",
    'C14_model_is_source_plate_id': 'translation of Plate.plate_id = the single distinct plate id of the selected rows, refused for none or several',
    'C14_model_is_source_plate_name': 'translation of Plate.plate_name = the plate name of the first selected row; IndexError when nothing is selected',
    'C14_model_is_source_plate_lt': 'translation of Plate.__lt__ = comparison of the two sizes',
    'C14_model_is_source_plate_merge': "translation of the whole Plate.merge = view_merge: parents compared by identity, self's selection := union, the union's rows of the PARENT get the plate name of the union's first row, the parent's plate ids are re-encoded from the new names by the translated encoder, self is returned (the parent's plate_mapping is left as it was)",
    'C14_model_is_source_screen_combine': "translation of the whole Screen.combine = screen_combine: control names compared, then the constructor on self's rows followed by other's (each per-row array concatenated in that order, masks included), observations and mask passed, no mappings",
    'C14_model_is_source_select_unique': "translation of the whole common.select_unique_zipped_numpy_arrays = select_unique on one or more arrays (np.unique(axis=0, return_index=True) as the first-occurrence primitive); no array: numpy's vstack raises",
    'C14_model_is_source_filter_unique': 'translations of the whole filter_dataset_to_unique_treatments on a ScreenSubset and on a Screen = filter_unique_view / filter_unique_screen (columns = sample ids then one treatment-id column per position, unique mask, subset)',
}
ASSUMPTIONS = [
    "np.unique(axis=0, return_index=True) returns, for each distinct row, the index of its first occurrence (numpy uses a stable sort "
    "when return_index is set); modelled as such and exercised by every unique / unique_raw case",
    "boolean fancy indexing a[mask], np.where, a[idx] = vals, |, ~, == are modelled by their documented element-wise effect",
    "parent identity (`is`) is modelled by a tag = position of the parent in the case's screen list; the harness builds one Python object per position",
    "doses cross as order keys (common.float_key), observations as IEEE-754 bit patterns, names as code-point lists",
    "in-place mutation is not expressible in the functional model; it is checked at run time by pred (snapshots of the argument views' "
    "selection vectors and of all parent arrays before/after every operation, and no shared memory between result and arguments)",
    "source link (C14_model_is_source_*): trusted are the translator harness/py2gal.py (incl. its additions `overload`, raising "
    "comprehension element = res_map_all, `inherits`) and the primitives of the C14_* configurations in harness/src_functions.py, one "
    "attribute / numpy call each: np.issubdtype(a.dtype, bool) = the array's is-bool flag; a.shape[0] / a.size = number of rows; "
    "a[mask] = Views.select (Views.select2 for the two 2-d arrays: keeps the column count); a.copy() = the same value, typed as an "
    "array the function owns; np.where(a)[0] = Views.np_where; `a[idx] = vals` (declared only for an owned array) = Views.scatter; "
    "`|` = Views.bor_vec; `~` = map negb; `ids == x` = map (=? x); np.any = existsb id; np.unique = sort_uniq Z.compare; len; l[0]; "
    "`a is not b` on Screen objects = comparison of identity tags; Screen attribute reads (plate_ids, sample_ids, treatment_ids, "
    "sample_names, plate_names, treatment_names, treatment_doses, observations, observation_mask (taken to be a bool array), "
    "control_treatment_name, the three mappings) = the model screen's fields; Screen(<seven keywords>) = Views.screen_of_arrays = "
    "mk_screen on the rows zipped from those arrays, arity = treatment_names.shape[1], no mappings, observations and mask given; "
    "calls of translated methods (self.size, self.subset, self.get_plate, self.unique_plate_ids, self.treatment_ids, ScreenSubset(...), "
    "Plate(...)) run their translations; the value of the parent's computed single_treatment_effects property is a parameter (read "
    "twice by the code, taken to be the same both times)",
]
EXPLANATION = ("Model: Model/Views.v on top of the shared Model/Screen.v. Compared exactly per case: parent identity, selection_vector, "
               "plate/sample/treatment ids, and every selected row (sample name, plate name, treatment names, dose keys, observation bits, "
               "mask), the model's reference index list vs np.where(selection_vector), error-ness; to_screen compared as a whole screen "
               "(rows, ids, mappings). Plate.merge / plate_id / plate_name: see HELPER LINKS below; the parent's single_treatment_effects is an opaque "
               "value. Source link: the whole methods ScreenSubset.__init__ / subset / combine / concat / invert / to_screen / its thirteen "
               "attribute properties, ScreenBase.size / unique_plate_ids, Screen.subset / subset_observed / subset_unobserved / get_plate / "
               "plates are re-translated from VERIF_REPO's src/batchie/data.py into coq/theories/Generated/SrcViews.v on every run and the "
               "C14_model_is_source_* theorems prove the translations equal to the model's functions for all inputs (objects: Screen = "
               "(identity tag, contents), ScreenSubset / Plate = (parent, selection vector), selection argument = (dtype is bool, values)). "
               "A changed method either leaves the translated fragment (the build fails) or changes the generated definition and the "
               "linking proof no longer compiles; both are reported as a broken obligation. What the link trusts is listed under "
               "assumptions: the translator and the one-call primitives. The class of a result (ScreenSubset vs Plate) is not modelled; "
               "Plate is checked to be a plain subclass of ScreenSubset without its own __init__."
               '  HELPER LINKS (round 3; configurations H14_* of harness/src_functions.py -> Generated/SrcPlates.v, proofs '
               'Proofs/C14SourceHelpers.v and Proofs/C13SourceHelpers.v): the small data.py helpers that the links of C06 / C11 / C13 '
               '/ C14 use as primitives are translated whole on every run - Plate.plate_id / plate_name / __lt__ / merge, '
               'ScreenBase.is_observed / n_plates / unique_plate_ids / unique_sample_ids / n_unique_samples / unique_treatments / '
               'n_unique_treatments / treatment_arity (each on a Screen object and on a ScreenSubset / Plate object), Screen.combine, '
               'common.select_unique_zipped_numpy_arrays, filter_dataset_to_unique_treatments (on both kinds of argument) - and proved '
               'equal to their models at the end of Model/Views.v for all inputs (C14_model_is_source_screen_properties ... '
               '_filter_unique).  TRUSTED by the helper links: the translator with one additive extension (cfg nested_fields: a store '
               'through a chain of declared fields `x.a.b = e`, the numpy boolean-mask store `x.a.b[m] = v` on the array held in the '
               'innermost field, a tuple target with field components and `_`; a field setter may be a checked store) and these '
               'primitives, one attribute / numpy call each: len; np.unique (1-d: sorted distinct values; of a 2-d id array: of all '
               'its entries); np.all; a.shape[0], a.shape[1]; CONTROL_SENTINEL_VALUE (read from common.py); np.setdiff1d; l[0] '
               '(IndexError when empty); a[mask]; `a | b`; `a is not b` on Screen objects (identity tags); isinstance(x, Screen) on a '
               'value typed as a Screen object (true); the Screen attribute reads of the C14 block; the attribute fields screen / '
               'selection_vector of a view and plate_names / _plate_ids of a Screen (getter and setter each; the model keeps rows, so '
               "storing plate_names rewrites row i's plate name; storing an id column is checked: a NaN cannot be stored); `a[m] = x` "
               "(Views.mask_fill: IndexError unless the mask has the array's length, True positions get x); np.concatenate([a, b]) "
               '(1-d: append; 2-d: ValueError unless equal column counts); Screen(<the seven keywords of to_screen / combine>) = '
               'Views.screen_of_arrays (the constructor itself is linked by C01 / C12); len(set(l)) = number of distinct values; '
               'np.vstack, a.T (Model/Screen.v); np.unique(a, axis=0, return_index=True) = the sorted distinct rows and, for each, the '
               'index of its FIRST occurrence; np.zeros(n, dtype=bool); a[idx] = True (IndexError outside); a[:, i] '
               '(Model/Screen.arr2_col); calls of translated functions (encode_1d_array_to_0_indexed_ids, self.size, self.plate_name, '
               'self.unique_plate_ids, screen.subset, select_unique_zipped_numpy_arrays, the ScreenSubset attribute properties) run '
               'their translations.  Aliasing is not modelled: Plate.merge returns self with its new parent; `other`, which shares the '
               'parent object, is stale afterwards (the callers re-read the parent).  Plate.merge / plate_id / plate_name are now '
               'modelled (view_merge, view_plate_id, view_plate_name). ')


class NoneReturned(Exception):
    pass


class RefError(Exception):
    pass


# --------------------------------------------------------------------------- reference semantics with plain index lists


class DescAcc:
    """row facts from the JSON description only (used by the generator)"""

    def __init__(self, screens):
        self.s = screens
        self.pn = [sorted(set(r["p"] for r in d["rows"])) for d in screens]

    def size(self, k):
        return len(self.s[k]["rows"])

    def observed(self, k, i):
        return bool(self.s[k]["rows"][i]["m"])

    def pid(self, k, i):
        return self.pn[k].index(self.s[k]["rows"][i]["p"])

    def key(self, k, i):
        d = self.s[k]
        r = d["rows"][i]
        return (r["s"],) + tuple("<ctrl>" if (t[1] <= 0 or t[0] == d["ctrl"]) else (t[0], float_key(t[1])) for t in r["t"])


class RealAcc:
    """row facts from snapshots of the real parent Screens (used by pred)"""

    def __init__(self, snaps):
        self.p = snaps

    def size(self, k):
        return len(self.p[k]["sids"])

    def observed(self, k, i):
        return self.p[k]["mask"][i]

    def pid(self, k, i):
        return self.p[k]["pids"][i]

    def key(self, k, i):
        return (self.p[k]["sids"][i],) + tuple(self.p[k]["tids"][i])


# ---- leftovers of the source link: Screen.concat, Screen.single_treatment_effects (Proofs/C14SourceLeftovers.v) ----
THEOREMS.update({
    "C14_model_is_source_screen_concat": "the translation of the whole classmethod Screen.concat (two length tests, screens[0], the loop `result = result.combine(screen)` over screens[1:] through the translated Screen.combine) equals for ALL lists of Screen objects: Err for the empty list, the SAME object for one screen, otherwise a new object holding the model's left fold of screen_combine (screen_concat_from)",
    "C14_model_is_source_screen_concat_contents": "on the contents, whatever the object identities, the translated Screen.concat is the model's screen_concat",
    "C14_model_is_source_screen_single_treatment_effects": "the translation of the whole property Screen.single_treatment_effects (try: return create_single_treatment_effect_array(sample_ids=, treatment_ids=, observation=) except KeyError: return None) equals the model's screen_single_effects for ANY effect-array function and KeyError tag: Some array, None exactly when the construction raises KeyError, every other exception passes",
    "C14_source_view_single_treatment_effects_of_parent": "consistency with C14_model_is_source_single_treatment_effects (which took the parent's property as a primitive value): with the translated Screen property in its place, a view's single_treatment_effects is the row selection of the parent's array, None propagates",
})
ASSUMPTIONS += [
    "source links of Screen.concat / Screen.single_treatment_effects (harness/src_functions.py L10B_SCREEN_CONCAT / L10B_SCREEN_STE): trusted are the translator (extended by `try: B except E: H` with returning parts = PyRt.res_catch on a declared exception tag) and the primitives len(l), l[0] = PyRt.list_get, l[1:] = tl, a.combine(b) = the TRANSLATED Screen.combine whose result is a new object of identity new_tag (a parameter: the link holds for every value; identities are never tested in concat), self.sample_ids / treatment_ids / observations = the stored columns of the Screen (the C14 attribute primitives), create_single_treatment_effect_array(sample_ids=, treatment_ids=, observation=) = a PARAMETER effect_array (its own source link is C20's, in the Synergy vocabulary) whose KeyError carries the parameter tag key_error and no other exception does, logger.warning ignored",
]
EXPLANATION += ("  LEFTOVERS: Screen.concat and Screen.single_treatment_effects are re-translated as whole functions as well (Generated/SrcPlates.v) and linked "
                "to screen_concat / screen_single_effects at the end of Model/Views.v (C14_model_is_source_screen_concat*, _screen_single_treatment_effects); "
                "trusted: the translator and the primitives named in ASSUMPTIONS (len, l[0], l[1:], dispatch of .combine to the translated Screen.combine with a "
                "fresh identity, the three column attributes, the effect-array function and its KeyError tag as parameters).")

# ---- wave 6 of the source link: the attribute getters of Screen, sample_space_size / treatment_space_size (Proofs/C14Source_ScreenAttrs.v, _SpaceSize.v) ----
THEOREMS.update({
    "C14_model_is_source_screen_attributes": "the translations of the eleven attribute properties of Screen (plate_ids, sample_ids, treatment_ids, sample_names, treatment_names, treatment_doses, observations, observation_mask, treatment_mapping, sample_mapping, plate_mapping: `return self._<attr>`) return the corresponding field of the model screen (per-row arrays = columns of its rows, 2-d arrays with its arity as column count, id arrays and mappings as stored)",
    "C14_source_view_attributes_of_parent": "consistency with C14_model_is_source_attributes (which read the parent's attributes as primitives): with the translated Screen getters in their place, a view's property = mask selection of the parent's property; the three mappings are handed through",
    "C14_model_is_source_space_sizes": "the translations of ScreenBase.sample_space_size / treatment_space_size (len(self.<x>_mapping[0]) through the translated mapping property) on a Screen object and on a ScreenSubset / Plate object = the number of rows of the (parent) screen's sample / treatment mapping",
})
ASSUMPTIONS += [
    "source links of the Screen getters and the two space sizes (harness/src_functions.py LS_SCREEN_GETTERS / LS_SPACE_SIZES -> Generated/SrcScreenAttrs.v): trusted are the translator and, per private attribute, ONE read-only field template: self._plate_ids / _sample_ids / _treatment_ids / _sample_names / _treatment_names / _treatment_doses / _observations / _observation_mask / _treatment_mapping / _sample_mapping / _plate_mapping of a Screen object denote s_pids / s_sids / s_tids / the sample-name column / the (arity, name rows) and (arity, dose rows) arrays / the observation column / the mask column / s_tmap / s_smap / s_pmap of its contents (a store to one of them is not a term: refused); for the sizes m[0] of a mapping = the names column of its rows and len; self.sample_mapping / self.treatment_mapping run the translated properties (of Screen, or of ScreenSubset from the C14 block).  WHICH private attribute each public property returns (and that it returns it unchanged) is read from the source.",
]
EXPLANATION += ("  SCREEN GETTERS: the eleven `return self._<attr>` properties of Screen and ScreenBase.sample_space_size / treatment_space_size (on both "
                "kinds of receiver) are re-translated on every run (Generated/SrcScreenAttrs.v; C14_model_is_source_screen_attributes, "
                "_space_sizes, C14_source_view_attributes_of_parent); trusted: the translator and the read-only field templates named in ASSUMPTIONS.")


def ref_eval(tree, acc):
    """(parent index, ascending list of selected parent row indices); RefError where the API must refuse"""
    op = tree[0]
    if op == "base":
        _, k, isb, sel = tree
        if not isb:
            raise RefError("dtype")
        if len(sel) != acc.size(k):
            raise RefError("length")
        return k, [i for i, b in enumerate(sel) if b]
    if op in ("obs", "unobs"):
        k = tree[1]
        idx = [i for i in range(acc.size(k)) if acc.observed(k, i) == (op == "obs")]
        if not idx:
            raise RefError("none")
        return k, idx
    if op == "plate":
        _, k, pid = tree
        return k, [i for i in range(acc.size(k)) if acc.pid(k, i) == pid]
    if op == "uniqs":
        return ref_eval(["unique", ["base", tree[1], True, [True] * acc.size(tree[1])]], acc)
    if op == "subset":
        _, e, isb, inner = tree
        k, idx = ref_eval(e, acc)
        if not isb:
            raise RefError("dtype")
        if len(inner) != len(idx):
            raise RefError("length")
        return k, [i for i, b in zip(idx, inner) if b]
    if op == "combine":
        ka, a = ref_eval(tree[1], acc)
        kb, b = ref_eval(tree[2], acc)
        if ka != kb:
            raise RefError("parents")
        return ka, sorted(set(a) | set(b))
    if op == "invert":
        k, idx = ref_eval(tree[1], acc)
        return k, [i for i in range(acc.size(k)) if i not in idx]
    if op == "concat":
        rs = [ref_eval(e, acc) for e in tree[1]]
        if not rs:
            raise RefError("empty")
        if len(rs) == 1:
            return rs[0]
        if any(k != rs[0][0] for k, _ in rs):
            raise RefError("parents")
        u = set()
        for _, idx in rs:
            u |= set(idx)
        return rs[0][0], sorted(u)
    if op == "unique":
        k, idx = ref_eval(tree[1], acc)
        seen, out = set(), []
        for i in idx:
            key = acc.key(k, i)
            if key not in seen:
                seen.add(key)
                out.append(i)
        return k, out
    raise ValueError(op)


# --------------------------------------------------------------------------- real API


PARENT_ARRAYS = ["plate_ids", "sample_ids", "treatment_ids", "sample_names", "plate_names", "treatment_names", "treatment_doses",
                 "observations", "observation_mask"]


def _snap_parent(s):
    return {a: np.array(getattr(s, a), copy=True) for a in PARENT_ARRAYS}


def _same(a, b):
    return a.shape == b.shape and a.dtype == b.dtype and (np.array_equal(a, b, equal_nan=True) if a.dtype.kind == "f" else np.array_equal(a, b))


def _tid_rows(tids, n):
    tids = np.asarray(tids)
    return [[int(x) for x in tids[i].reshape(-1)] for i in range(n)]


def _bvec(isb, sel):
    return np.array(sel, dtype=bool if isb else int)


class Evaluator:
    """evaluates an op tree with the real ScreenSubset / Plate / Screen API, checking on the way that no operation
    changes its argument views or the parent screens and that results do not share memory with the arguments."""

    def __init__(self, screens):
        self.screens = screens
        self.snaps = [_snap_parent(s) for s in screens]
        self.alias = []

    def parents_unchanged(self, what):
        for k, (s, sn) in enumerate(zip(self.screens, self.snaps)):
            for a in PARENT_ARRAYS:
                if not _same(np.asarray(getattr(s, a)), sn[a]):
                    self.alias.append("%s changed parent %d's %s" % (what, k, a))

    def op(self, what, args, f, fresh=True):
        """run f() = an operation on the views [args]; check the arguments afterwards"""
        before = [(v, v.screen, v.selection_vector, v.selection_vector.copy()) for v in args]
        out = f()
        for n, (v, scr, vec, cp) in enumerate(before):
            if v.screen is not scr:
                self.alias.append("%s re-parented its argument %d" % (what, n))
            if v.selection_vector is not vec or not _same(v.selection_vector, cp):
                self.alias.append("%s changed the selection_vector of its argument %d: %r -> %r"
                                  % (what, n, cp.astype(int).tolist(), np.asarray(v.selection_vector).astype(int).tolist()))
            if fresh and out is not None and np.shares_memory(out.selection_vector, vec):
                self.alias.append("result of %s shares memory with the selection_vector of its argument %d" % (what, n))
        self.parents_unchanged(what)
        return out

    def ev(self, t):
        from batchie.data import ScreenSubset, filter_dataset_to_unique_treatments

        op = t[0]
        if op == "base":
            return self.op("Screen.subset", [], lambda: self.screens[t[1]].subset(_bvec(t[2], t[3])))
        if op in ("obs", "unobs"):
            s = self.screens[t[1]]
            v = self.op("subset_" + op, [], (s.subset_observed if op == "obs" else s.subset_unobserved))
            if v is None:
                raise NoneReturned(op)
            return v
        if op == "plate":
            return self.op("get_plate", [], lambda: self.screens[t[1]].get_plate(t[2]))
        if op == "uniqs":
            return self.op("filter_unique(screen)", [], lambda: filter_dataset_to_unique_treatments(self.screens[t[1]]))
        if op == "subset":
            v = self.ev(t[1])
            inner = _bvec(t[2], t[3])
            keep = inner.copy()
            out = self.op("ScreenSubset.subset", [v], lambda: v.subset(inner))
            if not _same(inner, keep):
                self.alias.append("ScreenSubset.subset changed its mask argument")
            return out
        if op == "combine":
            a = self.ev(t[1])
            b = self.ev(t[2])
            return self.op("combine", [a, b], lambda: a.combine(b))
        if op == "invert":
            v = self.ev(t[1])
            return self.op("invert", [v], lambda: v.invert())
        if op == "concat":
            vs = [self.ev(e) for e in t[1]]
            return self.op("concat", vs, lambda: ScreenSubset.concat(vs), fresh=len(vs) != 1)
        if op == "unique":
            v = self.ev(t[1])
            return self.op("filter_unique(view)", [v], lambda: filter_dataset_to_unique_treatments(v))
        raise ValueError(op)


def _rows_at(tn, td, sn, pn, obs, mask):
    return [[s2l(str(sn[i])), s2l(str(pn[i])), [[s2l(str(tn[i, j])), float_key(td[i, j])] for j in range(tn.shape[1])],
             sl.obs_bits(obs[i]), bool(mask[i])] for i in range(len(sn))]


def canon_view(v, screens):
    tag = [k for k, s in enumerate(screens) if s is v.screen]
    sel = v.selection_vector
    pn = v.screen.plate_names[sel]                    # ScreenSubset has no plate_names attribute; to_screen / plate_name read this
    tids = np.asarray(v.treatment_ids)
    return [tag[0] if len(tag) == 1 else -1, [bool(x) for x in sel], [int(x) for x in v.plate_ids], [int(x) for x in v.sample_ids],
            _tid_rows(tids, tids.shape[0]),
            _rows_at(v.treatment_names, v.treatment_doses, v.sample_names, pn, v.observations, v.observation_mask)]


def _parent_rows(sn):
    return _rows_at(sn["treatment_names"], sn["treatment_doses"], sn["sample_names"], sn["plate_names"], sn["observations"], sn["observation_mask"])


def _real_acc(ev):
    return RealAcc([dict(sids=[int(x) for x in sn["sample_ids"]], tids=_tid_rows(sn["treatment_ids"], len(sn["sample_ids"])),
                         mask=[bool(x) for x in sn["observation_mask"]], pids=[int(x) for x in sn["plate_ids"]]) for sn in ev.snaps])


def pred_view(ev, tree, v):
    """the property's clauses for the view v produced by `tree`, from index lists and parent snapshots only"""
    if ev.alias:
        return ev.alias[0]
    try:
        k, idx = ref_eval(tree, _real_acc(ev))
    except RefError as e:
        return "operation that must be refused (%s) returned a view" % e
    if v.screen is not ev.screens[k]:
        return "view is not a view of parent %d" % k
    sel = np.asarray(v.selection_vector)
    sn = ev.snaps[k]
    n = len(sn["sample_ids"])
    if sel.dtype != bool or sel.shape != (n,):
        return "selection_vector has dtype %s shape %s for a parent of %d rows" % (sel.dtype, sel.shape, n)
    got = [int(i) for i in np.where(sel)[0]]
    if got != idx:
        return "selected rows %r differ from the set-algebra semantics %r" % (got, idx)
    c = canon_view(v, ev.screens)
    prow = _parent_rows(sn)
    exp = [[int(sn["plate_ids"][i]) for i in idx], [int(sn["sample_ids"][i]) for i in idx],
           [_tid_rows(sn["treatment_ids"], n)[i] for i in idx], [prow[i] for i in idx]]
    for name, g, e in zip(["plate_ids", "sample_ids", "treatment_ids", "names/doses/observations/mask/plate names"], c[2:], exp):
        if g != e:
            return "attribute %s of the view is not the parent's values at rows %r in parent order" % (name, idx)
    if v.size != len(idx):
        return "size %d of the view differs from the number of selected rows %d" % (v.size, len(idx))
    # attributes DERIVED from the per-experiment ones must be those of the selected rows too (a view class that
    # overrides one of them with a shortcut - e.g. looking at the first selected row only - breaks "reports the parent's
    # values at the selected rows")
    pm = [bool(sn["observation_mask"][i]) for i in idx]
    derived = [("is_observed", lambda: bool(v.is_observed), all(pm)),
               ("n_unique_samples", lambda: int(v.n_unique_samples), len({int(sn["sample_ids"][i]) for i in idx})),
               ("unique_sample_ids", lambda: [int(x) for x in v.unique_sample_ids], sorted({int(sn["sample_ids"][i]) for i in idx})),
               ("unique_plate_ids", lambda: [int(x) for x in v.unique_plate_ids], sorted({int(sn["plate_ids"][i]) for i in idx})),
               ("n_plates", lambda: int(v.n_plates), len({int(sn["plate_ids"][i]) for i in idx}))]
    par = ev.screens[k]
    tid_set = sorted({int(x) for i in idx for x in _tid_rows(sn["treatment_ids"], n)[i]} - {-1})       # CONTROL_SENTINEL_VALUE = -1
    derived += [("unique_treatments", lambda: [int(x) for x in v.unique_treatments], tid_set),
                ("n_unique_treatments", lambda: int(v.n_unique_treatments), len(tid_set)),
                ("treatment_arity", lambda: int(v.treatment_arity), int(np.asarray(sn["treatment_ids"]).reshape(n, -1).shape[1]) if n else int(par.treatment_arity)),
                ("control_treatment_name", lambda: str(v.control_treatment_name), str(par.control_treatment_name)),
                ("treatment_mapping", lambda: sl.canon_tmap(v.treatment_mapping), sl.canon_tmap(par.treatment_mapping)),
                ("sample_mapping", lambda: sl.canon_nmap(v.sample_mapping), sl.canon_nmap(par.sample_mapping)),
                ("plate_mapping", lambda: sl.canon_nmap(v.plate_mapping), sl.canon_nmap(par.plate_mapping)),
                ("sample_space_size", lambda: int(v.sample_space_size), len(par.sample_mapping[0])),
                ("treatment_space_size", lambda: int(v.treatment_space_size), len(par.treatment_mapping[0]))]
    if hasattr(type(v), "plate_name") and idx:
        derived.append(("plate_name", lambda: str(v.plate_name), str(sn["plate_names"][idx[0]])))
    pidset = sorted({int(sn["plate_ids"][i]) for i in idx})
    if hasattr(type(v), "plate_id") and len(pidset) == 1:
        derived.append(("plate_id", lambda: int(v.plate_id), pidset[0]))
    for name, get, want in derived:
        try:
            got = get()
        except Exception as e:      # noqa: BLE001
            return "derived attribute %s of the view raises %s" % (name, type(e).__name__)
        if got != want:
            return "derived attribute %s of the view is %r, the selected rows %r give %r" % (name, got, idx, want)
    # single_treatment_effects is a per-experiment attribute too: a view reports the PARENT's array at its rows
    # (what the parent's array is belongs to C20); an exception / None of the parent is the view's too
    def ste(x):
        try:
            a = x.single_treatment_effects
        except Exception as e:      # noqa: BLE001 - compared by type
            return ("raises", type(e).__name__)
        return ("none",) if a is None else ("array", np.asarray(a, dtype=float))
    pe, ve = ste(ev.screens[k]), ste(v)
    if pe[0] != ve[0] or (pe[0] == "raises" and pe[1] != ve[1]):
        return "single_treatment_effects of the view is %s although the parent's is %s" % (ve[:2] if ve[0] != "array" else "an array", pe[:2] if pe[0] != "array" else "an array")
    if pe[0] == "array":
        want = pe[1][idx] if len(idx) else pe[1][:0]
        if ve[1].shape != want.shape or not np.array_equal(ve[1], want, equal_nan=True):
            return "attribute single_treatment_effects of the view is not the parent's values at rows %r" % (idx,)
    return None


# --------------------------------------------------------------------------- generators


def _tree_ops(t, acc=None):
    acc = acc if acc is not None else []
    acc.append(t[0])
    if t[0] in ("subset", "invert", "unique"):
        _tree_ops(t[1], acc)
    elif t[0] == "combine":
        _tree_ops(t[1], acc)
        _tree_ops(t[2], acc)
    elif t[0] == "concat":
        for e in t[1]:
            _tree_ops(e, acc)
    return acc


def _rand_mask(rng, n):
    m = rng.choice(["empty", "full", "rand", "rand", "rand", "one"])
    if m == "empty":
        return [False] * n
    if m == "full":
        return [True] * n
    if m == "one" and n:
        j = rng.randrange(n)
        return [i == j for i in range(n)]
    p = rng.choice([0.25, 0.5, 0.75])
    return [rng.random() < p for _ in range(n)]


def gen_screen(rng, n=None):
    ctrl = rng.choice(sl.CTRLS)
    n = n if n is not None else rng.choice([0, 1, 2, 3, 4, 5, 6, 6, 8, 8, 10, 12, 12, 17, 24, 40])
    names = rng.sample(sl.NAMES, rng.randint(1, 3)) + ([ctrl] if rng.random() < 0.5 else [])
    doses = rng.sample(sl.DOSES, rng.randint(1, 3))
    samples = rng.sample(sl.NAMES, rng.randint(1, 3))
    plates = rng.sample(sl.NAMES, rng.randint(1, 4))
    rows, a = sl.gen_rows(rng, n=n, arity=rng.choice([1, 2, 2, 3]), names=names, doses=doses, samples=samples, plates=plates, ctrl=ctrl)
    if rows and rng.random() < 0.5:          # exact duplicate conditions on other plates / with other observations
        for _ in range(rng.randint(1, 3)):
            src = rng.choice(rows)
            j = rng.randrange(len(rows))
            rows[j] = dict(rows[j], s=src["s"], t=[list(x) for x in src["t"]])
    return dict(rows=rows, arity=a, ctrl=ctrl, obs_given=True, mask_given=True, tmap=None, smap=None)


def gen_tree(rng, depth, k, acc, nscreens):
    """random well-formed tree over parent k (RefError-free unless an obs/unobs leaf is None)"""
    n = acc.size(k)
    if depth <= 0 or rng.random() < 0.15:
        c = rng.choice(["base", "base", "base", "obs", "unobs", "plate", "plate", "uniqs"])
        if c == "base":
            return ["base", k, True, _rand_mask(rng, n)]
        if c in ("obs", "unobs"):
            t = [c, k]
            try:
                ref_eval(t, acc)
                return t
            except RefError:
                return t if rng.random() < 0.2 else ["base", k, True, _rand_mask(rng, n)]
        if c == "plate":
            npl = len(acc.pn[k])
            return ["plate", k, rng.choice(list(range(npl)) + [npl, -1]) if rng.random() < 0.15 or not npl else rng.randrange(npl)]
        return ["uniqs", k]
    c = rng.choice(["subset", "subset", "subset", "combine", "combine", "invert", "concat", "unique"])
    if c == "subset":
        e = gen_tree(rng, depth - 1, k, acc, nscreens)
        try:
            m = len(ref_eval(e, acc)[1])
        except RefError:
            m = rng.randint(0, n)
        return ["subset", e, True, _rand_mask(rng, m)]
    if c == "combine":
        return ["combine", gen_tree(rng, depth - 1, k, acc, nscreens), gen_tree(rng, depth - 1, k, acc, nscreens)]
    if c == "invert":
        return ["invert", gen_tree(rng, depth - 1, k, acc, nscreens)]
    if c == "concat":
        return ["concat", [gen_tree(rng, depth - 1, k, acc, nscreens) for _ in range(rng.choice([1, 2, 2, 3]))]]
    return ["unique", gen_tree(rng, depth - 1, k, acc, nscreens)]


def _break(rng, t, acc, nscreens):
    """make one node of a well-formed tree invalid"""
    how = rng.choice(["len", "len", "dtype", "parents", "parents", "empty_concat"])
    k = ref_parent(t)
    other = (k + 1) % nscreens
    if how == "parents" and nscreens > 1:
        o = gen_tree(rng, 1, other, acc, nscreens)
        return rng.choice([["combine", t, o], ["combine", o, t], ["concat", [t, o]], ["concat", [t, t, o]]]), "different_parents"
    if how == "empty_concat":
        return rng.choice([["concat", []], ["combine", t, ["concat", []]]]), "empty_concat"
    try:
        m = len(ref_eval(t, acc)[1])
    except RefError:
        m = 0
    if how == "dtype":
        return rng.choice([["subset", t, False, [rng.random() < 0.5 for _ in range(m)]],
                           ["base", k, False, [rng.random() < 0.5 for _ in range(acc.size(k))]]]), "non_bool"
    # wrong length: the classic confusion is a mask of the parent's length for a sub-view, or off by one
    cands = [x for x in {m + 1, m - 1, acc.size(k), 0} if x >= 0 and x != m]
    return ["subset", t, True, [rng.random() < 0.5 for _ in range(rng.choice(cands))]], "wrong_length"


def ref_parent(t):
    if t[0] in ("base", "obs", "unobs", "plate", "uniqs"):
        return t[1]
    if t[0] == "concat":
        return ref_parent(t[1][0]) if t[1] else 0
    return ref_parent(t[1])


def gen(rng, tier):
    N = 1 if tier == "quick" else 10
    for _ in range(40 * N):       # NaN / inf / 0 stored on observed and unobserved rows: the split is by the mask alone
        sc = gen_screen(rng, n=rng.choice([2, 3, 4, 6, 8, 12]))
        k = len(sc["rows"])
        yield dict(kind="split_nan", screen=sc, plant=[[rng.randrange(k), rng.choice(["nan", "nan", "inf", "zero", "-zero"])] for _ in range(rng.randint(1, 3))])
    for _ in range(420 * N):
        ns = rng.choice([1, 1, 2])
        screens = [gen_screen(rng) for _ in range(ns)]
        acc = DescAcc(screens)
        yield dict(kind="tree", screens=screens, tree=gen_tree(rng, rng.choice([1, 2, 3, 3, 4, 4]), rng.randrange(ns), acc, ns))
    for _ in range(110 * N):
        ns = rng.choice([1, 2, 2])
        n0 = rng.choice([1, 2, 3, 4, 6, 8])
        screens = [gen_screen(rng, n=(n0 if rng.random() < 0.6 else rng.choice([1, 2, 3, 4, 6, 8]))) for _ in range(ns)]
        if ns == 2 and rng.random() < 0.4:
            screens[1] = screens[0]           # content-equal but distinct parent objects
        acc = DescAcc(screens)
        t = gen_tree(rng, rng.choice([0, 1, 2, 3]), rng.randrange(ns), acc, ns)
        t2, how = _break(rng, t, acc, ns)
        if rng.random() < 0.4:
            t2 = rng.choice([["invert", t2], ["unique", t2], ["concat", [t2]]])
        yield dict(kind="malformed", screens=screens, tree=t2, how=how)
    for _ in range(110 * N):
        screens = [gen_screen(rng)]
        acc = DescAcc(screens)
        yield dict(kind="to_screen", screens=screens, tree=gen_tree(rng, rng.choice([0, 1, 2, 3]), 0, acc, 1))
    for _ in range(40 * N):
        yield dict(kind="plates", screens=[gen_screen(rng)], k=0)
    for _ in range(40 * N):
        yield dict(kind="split", screens=[gen_screen(rng)], k=0)
    for _ in range(120 * N):
        yield gen_dag(rng)
    for _ in range(80 * N):
        n = rng.choice([0, 1, 2, 3, 5, 8, 12, 20])
        ncol = rng.choice([1, 2, 3])
        lo, hi = rng.choice([(-1, 1), (-1, 2), (0, 3), (-1, 0)])
        yield dict(kind="unique_raw", cols=[[rng.randint(lo, hi) for _ in range(n)] for _ in range(ncol)])


# --------------------------------------------------------------------------- programs with shared view objects (kind dag)


class Dag:
    """a straight-line program over view OBJECTS: every statement binds one value, later statements name earlier bindings by
    index, so the same object can be used in several positions (v.combine(v), concat([v, v, w]), two subsets of one v) and is
    re-read after everything that came later.  Statements: ["base", k, mask] | ["obs", k] | ["unobs", k] | ["plate", k, pid] |
    ["subset", i, mask] | ["combine", i, j] | ["invert", i] | ["unique", i] | ["concat", [i, ...]] | ["to_screen", i]
    (k = screen index, the materialised screens being appended to the screen list in program order; i, j = binding indices).
    The reference semantics of a binding is its INLINED tree over the extended screen list."""

    def __init__(self, screens):
        self.descs = list(screens)
        self.bind = []          # ("view", tree) | ("screen", k)

    def tree(self, i):
        kind, x = self.bind[i]
        if kind != "view":
            raise RefError("not-a-view")
        return x

    def add(self, st):
        op = st[0]
        if op == "base":
            self.bind.append(("view", ["base", st[1], True, st[2]]))
        elif op in ("obs", "unobs", "plate"):
            self.bind.append(("view", list(st)))
        elif op == "subset":
            self.bind.append(("view", ["subset", self.tree(st[1]), True, st[2]]))
        elif op == "combine":
            self.bind.append(("view", ["combine", self.tree(st[1]), self.tree(st[2])]))
        elif op in ("invert", "unique"):
            self.bind.append(("view", [op, self.tree(st[1])]))
        elif op == "concat":
            self.bind.append(("view", ["concat", [self.tree(i) for i in st[1]]]))
        elif op == "to_screen":
            k, idx = ref_eval(self.tree(st[1]), DescAcc(self.descs))
            d = self.descs[k]
            self.descs.append(dict(d, rows=[d["rows"][j] for j in idx], obs_given=True, mask_given=True, tmap=None, smap=None))
            self.bind.append(("screen", len(self.descs) - 1))
        else:
            raise ValueError(op)

    def ref(self, i):
        return ref_eval(self.tree(i), DescAcc(self.descs))


def gen_dag(rng):
    ns = rng.choice([1, 1, 2])
    screens = [gen_screen(rng, n=rng.choice([2, 3, 4, 6, 8, 10, 17])) for _ in range(ns)]
    dag, prog = Dag(screens), []
    n_to = 0

    def push(st):
        dag.add(st)
        prog.append(st)

    def views():
        out = []
        for i, (kind, _) in enumerate(dag.bind):
            if kind == "view":
                try:
                    out.append((i,) + tuple(dag.ref(i)))
                except RefError:
                    pass
        return out

    for _ in range(rng.randint(3, 9)):
        vs = views()
        c = rng.choice(["leaf", "subset", "subset", "combine", "combine", "invert", "concat", "unique", "to_screen"]) if vs else "leaf"
        if c == "leaf":
            k = rng.randrange(len(dag.descs))
            acc = DescAcc(dag.descs)
            n = acc.size(k)
            lc = rng.choice(["base", "base", "obs", "unobs", "plate"])
            st = ["base", k, _rand_mask(rng, n)]
            if lc in ("obs", "unobs") and any(acc.observed(k, i) == (lc == "obs") for i in range(n)):
                st = [lc, k]
            elif lc == "plate" and acc.pn[k]:
                st = ["plate", k, rng.randrange(len(acc.pn[k]))]
            push(st)
            continue
        i, k, idx = rng.choice(vs)
        same = [x for x in vs if x[1] == k]
        if c == "subset":
            push(["subset", i, _rand_mask(rng, len(idx))])
        elif c == "combine":
            push(["combine", i, rng.choice(same)[0] if rng.random() < 0.8 else i])
        elif c in ("invert", "unique"):
            push([c, i])
        elif c == "concat":
            push(["concat", [rng.choice(same)[0] for _ in range(rng.choice([1, 2, 3, 3]))]])
        elif c == "to_screen" and n_to < 2:
            n_to += 1
            push(["to_screen", i])
    vs = views()
    parents = sorted({x[1] for x in vs})
    if len(parents) > 1 and rng.random() < 0.6:        # views of two different parent objects (e.g. of a screen and of its materialisation)
        a = rng.choice([x for x in vs if x[1] == parents[0]])[0]
        b = rng.choice([x for x in vs if x[1] == parents[-1]])[0]
        prog.append(rng.choice([["combine", a, b], ["combine", b, a], ["concat", [a, b]], ["concat", [a, a, b]]]))
    elif not vs or dag.bind[-1][0] != "view":
        k = rng.randrange(len(dag.descs))
        push(["base", k, _rand_mask(rng, DescAcc(dag.descs).size(k))])
    return dict(kind="dag", screens=screens, prog=prog)


def run_dag(desc):
    from batchie.data import ScreenSubset, filter_dataset_to_unique_treatments

    screens = [sl.build(d) for d in desc["screens"]]
    ev = Evaluator(screens)
    dag, vals, pred, feats = Dag(desc["screens"]), [], None, set()
    used = {}
    last_refused = None
    for n, st in enumerate(desc["prog"]):
        op = st[0]
        refs = [st[1]] if op in ("subset", "invert", "unique", "to_screen") else [st[1], st[2]] if op == "combine" else list(st[1]) if op == "concat" else []
        for r in refs:
            used[r] = used.get(r, 0) + 1
        if len(set(refs)) < len(refs):
            feats.add("same_object_twice")
        expect_refused = None
        try:
            dag.add(st)
            if op != "to_screen":
                dag.ref(len(dag.bind) - 1)
        except RefError as e:
            expect_refused = str(e)
            if len(dag.bind) <= n:
                tr = ["combine", dag.tree(st[1]), dag.tree(st[2])] if op == "combine" else ["concat", [dag.tree(i) for i in st[1]]]
                dag.bind.append(("view", tr))

        def do():
            if op == "base":
                return ev.op("Screen.subset", [], lambda: ev.screens[st[1]].subset(_bvec(True, st[2])))
            if op in ("obs", "unobs"):
                s = ev.screens[st[1]]
                return ev.op("subset_" + op, [], (s.subset_observed if op == "obs" else s.subset_unobserved))
            if op == "plate":
                return ev.op("get_plate", [], lambda: ev.screens[st[1]].get_plate(st[2]))
            if op == "subset":
                v = vals[st[1]]
                return ev.op("ScreenSubset.subset", [v], lambda: v.subset(_bvec(True, st[2])))
            if op == "combine":
                a, b = vals[st[1]], vals[st[2]]
                return ev.op("combine", [a, b], lambda: a.combine(b))
            if op == "invert":
                v = vals[st[1]]
                return ev.op("invert", [v], lambda: v.invert())
            if op == "unique":
                v = vals[st[1]]
                return ev.op("filter_unique(view)", [v], lambda: filter_dataset_to_unique_treatments(v))
            if op == "concat":
                vs = [vals[i] for i in st[1]]
                return ev.op("concat", vs, lambda: ScreenSubset.concat(vs), fresh=len(vs) != 1)
            if op == "to_screen":
                v = vals[st[1]]
                return ev.op("to_screen", [v], v.to_screen, fresh=False)
            raise ValueError(op)

        r = impl_call(do)
        if expect_refused is not None:
            feats.add("refused_" + expect_refused)
            if not isinstance(r, ImplError):
                pred = "statement %d %r must be refused (%s) but returned a view" % (n, st[:2], expect_refused)
            elif r.cls != "ValueError":
                pred = "statement %d: refusal (%s) surfaced as %r instead of ValueError" % (n, expect_refused, r)
            last_refused = r
            vals.append(None)
            break
        if isinstance(r, ImplError) or r is None:
            pred = "statement %d %r of a valid program %s" % (n, st[:2], "returned None" if r is None else "raised %r" % (r,))
            last_refused = r if isinstance(r, ImplError) else ImplError(NoneReturned(op))
            vals.append(None)
            break
        if op == "to_screen":
            feats.add("through_to_screen")
            k, idx = dag.ref(st[1])
            prow = _parent_rows(ev.snaps[k])
            if sl.canon_rows(r) != [prow[i] for i in idx]:
                pred = pred or "statement %d: materialised screen's rows differ from the parent's rows %r in order" % (n, idx)
            for a in PARENT_ARRAYS:
                if np.shares_memory(np.asarray(getattr(r, a)), np.asarray(getattr(ev.screens[k], a))):
                    pred = pred or "statement %d: materialised screen shares %s with its parent" % (n, a)
            ev.screens.append(r)
            ev.snaps.append(_snap_parent(r))
        vals.append(r)
    if any(c > 1 for c in used.values()):
        feats.add("binding_reused")
    # every view of the program is re-read AFTER everything that was done later with it or next to it
    if pred is None and ev.alias:
        pred = ev.alias[0]
    last_view = None
    for i, (kind, x) in enumerate(dag.bind):
        if kind == "view" and i < len(vals) and vals[i] is not None:
            last_view = i
            if pred is None:
                p = pred_view(ev, x, vals[i])
                if p:
                    pred = "binding %d (%s), re-read at the end of the program %r: %s" % (i, desc["prog"][i][0], [s[:1] + [s[1]] if s[0] != "base" else s[:2] for s in desc["prog"]], p)
    wscreens = [sl.wire_mk_args(d) for d in dag.descs]
    f = _features(dict(kind="dag", screens=desc["screens"])) + sorted(feats) + sorted({"op_" + s[0] for s in desc["prog"]})
    if last_refused is not None:
        tr = dag.bind[len(vals) - 1]
        if tr[0] == "view":
            return dict(wire=[0, wscreens, wire_tree(tr[1])], impl=last_refused, pred=pred, features=f + ["refused"], cmp=_cmp_tree)
        return dict(wire=None, impl=last_refused, pred=pred, features=f + ["refused"])
    if last_view is None:
        return dict(wire=None, impl=None, pred=pred, features=f + ["trivial"])
    v = vals[last_view]
    impl = dict(view=canon_view(v, ev.screens), where=[int(i) for i in np.where(v.selection_vector)[0]])
    return dict(wire=[0, wscreens, wire_tree(dag.bind[last_view][1])], impl=impl, pred=pred, features=f, cmp=_cmp_tree)


# --------------------------------------------------------------------------- run


def _features(desc, extra=()):
    f = [desc["kind"]] + list(extra)
    screens = desc.get("screens", [])
    if screens:
        if max(len(d["rows"]) for d in screens) < 2:
            f.append("trivial")
        if len(screens) > 1:
            f.append("two_parents")
        acc = DescAcc(screens)
        for k, d in enumerate(screens):
            keys = [acc.key(k, i) for i in range(len(d["rows"]))]
            if len(set(keys)) < len(keys):
                f.append("duplicate_keys")
                break
        if any(len(p) > 1 for p in acc.pn):
            f.append("several_plates")
    if "tree" in desc:
        ops = _tree_ops(desc["tree"])
        f += sorted(set("op_" + o for o in ops))
        f.append("depth%d" % _depth(desc["tree"]))

        def sels(t):
            if t[0] == "base":
                yield t[3]
            elif t[0] == "subset":
                yield t[3]
                yield from sels(t[1])
            elif t[0] in ("invert", "unique"):
                yield from sels(t[1])
            elif t[0] == "combine":
                yield from sels(t[1])
                yield from sels(t[2])
            elif t[0] == "concat":
                for e in t[1]:
                    yield from sels(e)
        ss = list(sels(desc["tree"]))
        if any(s and not any(s) for s in ss):
            f.append("empty_selection")
        if any(s and all(s) for s in ss):
            f.append("full_selection")
        if any(s and any(s) and not all(s) for s in ss):
            f.append("partial_selection")
    return f


def _depth(t):
    if t[0] in ("subset", "invert", "unique"):
        return 1 + _depth(t[1])
    if t[0] == "combine":
        return 1 + max(_depth(t[1]), _depth(t[2]))
    if t[0] == "concat":
        return 1 + max([_depth(e) for e in t[1]] or [0])
    return 0


TREE_CODES = dict(base=0, obs=1, unobs=2, plate=3, uniqs=4, subset=5, combine=6, invert=7, concat=8, unique=9)


def wire_tree(t):
    op = t[0]
    c = TREE_CODES[op]
    if op == "base":
        return [c, t[1], bool(t[2]), [bool(x) for x in t[3]]]
    if op in ("obs", "unobs", "uniqs"):
        return [c, t[1]]
    if op == "plate":
        return [c, t[1], int(t[2])]
    if op == "subset":
        return [c, wire_tree(t[1]), bool(t[2]), [bool(x) for x in t[3]]]
    if op == "combine":
        return [c, wire_tree(t[1]), wire_tree(t[2])]
    if op in ("invert", "unique"):
        return [c, wire_tree(t[1])]
    if op == "concat":
        return [c, [wire_tree(e) for e in t[1]]]
    raise ValueError(op)


def _cmp_tree(m, i):
    if isinstance(m, str):
        return "model driver failure: " + m
    r = cmp_result()(m[0], i["view"] if isinstance(i, dict) and "view" in i else i)
    if r is None and common.is_ok(m[0]) and m[1] != i["where"]:
        return "model reference semantics %r differs from np.where(selection_vector) %r" % (m[1], i["where"])
    return r


def run_split_nan(desc):
    """observed / unobserved views split the screen by its MASK, whatever the stored values are (NaN, inf, 0 on observed rows);
    implementation-side only: NaN observations are outside the model's value type"""
    d = dict(desc["screen"])
    rows = [dict(r) for r in d["rows"]]
    vals = {"nan": float("nan"), "inf": float("inf"), "zero": 0.0, "-zero": -0.0}
    for i, tag in desc["plant"]:
        if i < len(rows):
            rows[i]["o"] = vals[tag]
    d["rows"] = rows
    s = impl_call(sl.build, d)
    feats = ["split_nan"] + sorted({"plant_" + t for _, t in desc["plant"]})
    if isinstance(s, ImplError) or s.size == 0:
        return dict(wire=None, impl=None, pred=None, features=feats + ["trivial"])
    mask = np.asarray(s.observation_mask).copy()
    ob, un = impl_call(s.subset_observed), impl_call(s.subset_unobserved)
    pred = None
    for name, v, want in (("subset_observed", ob, mask), ("subset_unobserved", un, ~mask)):
        if isinstance(v, ImplError):
            pred = pred or "%s raised %r" % (name, v)
        elif v is None:
            if want.any():
                pred = pred or "%s is None although %d row(s) have that mask value" % (name, int(want.sum()))
        elif not np.array_equal(np.asarray(v.selection_vector), want):
            pred = pred or "%s selects rows %r, the mask says %r (stored values planted: %r)" % (
                name, np.where(np.asarray(v.selection_vector))[0].tolist(), np.where(want)[0].tolist(), desc["plant"])
        elif not np.array_equal(np.asarray(v.observations), np.asarray(s.observations)[want], equal_nan=True):
            pred = pred or "%s reports other observation values than the parent's at its rows" % name
    if any(mask[i] for i, _ in desc["plant"] if i < len(mask)):
        feats.append("planted_on_observed_row")
    return dict(wire=None, impl=None, pred=pred, features=feats)


def run(desc):
    k = desc["kind"]
    if k == "split_nan":
        return run_split_nan(desc)
    if k == "unique_raw":
        from batchie.common import select_unique_zipped_numpy_arrays

        cols = desc["cols"]
        out = impl_call(lambda: [bool(x) for x in select_unique_zipped_numpy_arrays([np.array(c, dtype=int) for c in cols])])
        pred = None
        keys = list(zip(*cols))
        if isinstance(out, ImplError):
            pred = "select_unique_zipped_numpy_arrays raised %r" % (out,)
        else:
            kept = [keys[i] for i, b in enumerate(out) if b]
            if len(out) != len(keys) or len(set(kept)) != len(kept) or set(kept) != set(keys):
                pred = "mask %r does not keep exactly one row per distinct key of %r" % (out, keys)
            elif any(b != (keys.index(keys[i]) == i) for i, b in enumerate(out)):
                pred = "mask %r keeps a row that is not the first occurrence of its key in %r" % (out, keys)
        f = ["unique_raw"] + (["trivial"] if len(keys) < 2 else []) + (["duplicate_keys"] if len(set(keys)) < len(keys) else [])
        return dict(wire=[3, cols], impl=out, pred=pred, features=f, cmp=cmp_result())

    if k == "dag":
        return run_dag(desc)
    screens = [sl.build(d) for d in desc["screens"]]
    ev = Evaluator(screens)
    wscreens = [sl.wire_mk_args(d) for d in desc["screens"]]
    if k in ("tree", "malformed"):
        tree = desc["tree"]
        v = impl_call(ev.ev, tree)
        pred = None
        if isinstance(v, ImplError):
            impl = v
            if ev.alias:
                pred = ev.alias[0]
            else:
                try:
                    ref_eval(tree, _real_acc(ev))
                    pred = "a valid composition was refused: %r" % (v,)
                except RefError as e:
                    if v.cls not in ("ValueError", "NoneReturned"):
                        pred = "refusal (%s) surfaced as %r instead of ValueError" % (e, v)
        else:
            impl = dict(view=canon_view(v, screens), where=[int(i) for i in np.where(v.selection_vector)[0]])
            pred = pred_view(ev, tree, v)
        f = _features(desc, [desc["how"]] if "how" in desc else []) + (["refused"] if isinstance(v, ImplError) else [])
        return dict(wire=[0, wscreens, wire_tree(tree)], impl=impl, pred=pred, features=f, cmp=_cmp_tree)
    if k == "to_screen":
        tree = desc["tree"]
        v = impl_call(ev.ev, tree)
        pred = None
        if isinstance(v, ImplError):
            impl = v
            try:
                ref_eval(tree, _real_acc(ev))
                pred = "a valid composition was refused: %r" % (v,)
            except RefError:
                pass
        else:
            pred = pred_view(ev, tree, v)
            s2 = impl_call(lambda: ev.op("to_screen", [v], v.to_screen, fresh=False))
            if isinstance(s2, ImplError):
                impl = s2
                pred = pred or "to_screen of a valid view raised %r" % (s2,)
            else:
                impl = sl.canon_screen(s2)
                if pred is None and ev.alias:
                    pred = ev.alias[0]
                if pred is None:
                    kk, idx = ref_eval(tree, _real_acc(ev))
                    prow = _parent_rows(ev.snaps[kk])
                    if sl.canon_rows(s2) != [prow[i] for i in idx]:
                        pred = "materialised screen's rows differ from the parent's rows %r in order" % (idx,)
                    elif s2.control_treatment_name != screens[kk].control_treatment_name:
                        pred = "materialised screen lost the control treatment name"
                    else:
                        for a in PARENT_ARRAYS:   # a materialised screen owns its arrays
                            if np.shares_memory(np.asarray(getattr(s2, a)), np.asarray(getattr(screens[kk], a))):
                                pred = "materialised screen shares %s with its parent" % a
        f = _features(desc) + (["refused"] if isinstance(impl, ImplError) else [])
        if not isinstance(v, ImplError) and not isinstance(impl, ImplError) and (
                [int(x) for x in v.sample_ids] != impl[2] or _tid_rows(v.treatment_ids, v.size) != impl[1] or [int(x) for x in v.plate_ids] != impl[3]):
            f.append("ids_renumbered")      # allowed: to_screen passes no mappings; the property promises rows, not ids
        return dict(wire=[1, wscreens, wire_tree(tree)], impl=impl, pred=pred, features=f, cmp=cmp_result())
    if k == "plates":
        s = screens[desc["k"]]
        ps = impl_call(lambda: list(s.plates))
        pred = None
        if isinstance(ps, ImplError):
            impl = ps
            pred = "Screen.plates raised %r" % (ps,)
        else:
            ev.parents_unchanged("plates")
            impl = [canon_view(p, screens) for p in ps]
            sn = ev.snaps[desc["k"]]
            pids = [int(x) for x in sn["plate_ids"]]
            exp = [[i for i, x in enumerate(pids) if x == u] for u in sorted(set(pids))]
            got = [[int(i) for i in np.where(p.selection_vector)[0]] for p in ps]
            if ev.alias:
                pred = ev.alias[0]
            elif got != exp:
                pred = "plates select %r, expected one view per plate id in ascending order: %r" % (got, exp)
            else:
                for p, idx in zip(ps, exp):
                    pred = pred or pred_view(ev, ["base", desc["k"], True, [i in idx for i in range(len(pids))]], p)
        return dict(wire=[2, wscreens, desc["k"]], impl=impl, pred=pred, features=_features(desc), cmp=cmp_result())
    if k == "split":
        kk = desc["k"]
        s = screens[kk]
        o = ev.op("subset_observed", [], s.subset_observed)
        u = ev.op("subset_unobserved", [], s.subset_unobserved)
        mask = [bool(x) for x in ev.snaps[kk]["observation_mask"]]
        pred = ev.alias[0] if ev.alias else None
        osel = [bool(x) for x in o.selection_vector] if o is not None else None
        usel = [bool(x) for x in u.selection_vector] if u is not None else None
        if pred is None and (o is None) != (not any(mask)):
            pred = "subset_observed is None iff no row is observed: violated (mask %r)" % (mask,)
        if pred is None and (u is None) != all(mask):
            pred = "subset_unobserved is None iff every row is observed: violated (mask %r)" % (mask,)
        if pred is None and osel is not None and osel != mask:
            pred = "observed view selects %r, mask is %r" % (osel, mask)
        if pred is None and usel is not None and usel != [not b for b in mask]:
            pred = "unobserved view selects %r, mask is %r" % (usel, mask)
        if pred is None and o is not None:
            pred = pred_view(ev, ["obs", kk], o)
        if pred is None and u is not None:
            pred = pred_view(ev, ["unobs", kk], u)
        # wire: the observed side if it exists, else the unobserved one, else the (refused) observed side
        t = ["obs", kk] if o is not None or u is None else ["unobs", kk]
        v = o if o is not None else u
        impl = dict(view=canon_view(v, screens), where=[int(i) for i in np.where(v.selection_vector)[0]]) if v is not None else ImplError(NoneReturned("obs"))
        f = _features(desc) + (["all_observed"] if all(mask) else []) + (["none_observed"] if not any(mask) else [])
        return dict(wire=[0, wscreens, wire_tree(t)], impl=impl, pred=pred, features=f, cmp=_cmp_tree)
    raise ValueError(k)


# --------------------------------------------------------------------------- shrinking


def _subtrees(t):
    if t[0] in ("subset", "invert", "unique"):
        yield t[1]
    elif t[0] == "combine":
        yield t[1]
        yield t[2]
    elif t[0] == "concat":
        for e in t[1]:
            yield e
        if len(t[1]) > 1:
            for i in range(len(t[1])):
                yield ["concat", t[1][:i] + t[1][i + 1:]]


def _rewrites(t):
    """trees with one node replaced by one of its children"""
    for s in _subtrees(t):
        yield s
    if t[0] in ("subset",):
        for r in _rewrites(t[1]):
            yield [t[0], r, t[2], t[3]]
    elif t[0] in ("invert", "unique"):
        for r in _rewrites(t[1]):
            yield [t[0], r]
    elif t[0] == "combine":
        for r in _rewrites(t[1]):
            yield ["combine", r, t[2]]
        for r in _rewrites(t[2]):
            yield ["combine", t[1], r]
    elif t[0] == "concat":
        for i, e in enumerate(t[1]):
            for r in _rewrites(e):
                yield ["concat", t[1][:i] + [r] + t[1][i + 1:]]


def shrink(desc):
    if desc["kind"] == "dag":
        for n in range(len(desc["prog"]) - 1, 0, -1):
            yield dict(desc, prog=desc["prog"][:n])
        return
    if "tree" in desc:
        for t in _rewrites(desc["tree"]):
            yield dict(desc, tree=t)
    if desc["kind"] == "unique_raw":
        n = len(desc["cols"][0]) if desc["cols"] else 0
        for i in range(n):
            yield dict(desc, cols=[c[:i] + c[i + 1:] for c in desc["cols"]])
        if len(desc["cols"]) > 1:
            yield dict(desc, cols=desc["cols"][1:])


def signature(desc, res):
    import re

    p = res.get("pred") or ""
    return "%s:%s" % (desc["kind"], re.sub(r"\s*[\[\(%0-9].*", "", p)[:60])
