"""Fail-closed reader of the NEXTFLOW side of the orchestration (C19 gap 2; the excludes chain is what C16 gap 1 asks for).

No nextflow engine exists here, so nothing under /repo/nextflow/**/*.nf was read by any check: the file names the orchestration
script globs for, the directory they are published into, and the way `--excludes=a,b` reaches `select_next_plate
--batch-plate-id a b` were only re-implemented by harness/fake_nextflow.  This reader extracts exactly those facts from the
DECLARATIVE parts of the module / workflow / config files and writes them to coq/theories/Generated/SrcNfOutputs.v, where
Proofs/C19Nf.v ties them to the model's file kinds and to the globs of the translated helpers.  It accepts only the literal shapes
listed below and raises Refused on anything else (a refused reader = a generated file that does not compile = broken obligations
of the theorems about it, nothing else).

Read, per module nextflow/modules/nf-core/batchie/<m>/main.nf (the six whose outputs the script globs for):
  process NAME {                                   exactly one
  prefix = task.ext.prefix ?: "${meta.id}"         exactly one: the directory level the script globs as '*'
  output: ... when:                                each line is `tuple val(meta), path|file("${prefix}/PATTERN") , emit: x`  -> a
                                                   published pattern; `tuple val(meta), env(X), emit: x` and `path "versions.yml",
                                                   emit: versions` publish nothing the script looks for; any other line: refused
  script block                                     the options `--output|--training-output|--test-output [\"]${prefix}/NAME[\"]`: the file
                                                   names actually written (${var} inside NAME stands for a number: rendered as 0);
                                                   every published pattern must match (fnmatch) at least one written name
Config: every nextflow/config/*.config that sets publishDir sets it to { "${params.outdir}" }; the two example configs do.
Excludes chain:
  workflows/.../next_batch_plate/main.nf           def excludes = params.excludes == null ? [] : params.excludes.toString().tokenize('<sep>')
                                                   and `excludes` is element 6 of the `input = tuple(...)` the sub-workflow receives
  subworkflows/.../select_next_batch_plate/main.nf  ch_input.map { tuple(it[0], it[1], it[6]) }.join(CALCULATE_SCORE_CHUNK.out.score_chunk
                                                   .groupTuple()).tap { select_next_plate_input }; SELECT_NEXT_PLATE( select_next_plate_input )
  modules/.../select_next_plate/main.nf            input: tuple val(meta), path(data), val(excludes), path(scores);
                                                   def exclude_flag = excludes != null && excludes.join(" ").trim() != "" ?
                                                   "<flag> ${excludes.join("<sep2>")}" : ""   and ${exclude_flag} inside the command
Script globs: the (file name -> kind) association is taken from the primitives of the C19 helper configurations in
harness/src_functions.py - the very patterns the translation matches against the script's text (a changed glob in the script
refuses the translation), so the generated list is what the linked helpers glob for.
"""
import fnmatch
import os
import re


class Refused(Exception):
    pass


MODULE_DIR = "nextflow/modules/nf-core/batchie"
MODULES = ["prepare_retrospective_simulation", "train_model", "calculate_distance_matrix_chunk", "select_next_plate", "reveal_plate",
           "extract_screen_metadata"]
PREFIX_LINE = 'prefix = task.ext.prefix ?: "${meta.id}"'
PUBLISH_VALUE = '{ "${params.outdir}" }'


def _read(repo, rel):
    try:
        with open(os.path.join(repo, rel)) as f:
            return f.read()
    except OSError as e:
        raise Refused("cannot read %s: %s" % (rel, e))


def read_module(repo, m):
    rel = "%s/%s/main.nf" % (MODULE_DIR, m)
    txt = _read(repo, rel)
    procs = re.findall(r"(?m)^process\s+(\w+)\s*\{", txt)
    if len(procs) != 1:
        raise Refused("%s: expected exactly one process, found %r" % (rel, procs))
    if txt.count(PREFIX_LINE) != 1 or len(re.findall(r"(?m)^\s*prefix\s*=", txt)) != 1:
        raise Refused("%s: the publication prefix is not the single line `%s`" % (rel, PREFIX_LINE))
    mo = re.search(r"(?ms)^\s*output:\s*\n(.*?)^\s*when:\s*$", txt)
    if not mo:
        raise Refused("%s: no output: ... when: block" % rel)
    pats = []
    for ln in mo.group(1).splitlines():
        ln = ln.strip()
        if not ln or ln.startswith("//"):
            continue
        m1 = re.fullmatch(r'tuple val\(meta\), (?:path|file)\("\$\{prefix\}/([^"$/]+)"\)\s*, emit: (\w+)', ln)
        if m1:
            pats.append(m1.group(1))
            continue
        if re.fullmatch(r"tuple val\(meta\), env\(\w+\)\s*, emit: \w+", ln) or re.fullmatch(r'path\s+"versions\.yml"\s*, emit: versions', ln):
            continue
        raise Refused("%s: output line outside the accepted shapes: %s" % (rel, ln))
    ms = re.search(r'(?ms)^\s*script:\s*\n(.*)$', txt)
    if not ms:
        raise Refused("%s: no script: block" % rel)
    written = [re.sub(r"\$\{\w+\}", "0", w) for w in
               re.findall(r'--(?:output|training-output|test-output)\s+"?\$\{prefix\}/([^\s"\\]+)"?', ms.group(1))]
    if not written:
        raise Refused("%s: the script block writes no ${prefix}/... file through an --output option" % rel)
    out = []
    for p in pats:
        ws = [w for w in written if fnmatch.fnmatchcase(w, p)]
        if not ws:
            raise Refused("%s: output pattern %r matches none of the files the script block writes %r" % (rel, p, written))
        out.append((procs[0], p, ws[0]))
    if not out:
        raise Refused("%s: publishes no file" % rel)
    return out, ms.group(1), txt


def read_publish_dirs(repo):
    d = os.path.join(repo, "nextflow/config")
    try:
        names = sorted(n for n in os.listdir(d) if n.endswith(".config"))
    except OSError as e:
        raise Refused("cannot list nextflow/config: %s" % e)
    res = []
    for n in names:
        txt = _read(repo, "nextflow/config/" + n)
        vals = re.findall(r"(?m)^\s*publishDir\s*=\s*(.*?)\s*$", txt)
        if len(vals) > 1:
            raise Refused("nextflow/config/%s sets publishDir %d times" % (n, len(vals)))
        if vals:
            res.append((n, vals[0]))
    for need in ("example_retrospective.config", "example_prospective.config"):
        if need not in [n for n, _ in res]:
            raise Refused("nextflow/config/%s does not set publishDir" % need)
    return res


def _split_top(s):
    parts, depth, cur = [], 0, ""
    for ch in s:
        if ch in "([{":
            depth += 1
        elif ch in ")]}":
            depth -= 1
        if ch == "," and depth == 0:
            parts.append(cur)
            cur = ""
        else:
            cur += ch
    parts.append(cur)
    return [re.sub(r"//.*", "", p).strip() for p in parts]


def read_excludes_chain(repo, select_script, select_txt):
    wf = _read(repo, "nextflow/workflows/nf-core/batchie/next_batch_plate/main.nf")
    m = re.findall(r"(?m)^\s*def excludes = params\.excludes == null \? \[\] : params\.excludes\.toString\(\)\.tokenize\('(.)'\)\s*$", wf)
    if len(m) != 1 or len(re.findall(r"\bexcludes\s*=(?!=)", wf)) != 1:
        raise Refused("next_batch_plate/main.nf: `excludes` is not the single tokenize of params.excludes")
    sep = m[0]
    mi = re.search(r"(?s)\binput = tuple\((.*?)\n\s*\)\n", wf)
    if not mi:
        raise Refused("next_batch_plate/main.nf: no `input = tuple(...)`")
    elems = _split_top(re.sub(r"(?m)//.*$", "", mi.group(1)))
    if "excludes" not in elems or elems.count("excludes") != 1:
        raise Refused("next_batch_plate/main.nf: `excludes` is not an element of the input tuple: %r" % (elems,))
    idx = elems.index("excludes")
    if not re.search(r"SELECT_NEXT_BATCH_PLATE\s*\(\s*ch_input\s*\)", wf) or "ch_input = Channel.fromList([input])" not in wf:
        raise Refused("next_batch_plate/main.nf: the input tuple is not what SELECT_NEXT_BATCH_PLATE receives")
    sw = _read(repo, "nextflow/subworkflows/nf-core/batchie/select_next_batch_plate/main.nf")
    ms = re.findall(r"ch_input\.map \{ tuple\(([^)]*)\) \}\s*\.join\(CALCULATE_SCORE_CHUNK\.out\.score_chunk\.groupTuple\(\)\)\s*\.tap \{ select_next_plate_input \}", sw)
    if len(ms) != 1 or len(re.findall(r"select_next_plate_input", sw)) != 2 or not re.search(r"SELECT_NEXT_PLATE\(\s*select_next_plate_input\s*\)", sw):
        raise Refused("select_next_batch_plate/main.nf: select_next_plate_input is not the accepted map / join / tap fed to SELECT_NEXT_PLATE")
    picks = []
    for a in ms[0].split(","):
        mm = re.fullmatch(r"\s*it\[(\d+)\]\s*", a)
        if not mm:
            raise Refused("select_next_batch_plate/main.nf: tuple element %r is not it[k]" % a)
        picks.append(int(mm.group(1)))
    mi = re.search(r"(?m)^\s*input:\s*\n\s*tuple (.*)$", select_txt)
    if not mi:
        raise Refused("select_next_plate/main.nf: no input: tuple")
    ins = []
    for a in _split_top(mi.group(1)):
        mm = re.fullmatch(r"(?:val|path)\((\w+)\)", a)
        if not mm:
            raise Refused("select_next_plate/main.nf: input element %r" % a)
        ins.append(mm.group(1))
    mf = re.findall(r'(?m)^\s*def exclude_flag = excludes != null && excludes\.join\(" "\)\.trim\(\) != "" \? "(\S+) \$\{excludes\.join\("(.)"\)\}" : ""\s*$', select_txt)
    if len(mf) != 1 or len(re.findall(r"\bexclude_flag\b", select_txt)) != 2:
        raise Refused("select_next_plate/main.nf: exclude_flag is not the accepted conditional, used once")
    mc = re.search(r"(?s)select_next_plate --data \$\{data\}(.*?)\n\s*\n", select_script)
    if not mc or "${exclude_flag}" not in mc.group(1):
        raise Refused("select_next_plate/main.nf: ${exclude_flag} is not part of the select_next_plate command")
    return dict(sep=sep, index=idx, picks=picks, inputs=ins, flag=mf[0][0], join=mf[0][1])


KIND_CODES = {"KTraining": 0, "KTest": 1, "KThetas": 2, "KDist": 3, "KSelected": 4, "KAdvanced": 5, "KMeta": 6}


def script_globs():
    """(file name pattern the script globs for, kind code, directory levels between the job directory and the file) from the
    primitives of the C19 helper configurations"""
    import src_functions as sf
    res = []
    for cfg in (sf.C19_GET_SCREEN, sf.C19_VALIDATE, sf.C19_GET_TEST_SCREEN, sf.C19_GET_THETAS, sf.C19_GET_SELECTED, sf.C19_VALIDATE_INITIAL):
        for pr in cfg["prims"]:
            pat, tmpl = pr[0], pr[1]
            m = re.fullmatch(r"list\(glob\.glob\(os\.path\.join\(output_dir, (.*)\)\)\)", pat)
            if not m:
                continue
            comps = [c.strip() for c in m.group(1).split(",")]
            if not all(re.fullmatch(r"'[^']*'", c) for c in comps):
                raise Refused("glob primitive of %s with a non-literal component: %s" % (cfg["name"], pat))
            comps = [c[1:-1] for c in comps]
            mk = re.search(r"\bK(?:Training|Test|Thetas|Dist|Selected|Advanced|Meta)\b", tmpl)
            kind = mk.group(0) if mk else "KMeta" if "glob_meta" in tmpl else "KSelected" if "glob_selected" in tmpl else None
            if kind is None:
                raise Refused("glob primitive of %s: no file kind in its template %s" % (cfg["name"], tmpl))
            dirs = comps[:-1]
            if dirs not in (["*"], ["plate_*", "*"]):
                raise Refused("glob primitive of %s: directory levels %r" % (cfg["name"], dirs))
            item = (comps[-1], KIND_CODES[kind], len(dirs))
            if item not in res:
                res.append(item)
    return res


def read_all(repo):
    outs = []
    sel = None
    for m in MODULES:
        o, script, txt = read_module(repo, m)
        outs += o
        if m == "select_next_plate":
            sel = (script, txt)
    return dict(outputs=outs, publish=read_publish_dirs(repo), excludes=read_excludes_chain(repo, sel[0], sel[1]), globs=script_globs())


def published_names(repo):
    """kind name of the fake -> the file name the modules write (for the fake nextflow of harness/c19.py)"""
    r = read_all(repo)
    by = {}
    want = {"training": "training.screen.h5", "test": "test.screen.h5", "thetas": "thetas*.h5", "dist": "distance_matrix_chunk*.h5",
            "selected": "selected_plate", "advanced": "advanced_screen.h5", "meta": "screen_metadata.json"}
    order = {"training": ("PREPARE_RETROSPECTIVE_SIMULATION", 0), "test": ("PREPARE_RETROSPECTIVE_SIMULATION", 1), "thetas": ("TRAIN_MODEL", 0),
             "dist": ("CALCULATE_DISTANCE_MATRIX_CHUNK", 0), "selected": ("SELECT_NEXT_PLATE", 0), "advanced": ("REVEAL_PLATE", 0),
             "meta": ("EXTRACT_SCREEN_METADATA", 0)}
    for k, (proc, i) in order.items():
        mine = [w for p, _pat, w in r["outputs"] if p == proc]
        if i >= len(mine):
            raise Refused("%s publishes %d files, expected at least %d" % (proc, len(mine), i + 1))
        by[k] = mine[i]
    return by, want


def _q(s):
    return '"' + s.replace('"', '""') + '"'


def gallina(repo):
    r = read_all(repo)
    e = r["excludes"]
    L = ["(* GENERATED by harness/gen_consts.py + nf_reader.py from /repo's nextflow/ files on every run. Do not edit. *)",
         "From Coq Require Import ZArith List String.", "Import ListNotations.", "Open Scope string_scope.", "",
         "(* (process, pattern its output: block publishes under ${prefix}/, a file name its script block writes that the pattern matches) *)",
         "Definition nf_outputs : list (string * string * string) := ["]
    L.append(";\n".join("  (%s, %s, %s)" % (_q(p), _q(pat), _q(w)) for p, pat, w in r["outputs"]))
    L += ["].", "", "(* every module sets prefix = task.ext.prefix ?: \"${meta.id}\" (checked by the reader): the directory level the script globs as '*' *)",
          "Definition nf_prefix : string := %s." % _q("${meta.id}"), "",
          "(* (config file, its publishDir setting) for every nextflow/config/*.config that has one *)",
          "Definition nf_publish_dirs : list (string * string) := ["]
    L.append(";\n".join("  (%s, %s)" % (_q(n), _q(v)) for n, v in r["publish"]))
    L += ["].", "", "(* the excludes chain: tokenize separator, index of `excludes` in the sub-workflow's input tuple, the it[k] picked for",
          "   SELECT_NEXT_PLATE's input (the scores are joined on after them), the module's input names, the flag and the join separator *)",
          "Definition nf_excludes_tokenize : string := %s." % _q(e["sep"]),
          "Definition nf_excludes_index : Z := %d%%Z." % e["index"],
          "Definition nf_select_picks : list Z := [%s]%%Z." % "; ".join(str(x) for x in e["picks"]),
          "Definition nf_select_inputs : list string := [%s]." % "; ".join(_q(x) for x in e["inputs"]),
          "Definition nf_excludes_flag : string := %s." % _q(e["flag"]),
          "Definition nf_excludes_join : string := %s." % _q(e["join"]), "",
          "(* what the translated helpers of the script glob for: (file name pattern, kind code 0..6 as in Run/RunC19.v, directory levels) *)",
          "Definition script_globs : list (string * Z * nat) := ["]
    L.append(";\n".join("  (%s, %d%%Z, %d%%nat)" % (_q(p), k, d) for p, k, d in r["globs"]))
    L += ["].", ""]
    return "\n".join(L)


if __name__ == "__main__":
    import sys
    print(gallina(sys.argv[1] if len(sys.argv) > 1 else "/repo"))
