"""Shared by C03 and C12: prepared simulations and lifecycle histories on the REAL code.

A simulation description (JSON-able):
  dict(kind="sim", parent=<screen description, see screenlib>, fraction=float, seed=int, test=bool,
       ops=[["reveal", [ids]] | ["mask"] | ["unmask"] | ["saveload"] | ["cli_reveal", [ids]] | ["meta_cli"]
            | ["setobs", [bool...], [float...]]])
The parent is built by the real constructor, split by the real
create_plate_balanced_holdout_set_among_masked_plates with a recording generator, and the operations are
applied one after the other by the real functions; an operation that raises leaves the current screen
unchanged.  Every stage is canonicalised immediately (set_observed mutates arrays in place).
"""
import json
import os
import shutil
import sys
import tempfile

import numpy as np

import common
import screenlib as sl
from common import ImplError, impl_call

SKIP = "skip"  # a stage of the model's trace that the implementation does not expose


class RecordingRng:
    """wraps a numpy Generator; logs every choice/permutation call and result"""

    def __init__(self, g):
        self.g = g
        self.log = []

    def choice(self, a, size=None, replace=True, **kw):
        r = self.g.choice(a, size, replace=replace, **kw)
        self.log.append(("choice", [int(x) for x in np.asarray(a).tolist()], None if size is None else int(size), bool(replace),
                         [int(x) for x in np.atleast_1d(r).tolist()]))
        return r

    def permutation(self, x):
        r = self.g.permutation(x)
        self.log.append(("permutation", None, None, None, [int(v) for v in np.asarray(r).tolist()]))
        return r

    def __getattr__(self, k):
        raise AttributeError("generator method %s is not expected in the hold-out code" % k)


def tmpdir():
    os.makedirs(common.WORK, exist_ok=True)
    return tempfile.mkdtemp(dir=common.WORK)


def detect_variant():
    """which of reveal_plates / mask_screen / unmask_screen pass the parent's mappings on, observed on a probe"""
    global _VARIANT
    if _VARIANT is None:
        from batchie.retrospective import mask_screen, reveal_plates, unmask_screen

        p = sl.build(PROBE_PARENT)
        want = (sl.canon_tmap(p.treatment_mapping), sl.canon_nmap(p.sample_mapping))
        out = []
        for f in (lambda s: reveal_plates(s, [0]), mask_screen, unmask_screen):
            q = f(p)
            out.append((sl.canon_tmap(q.treatment_mapping), sl.canon_nmap(q.sample_mapping)) == want)
        _VARIANT = out
    return list(_VARIANT)


_VARIANT = None
# the DESIGN section 6 probe: mapping lists sample 'a' and treatment ('x', 1.0) that no row uses
PROBE_PARENT = dict(
    rows=[dict(s="b", p="p", t=[["y", 1.0]], o=0.5, m=False), dict(s="b", p="p", t=[["y", 1.0]], o=0.25, m=False),
          dict(s="c", p="q", t=[["z", 2.0]], o=0.5, m=True), dict(s="c", p="q", t=[["z", 2.0]], o=0.75, m=True)],
    arity=1, ctrl="", obs_given=True, mask_given=True,
    tmap=dict(rows=[["x", 1.0, 0], ["y", 1.0, 1], ["z", 2.0, 2]], isint=True),
    smap=dict(rows=[["a", 0], ["b", 1], ["c", 2]], isint=True))


def metadata(s):
    """the counters of extract_screen_metadata, computed through the same API calls"""
    n_obs = n_unobs = 0
    for plate in s.plates:
        if plate.is_observed:
            n_obs += 1
        else:
            n_unobs += 1
    return [int(s.size), int(s.n_plates), n_unobs, n_obs, int(s.n_unique_samples), int(s.n_unique_treatments)]


def cli_metadata(path_screen, d):
    from batchie.cli import extract_screen_metadata

    out = os.path.join(d, "meta.json")
    old = sys.argv
    sys.argv = ["extract_screen_metadata", "--screen", path_screen, "--output", out]
    try:
        common.run_cli_main(extract_screen_metadata, sys.argv)
    finally:
        sys.argv = old
    j = json.load(open(out))
    return [int(j["size"]), int(j["n_plates"]), int(j["n_unobserved_plates"]), int(j["n_observed_plates"]),
            int(j["n_unique_samples"]), int(j["n_unique_treatments"])]


def cli_reveal(path_in, path_out, ids):
    from batchie.cli import reveal_plate

    old = sys.argv
    sys.argv = ["reveal_plate", "--screen", path_in, "--output", path_out, "--plate-id"] + [str(int(i)) for i in ids]
    try:
        common.run_cli_main(reveal_plate, sys.argv)
    finally:
        sys.argv = old


def split(desc):
    """parent, (train, test), selection vector, rng log  -- all from the real code"""
    from batchie.retrospective import create_plate_balanced_holdout_set_among_masked_plates

    parent = sl.build(desc["parent"])
    rng = RecordingRng(np.random.default_rng(desc["seed"]))
    train, test = create_plate_balanced_holdout_set_among_masked_plates(parent, desc["fraction"], rng)
    sel = [False] * parent.size
    contract = None
    for meth, pool, size, replace, res in rng.log:
        if meth != "choice" or replace or len(set(res)) != len(res) or not set(res) <= set(pool) or len(res) != size:
            contract = "rng.choice contract violated: %r" % ((meth, pool, size, replace, res),)
        for i in res:
            sel[i] = True
    return parent, train, test, sel, contract


class Stage:
    """one observed stage of a history"""

    def __init__(self, op, screen, err=None, before=None, extra=None):
        self.op = op          # the description-level op that produced it (None for parent/train/test)
        self.screen = screen  # real Screen after the op (the unchanged one if the op raised)
        self.err = err        # ImplError if the op raised
        self.before = before  # snapshot (dict) of the screen before the op
        self.extra = extra or {}


def snapshot(s):
    """value snapshot of the arrays a later in-place mutation could change"""
    return dict(mask=[bool(x) for x in s.observation_mask], obs=[sl.obs_bits(x) for x in s.observations],
                plates=[str(x) for x in s.plate_names], pids=[int(x) for x in s.plate_ids],
                samples=[str(x) for x in s.sample_names],
                treats=[[[str(n), common.float_key(x)] for n, x in zip(rn, rd)] for rn, rd in zip(s.treatment_names, s.treatment_doses)],
                sids=[int(x) for x in s.sample_ids],
                tids=[[int(x) for x in r] for r in np.asarray(s.treatment_ids).reshape(s.size, s.treatment_names.shape[1]).tolist()],
                tmap=sl.canon_tmap(s.treatment_mapping), smap=sl.canon_nmap(s.sample_mapping), meta=metadata(s))


def model_ops(desc_ops, empty):
    """description-level ops -> wire ops of the model, and for every wire op the index of the observed stage it
    corresponds to (or None when the implementation does not expose that intermediate state)"""
    wire, owner = [], []
    for k, o in enumerate(desc_ops):
        t = o[0]
        if t == "reveal":
            wire.append([0, [int(i) for i in o[1]]]); owner.append((k, "final"))
        elif t == "mask":
            wire.append([1]); owner.append((k, "final"))
        elif t == "unmask":
            wire.append([2]); owner.append((k, "final"))
        elif t == "saveload":
            if not empty:
                wire.append([3]); owner.append((k, "final"))
        elif t == "cli_reveal":
            if not empty:
                wire.append([3]); owner.append((k, "loaded"))
                wire.append([0, [int(i) for i in o[1]]]); owner.append((k, "hidden"))
                wire.append([3]); owner.append((k, "final"))
        elif t == "meta_cli":
            if not empty:
                wire.append([3]); owner.append((k, "final"))
        elif t == "setobs":
            wire.append([4, [bool(b) for b in o[1]], [sl.obs_bits(x) for x in o[2]]]); owner.append((k, "final"))
        else:
            raise ValueError(t)
    return wire, owner


def run_history(desc, canon, want_meta_cli=True):
    """run the whole simulation on the real code.
    returns dict(parent, train, test, sel, stages=[per wire op: canon value | ImplError | SKIP], snaps=[...], contract)"""
    from batchie.data import Screen
    from batchie.retrospective import mask_screen, reveal_plates, unmask_screen

    parent, train, test, sel, contract = split(desc)
    cur = test if desc["test"] else train
    empty = cur.size == 0
    ops = concretise(desc["ops"], cur.size)
    wire_ops, owner = model_ops(ops, empty)
    # canonicalise the three starting screens NOW: derived screens share their observation array with the
    # screen they were built from, so a later in-place set_observed would show through
    start = dict(parent=canon(parent), train=canon(train), test=canon(test))
    snaps = dict(parent=snapshot(parent), train=snapshot(train), test=snapshot(test))
    out = []       # aligned with wire_ops
    events = []    # (op, before snapshot, after snapshot | None, error | None, extra)
    d = tmpdir()
    try:
        for k, o in enumerate(ops):
            t = o[0]
            before = snapshot(cur)
            extra = {}
            if t in ("saveload", "cli_reveal", "meta_cli") and empty:
                continue  # h5 cannot store an empty screen built from empty arrays; outside the model (C02)
            if t == "reveal":
                r = impl_call(reveal_plates, cur, [int(i) for i in o[1]])
            elif t == "mask":
                r = impl_call(mask_screen, cur)
            elif t == "unmask":
                r = impl_call(unmask_screen, cur)
            elif t == "saveload":
                def sl_():
                    p = os.path.join(d, "s%d.h5" % k)
                    cur.save_h5(p)
                    return Screen.load_h5(p)
                r = impl_call(sl_)
            elif t == "meta_cli":
                def mc():
                    p = os.path.join(d, "s%d.h5" % k)
                    cur.save_h5(p)
                    extra["cli_meta"] = cli_metadata(p, d)
                    return Screen.load_h5(p)
                r = impl_call(mc)
            elif t == "cli_reveal":
                pin, pout = os.path.join(d, "i%d.h5" % k), os.path.join(d, "o%d.h5" % k)
                cur.save_h5(pin)
                loaded = impl_call(Screen.load_h5, pin)
                if isinstance(loaded, ImplError):   # e.g. a plate left mixed by set_observed: main() fails at the same load
                    out.extend([loaded, SKIP, SKIP])
                    events.append((["saveload"], before, None, loaded, extra))
                    continue
                out.append(canon(loaded))
                extra["loaded"] = snapshot(loaded)

                def cr():
                    cli_reveal(pin, pout, o[1])
                    return Screen.load_h5(pout)
                r = impl_call(cr)
                if isinstance(r, ImplError):
                    out.append(r)       # the reveal inside main() refused
                    out.append(SKIP)    # nothing was written
                    cur = loaded
                else:
                    out.append(SKIP)    # state between reveal and save is not exposed
                    out.append(canon(r))
                    cur = r
                events.append((o, before, None if isinstance(r, ImplError) else snapshot(r), r if isinstance(r, ImplError) else None, extra))
                continue
            elif t == "setobs":
                def so():
                    cur.set_observed(np.array(o[1], dtype=bool), np.array(o[2], dtype=float))
                    return cur
                r = impl_call(so)
            else:
                raise ValueError(t)
            if isinstance(r, ImplError):
                out.append(r)
                events.append((o, before, None, r, extra))
            else:
                cur = r
                out.append(canon(cur))
                events.append((o, before, snapshot(cur), None, extra))
    finally:
        shutil.rmtree(d, ignore_errors=True)
    assert len(out) == len(wire_ops), (len(out), len(wire_ops))
    return dict(parent=parent, train=train, test=test, sel=sel, contract=contract, wire_ops=wire_ops,
                stages=out, events=events, empty=empty, start=start, snaps=snaps)


def wire_sim(desc, h, variant=None):
    v = detect_variant() if variant is None else variant
    return [[bool(x) for x in v], sl.wire_mk_args(desc["parent"]), [bool(b) for b in h["sel"]], bool(desc["test"]), h["wire_ops"]]


ERR_TAGS = {"All revealed observations were 0": 8, "NaN found in revealed": 9, "mixture of observed": 2,
            "boolean index did not match": 10, "cannot assign": 11}


def impl_tag(e):
    for k, v in ERR_TAGS.items():
        if k in e.msg:
            return v
    return None


def cmp_sim(m, impl):
    """model output of run_sim vs dict(parent, train, test, stages)"""
    if isinstance(m, str):
        return "model driver failure: " + m
    if not common.is_ok(m):
        return "model refuses the parent / split (%r) but the implementation built them" % (common.short(m),)
    mp, mtr, mte, mtrace = m[1]
    for nm, a, b in (("parent", mp, impl["parent"]), ("train", mtr, impl["train"]), ("test", mte, impl["test"])):
        if a != b:
            return "%s screen differs: %s" % (nm, first_diff(a, b))
    if len(mtrace) != len(impl["stages"]):
        return "trace lengths differ: model %d impl %d" % (len(mtrace), len(impl["stages"]))
    for k, (a, b) in enumerate(zip(mtrace, impl["stages"])):
        if b == SKIP:
            continue
        if isinstance(b, ImplError) or (isinstance(b, dict) and "err" in b):
            if not common.is_err(a):
                return "op %d: implementation raised %r but the model returned a screen" % (k, b)
            tag = impl_tag(b) if isinstance(b, ImplError) else None
            if tag is not None and tag != a[1]:
                return "op %d: implementation raised %r, model refuses with tag %s" % (k, b, a[1])
            continue
        if common.is_err(a):
            return "op %d: model refuses (tag %s) but the implementation returned a screen" % (k, a[1])
        if a[1] != b:
            return "op %d: screens differ: %s" % (k, first_diff(a[1], b))
    return None


def first_diff(a, b, path=""):
    if isinstance(a, list) and isinstance(b, list):
        if len(a) != len(b):
            return "%s: lengths %d vs %d (model %s impl %s)" % (path, len(a), len(b), common.short(a, 160), common.short(b, 160))
        for i, (x, y) in enumerate(zip(a, b)):
            if x != y:
                return first_diff(x, y, "%s[%d]" % (path, i))
        return None
    return "%s: model %s impl %s" % (path, common.short(a, 160), common.short(b, 160))


# --------------------------------------------------------------------------- generators

OBS = [0.25, 0.5, 1.0, 0.125, 0.75, 2.0 ** -1074, 0.3, 1.5, -0.5]


def gen_parent(rng, small=False):
    """a parent screen: plates with uniform masks (most unobserved), names partly confined to one plate so that
    a sample / (treatment, dose) can end up only in held-out rows; some plates all-zero, some with NaN / -0.0"""
    ctrl = rng.choice(sl.CTRLS)
    arity = rng.choice([1, 2, 2, 3])
    n_pl = rng.choice([1, 2, 3, 3, 4, 5]) if not small else rng.choice([2, 3])
    plates = rng.sample(["p0", "p1", "", "é", "q", "B", "init"], n_pl)
    samples = rng.sample(sl.NAMES, rng.randint(1, 4))
    names = rng.sample(sl.NAMES, rng.randint(1, 4)) + [ctrl]
    doses = rng.sample(sl.DOSES, rng.randint(1, 4))
    rows = []
    some_observed = rng.random() < 0.6
    for j, p in enumerate(plates):
        observed = (j == 0 and some_observed) or rng.random() < 0.15
        size = rng.choice([1, 1, 2, 2, 3, 4]) if not small else rng.choice([1, 2])
        own_s = rng.choice(sl.NAMES) if rng.random() < 0.5 else None       # sample confined to this plate
        own_t = [rng.choice(sl.NAMES), rng.choice(sl.DOSES)] if rng.random() < 0.5 else None
        flavour = rng.random()
        for _ in range(size):
            t = [[rng.choice(names), rng.choice(doses)] for _ in range(arity)]
            if own_t is not None and rng.random() < 0.6:
                t[rng.randrange(arity)] = list(own_t)
            if flavour < 0.10:
                o = rng.choice([0.0, -0.0])
            elif flavour < 0.22:
                o = rng.choice([float("nan"), float("nan"), 0.5, 0.0])
            elif flavour < 0.30:
                o = rng.choice([float("inf"), 0.0, -0.0, 0.25])
            else:
                o = rng.choice(OBS + [0.0])
            rows.append(dict(s=own_s if (own_s is not None and rng.random() < 0.7) else rng.choice(samples), p=p, t=t, o=o, m=observed))
    rng.shuffle(rows)
    return dict(rows=rows, arity=arity, ctrl=ctrl, obs_given=True, mask_given=True, tmap=None, smap=None)


def gen_walk(rng, cli=True):
    """reveal the plates one or two at a time in a random order, sometimes naming an earlier plate again,
    with a save+load / CLI step in between: the way a retrospective simulation advances"""
    pool = list(range(rng.choice([2, 3, 4, 5])))
    rng.shuffle(pool)
    ops, done = [], []
    while pool and len(ops) < 6:
        k = rng.choice([1, 1, 2])
        ids, pool = pool[:k], pool[k:]
        if done and rng.random() < 0.3:
            ids = ids + [rng.choice(done)]
        done += ids
        ops.append(["cli_reveal" if (cli and rng.random() < 0.25) else "reveal", ids])
        if len(ops) < 6 and rng.random() < 0.3:
            ops.append(["saveload"])
    return ops[:6]


def gen_ops(rng, with_setobs=False, cli=True, maxlen=6):
    if rng.random() < 0.3:
        return gen_walk(rng, cli)
    n = rng.choice([0, 1, 2, 2, 3, 3, 4, 5, 6])
    n = min(n, maxlen)
    ops = []
    for _ in range(n):
        x = rng.random()
        if x < 0.45:
            k = rng.choice([0, 1, 1, 1, 1, 1, 1, 1, 2, 2, 2, 3])
            ids = [rng.choice([0] * 8 + [1] * 7 + [2] * 4 + [3, 3, 4, 99, -3]) for _ in range(k)]
            if cli and rng.random() < 0.12 and ids and min(ids) >= 0:
                ops.append(["cli_reveal", ids])
            else:
                ops.append(["reveal", ids])
        elif x < 0.58:
            ops.append(["mask"])
        elif x < 0.70:
            ops.append(["unmask"])
        elif x < 0.88 or not with_setobs:
            ops.append(["meta_cli"] if (with_setobs and cli and rng.random() < 0.3) else ["saveload"])
        else:
            ops.append(["setobs", [rng.random() < 0.4 for _ in range(16)], [rng.choice(OBS + [0.0, -0.0]) for _ in range(18)],
                        rng.choice(["exact"] * 6 + ["broadcast", "broadcast", "short", "long", "badlen"])])
    return ops


def concretise(desc_ops, size):
    """set_observed operations are described relative to the (not yet known) size of the half they run on:
    ["setobs", pattern, values, mode]; the selection is the pattern cut to the size (+-1 for mode 'badlen'),
    the values are cut to the number selected ('exact'), to one ('broadcast'), or to a wrong count ('short'/'long')"""
    out = []
    for o in desc_ops:
        if o[0] != "setobs":
            out.append(o)
            continue
        _, pattern, values, mode = o
        n = size + 1 if mode == "badlen" else size
        sel = [bool(pattern[i % len(pattern)]) for i in range(n)]
        k = sum(sel)
        if mode == "broadcast":
            vals = values[:1]
        elif mode == "short":
            vals = values[:max(0, k - 1)]
        elif mode == "long":
            vals = values[:k + 1]
        else:
            vals = values[:k]
        out.append(["setobs", sel, [float(x) for x in vals]])
    return out
