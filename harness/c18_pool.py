"""Launcher of the C18 hash-seed workers.  Started ONCE by harness/c18.py before any case runs; reads a JSON list of
operation descriptions on stdin, runs each in two fresh interpreters (c18_worker.py, PYTHONHASHSEED 101 / 202), eight
pairs at a time, and prints one JSON line {"key": ..., "outs": [...]} per description as it completes.
It exists so that the checking process itself never forks while it has HDF5 files open: a child forked at that moment
inherits the descriptor with its flock until exec, and the parent's next open of the file fails with EAGAIN
("unable to lock file") - observed once in 8000 cases as a spurious 'different outputs' report."""
import json
import os
import subprocess
import sys
from concurrent.futures import ThreadPoolExecutor, as_completed

HERE = os.path.dirname(os.path.abspath(__file__))
HASH_SEEDS = ("101", "202")


def run_pair(core):
    procs = []
    for i, hs in enumerate(HASH_SEEDS):
        env = dict(os.environ, PYTHONHASHSEED=hs, C18_WORKER_DELAY="1.1" if i else "0")
        procs.append(subprocess.Popen([sys.executable, "-W", "ignore", os.path.join(HERE, "c18_worker.py")],
                                      stdin=subprocess.PIPE, stdout=subprocess.PIPE, stderr=subprocess.PIPE, env=env, text=True))
    outs = []
    for pr in procs:
        try:
            so, se = pr.communicate(json.dumps(core), timeout=300)
        except subprocess.TimeoutExpired:
            pr.kill()
            so, se = "", "timeout"
        line = [l for l in so.splitlines() if l.startswith("OUT:")]
        outs.append(line[0][4:] if line else "worker failed: " + se[-300:])
    return outs


def main():
    cores = json.load(sys.stdin)
    with ThreadPoolExecutor(max_workers=int(os.environ.get("C18_POOL", "8"))) as ex:
        futs = {ex.submit(run_pair, c): c for c in cores}
        for f in as_completed(futs):
            print(json.dumps(dict(key=json.dumps(futs[f], sort_keys=True), outs=f.result())), flush=True)


if __name__ == "__main__":
    main()
