"""Fail-closed reader of the argparse option tables of the command-line wrappers (`get_parser()` of src/batchie/cli/<command>.py).

The get_parser functions are declarative; they are outside py2gal's fragment and need not be in it.  This reader accepts ONLY

    def get_parser():                                   # no parameters, no decorators, no docstring
        parser = argparse.ArgumentParser(description=<string literal>)
        log_config.add_logging_args(parser)             # read the same way from src/batchie/log_config.py
        parser.add_argument(<flag literals>, <keywords>)
        ...
        return parser

in any order of the middle statements (the order of declaration is kept).  The keywords of add_argument it reads:
    type     one of the names int / float / str / str_to_bool
    default  a literal: None, True / False, an int, a float, a str, `list()` or `[]`
    required True / False
    action   "store" / "store_true" / "store_false" / "append" / "count", or the name KVAppendAction
    nargs    an int literal, "+", "*", "?"
    choices  a list / tuple of literals
    dest     an identifier as a string literal
    help, metavar   string literals; display only, NOT part of the table
Everything else is REFUSED (Refused): another statement, another callee, a positional argument (a flag not beginning with `-`),
`*args` / `**kwargs`, a computed value, another keyword of add_argument or ArgumentParser (prefix_chars, parents, argument_default,
add_help, allow_abbrev, ... all change what the table means), parser.set_defaults, sub-parsers, groups.  The names the table's
meaning rests on must be what they look like: `argparse` bound by `import argparse` only, `log_config` by `from batchie import
log_config` only, KVAppendAction / str_to_bool by `from batchie.cli.argument_parsing import ...` only (and KVAppendAction there a
subclass of argparse.Action whose body is its docstring and `__call__` - the method linked as C18_model_is_source_cli_args_
kv_append_action), the builtins int / float / str / list never rebound anywhere in the module.

`dest` is derived the way argparse derives it (argparse._get_optional_kwargs): the explicit dest=, else the first flag beginning
with `--` (else the first flag), leading `-` stripped, `-` replaced by `_`.  The same derivation is a Gallina function
(Cli.opt_dest) and the theorems *_source_parser_*_dests_derived prove the two agree on every table; harness/c18_args.py compares
both with what the real parser object says.

The automatic `-h/--help` option (add_help defaults to True) stores nothing in the namespace and is not part of the table.

Output: `read_parser(repo, command)` -> list of option dicts; `gallina(repo, command)` -> the text of
Generated/SrcParser_<command>.v (`Definition src_parser_<command> : list Cli.argopt`)."""
import ast
import os
from fractions import Fraction


class Refused(Exception):
    pass


COMMANDS = ["calculate_scores", "select_next_plate", "train_model", "prepare_retrospective_simulation", "reveal_plate",
            "extract_screen_metadata", "calculate_distance_matrix", "evaluate_model", "analyze_model_evaluation"]

ACTIONS = {"store": "ActStore", "store_true": "ActStoreTrue", "store_false": "ActStoreFalse", "append": "ActAppend", "count": "ActCount"}
TYPES = {"int": "TInt", "float": "TFloat", "str": "TStr", "str_to_bool": "TStrToBool"}
NARGS = {"+": "NPlus", "*": "NStar", "?": "NOpt"}
BUILTINS = ("int", "float", "str", "list")
ARGPARSING = "batchie.cli.argument_parsing"


def out_name(command):
    return "SrcParser_%s.v" % command


def _src(node):
    return ast.unparse(node)[:100]


def _bindings(tree):
    """every place the module binds a name: {name: [description, ...]}"""
    b = {}

    def add(n, how):
        b.setdefault(n, []).append(how)
    for node in ast.walk(tree):
        if isinstance(node, ast.Import):
            for a in node.names:
                add(a.asname or a.name.split(".")[0], "import %s%s" % (a.name, " as " + a.asname if a.asname else ""))
        elif isinstance(node, ast.ImportFrom):
            for a in node.names:
                add(a.asname or a.name, "from %s%s import %s%s" % ("." * node.level, node.module or "", a.name, " as " + a.asname if a.asname else ""))
        elif isinstance(node, (ast.FunctionDef, ast.AsyncFunctionDef, ast.ClassDef)):
            add(node.name, "def/class")
        elif isinstance(node, ast.Name) and isinstance(node.ctx, (ast.Store, ast.Del)):
            add(node.id, "assignment")
        elif isinstance(node, ast.arg):
            add(node.arg, "parameter")
        elif isinstance(node, (ast.Global, ast.Nonlocal)):
            for n in node.names:
                add(n, "global")
        elif isinstance(node, ast.ExceptHandler) and node.name:
            add(node.name, "except-as")
        elif isinstance(node, ast.alias):
            if node.name == "*":
                add("*", "star import")
    return b


def _check_names(tree, where, used):
    b = _bindings(tree)
    if "*" in b:
        raise Refused("%s: a star import may rebind any name" % where)
    for n in BUILTINS:
        if n in b:
            raise Refused("%s: the builtin name %s is rebound (%s)" % (where, n, b[n][0]))
    want = {"argparse": ["import argparse"], "log_config": ["from batchie import log_config"],
            "KVAppendAction": ["from %s import KVAppendAction" % ARGPARSING], "str_to_bool": ["from %s import str_to_bool" % ARGPARSING]}
    for n in used:
        if n in want and b.get(n) != want[n]:
            raise Refused("%s: the name %s must be bound by `%s` and nothing else; found %r" % (where, n, want[n][0], b.get(n)))


def _literal(node, what):
    """-> Gallina term of type Cli.pylit and a python value"""
    if isinstance(node, ast.Constant):
        v = node.value
        if v is None:
            return "LNone", None
        if isinstance(v, bool):
            return "(LBool %s)" % ("true" if v else "false"), v
        if isinstance(v, int):
            return "(LInt (%d))" % v, v
        if isinstance(v, float):
            if v != v or v in (float("inf"), float("-inf")):
                raise Refused("%s: non-finite float literal" % what)
            f = Fraction(v)          # the exact value of the double
            return "(LFloat (%d) %d)" % (f.numerator, f.denominator), v
        if isinstance(v, str):
            return "(LStr %s)" % _gstr(v, what), v
    if isinstance(node, ast.UnaryOp) and isinstance(node.op, ast.USub) and isinstance(node.operand, ast.Constant) \
            and type(node.operand.value) in (int, float):
        return _literal(ast.Constant(-node.operand.value), what)
    if isinstance(node, ast.List) and not node.elts:
        return "LEmptyList", []
    if isinstance(node, ast.Call) and isinstance(node.func, ast.Name) and node.func.id == "list" and not node.args and not node.keywords:
        return "LEmptyList", []
    raise Refused("%s is not a literal the reader knows: %s" % (what, _src(node)))


def _gstr(s, what):
    if not isinstance(s, str) or any(not (32 <= ord(c) < 127) for c in s):
        raise Refused("%s: not a printable ASCII string: %r" % (what, s))
    return '(s "%s")' % s.replace('"', '""')


def derive_dest(flags, dest_kw):
    """argparse._get_optional_kwargs (prefix_chars = '-')"""
    if dest_kw is not None:
        return dest_kw
    longs = [f for f in flags if len(f) > 1 and f[1] == "-"]
    d = (longs[0] if longs else flags[0]).lstrip("-")
    return d.replace("-", "_")


def _add_argument(call, where, used):
    what = "%s line %d" % (where, call.lineno)
    if any(isinstance(a, ast.Starred) for a in call.args):
        raise Refused("%s: *args in add_argument" % what)
    flags = []
    for a in call.args:
        if not (isinstance(a, ast.Constant) and isinstance(a.value, str)):
            raise Refused("%s: a flag that is not a string literal: %s" % (what, _src(a)))
        f = a.value
        _gstr(f, what)
        if len(f) < 2 or f[0] != "-" or f.strip("-") == "" or " " in f:
            raise Refused("%s: %r is not an option flag (positional arguments are not read)" % (what, f))
        flags.append(f)
    if not flags:
        raise Refused("%s: add_argument without a flag" % what)
    o = dict(flags=flags, dest_kw=None, type=None, default=None, has_default=False, required=False, action="ActStore", nargs=None,
             choices=None, where=where, line=call.lineno)
    g = dict(type="None", default="None", nargs="None", choices="None", dest_kw="None")
    seen = set()
    for kw in call.keywords:
        k, v = kw.arg, kw.value
        if k is None:
            raise Refused("%s: **kwargs in add_argument" % what)
        if k in seen:
            raise Refused("%s: keyword %s twice" % (what, k))
        seen.add(k)
        w = "%s keyword %s" % (what, k)
        if k in ("help", "metavar"):
            if not (isinstance(v, ast.Constant) and isinstance(v.value, str)):
                raise Refused("%s is not a string literal" % w)
        elif k == "type":
            if not (isinstance(v, ast.Name) and v.id in TYPES):
                raise Refused("%s must be one of the names %s; found %s" % (w, " / ".join(TYPES), _src(v)))
            used.add(v.id)
            o["type"], g["type"] = v.id, "(Some %s)" % TYPES[v.id]
        elif k == "default":
            t, pv = _literal(v, w)
            o["default"], o["has_default"], g["default"] = pv, True, "(Some %s)" % t
        elif k == "required":
            if not (isinstance(v, ast.Constant) and isinstance(v.value, bool)):
                raise Refused("%s must be True or False" % w)
            o["required"] = v.value
        elif k == "action":
            if isinstance(v, ast.Constant) and isinstance(v.value, str) and v.value in ACTIONS:
                o["action"] = ACTIONS[v.value]
            elif isinstance(v, ast.Name) and v.id == "KVAppendAction":
                used.add("KVAppendAction")
                o["action"] = "ActKVAppend"
            else:
                raise Refused("%s must be one of %s or the name KVAppendAction; found %s" % (w, sorted(ACTIONS), _src(v)))
        elif k == "nargs":
            if isinstance(v, ast.Constant) and type(v.value) is int:
                o["nargs"], g["nargs"] = v.value, "(Some (NInt (%d)))" % v.value
            elif isinstance(v, ast.Constant) and v.value in NARGS:
                o["nargs"], g["nargs"] = v.value, "(Some %s)" % NARGS[v.value]
            else:
                raise Refused("%s must be an int literal, '+', '*' or '?'; found %s" % (w, _src(v)))
        elif k == "choices":
            if not isinstance(v, (ast.List, ast.Tuple)):
                raise Refused("%s must be a list / tuple of literals" % w)
            lits = [_literal(x, w) for x in v.elts]
            o["choices"], g["choices"] = [p for _t, p in lits], "(Some [%s])" % "; ".join(t for t, _p in lits)
        elif k == "dest":
            if not (isinstance(v, ast.Constant) and isinstance(v.value, str) and v.value.isidentifier() and v.value.isascii()):
                raise Refused("%s must be an identifier as a string literal" % w)
            o["dest_kw"], g["dest_kw"] = v.value, "(Some %s)" % _gstr(v.value, w)
        else:
            raise Refused("%s: keyword `%s` of add_argument is not read" % (what, k))
    o["dest"] = derive_dest(flags, o["dest_kw"])
    if not (o["dest"].isidentifier() and o["dest"].isascii()):
        raise Refused("%s: the derived dest %r is not an identifier" % (what, o["dest"]))
    o["gallina"] = "mk_argopt [%s] %s %s %s %s %s %s %s %s" % (
        "; ".join(_gstr(f, what) for f in flags), g["dest_kw"], _gstr(o["dest"], what), g["type"], g["default"],
        "true" if o["required"] else "false", o["action"], g["nargs"], g["choices"])
    return o


def _is_call_on(st, obj, attr):
    return (isinstance(st, ast.Expr) and isinstance(st.value, ast.Call) and isinstance(st.value.func, ast.Attribute)
            and isinstance(st.value.func.value, ast.Name) and st.value.func.value.id == obj and st.value.func.attr == attr)


def _find_def(tree, name, where):
    found = [n for n in tree.body if isinstance(n, ast.FunctionDef) and n.name == name]
    if len(found) != 1:
        raise Refused("%s: expected exactly one top-level def %s, found %d" % (where, name, len(found)))
    f = found[0]
    if f.decorator_list or f.returns is not None:
        raise Refused("%s: %s has decorators / a return annotation" % (where, name))
    a = f.args
    if a.vararg or a.kwarg or a.kwonlyargs or a.posonlyargs or a.defaults or a.kw_defaults:
        raise Refused("%s: unexpected parameter list of %s" % (where, name))
    return f


def _read_logging(repo):
    rel = "src/batchie/log_config.py"
    tree = ast.parse(open(os.path.join(repo, rel)).read())
    f = _find_def(tree, "add_logging_args", rel)
    if [x.arg for x in f.args.args] != ["parser"] or f.args.args[0].annotation is not None:
        raise Refused("%s: add_logging_args must take exactly the parameter `parser`" % rel)
    used, opts = set(), []
    for st in f.body:
        if not _is_call_on(st, "parser", "add_argument"):
            raise Refused("%s add_logging_args: a statement that is not parser.add_argument(...): %s" % (rel, _src(st)))
        opts.append(_add_argument(st.value, rel + " add_logging_args", used))
    _check_names(tree, rel, used)
    if "parser" in [k for k, v in _bindings(tree).items() if "global" in v]:
        raise Refused("%s: `parser` is declared global" % rel)
    return opts


def _check_kv_action(repo):
    rel = "src/batchie/cli/argument_parsing.py"
    tree = ast.parse(open(os.path.join(repo, rel)).read())
    _check_names(tree, rel, {"argparse"})
    cls = [n for n in tree.body if isinstance(n, ast.ClassDef) and n.name == "KVAppendAction"]
    if len(cls) != 1 or _bindings(tree).get("KVAppendAction") != ["def/class"]:
        raise Refused("%s: expected exactly one class KVAppendAction" % rel)
    c = cls[0]
    if [ast.unparse(b) for b in c.bases] != ["argparse.Action"] or c.keywords or c.decorator_list:
        raise Refused("%s: KVAppendAction must be a plain subclass of argparse.Action" % rel)
    body = [s for s in c.body if not (isinstance(s, ast.Expr) and isinstance(s.value, ast.Constant) and isinstance(s.value.value, str))]
    if len(body) != 1 or not isinstance(body[0], ast.FunctionDef) or body[0].name != "__call__" or body[0].decorator_list:
        raise Refused("%s: KVAppendAction must define __call__ and nothing else (an __init__ could change nargs / default / dest)" % rel)


def read_parser(repo, command):
    if command not in COMMANDS:
        raise Refused("unknown command %s" % command)
    rel = "src/batchie/cli/%s.py" % command
    tree = ast.parse(open(os.path.join(repo, rel)).read())
    f = _find_def(tree, "get_parser", rel)
    if f.args.args:
        raise Refused("%s: get_parser takes parameters" % rel)
    body = f.body
    if len(body) < 2:
        raise Refused("%s: get_parser is too short" % rel)
    first, last = body[0], body[-1]
    ok = (isinstance(first, ast.Assign) and len(first.targets) == 1 and isinstance(first.targets[0], ast.Name) and first.targets[0].id == "parser"
          and isinstance(first.value, ast.Call) and ast.unparse(first.value.func) == "argparse.ArgumentParser" and not first.value.args)
    if not ok:
        raise Refused("%s get_parser: the first statement must be parser = argparse.ArgumentParser(description=...); found %s" % (rel, _src(first)))
    for kw in first.value.keywords:
        if kw.arg != "description" or not (isinstance(kw.value, ast.Constant) and isinstance(kw.value.value, str)):
            raise Refused("%s get_parser: ArgumentParser(...) may only be given description=<string literal>; found %s" % (rel, _src(kw.value) if kw.arg is None else kw.arg))
    if not (isinstance(last, ast.Return) and isinstance(last.value, ast.Name) and last.value.id == "parser"):
        raise Refused("%s get_parser: the last statement must be `return parser`; found %s" % (rel, _src(last)))
    used, opts = {"argparse"}, []
    for st in body[1:-1]:
        if _is_call_on(st, "parser", "add_argument"):
            opts.append(_add_argument(st.value, rel + " get_parser", used))
        elif _is_call_on(st, "log_config", "add_logging_args"):
            c = st.value
            if c.keywords or len(c.args) != 1 or not (isinstance(c.args[0], ast.Name) and c.args[0].id == "parser"):
                raise Refused("%s get_parser: expected log_config.add_logging_args(parser); found %s" % (rel, _src(st)))
            used.add("log_config")
            opts.extend(_read_logging(repo))
        else:
            raise Refused("%s get_parser: a statement that is neither parser.add_argument(...) nor log_config.add_logging_args(parser): %s" % (rel, _src(st)))
    _check_names(tree, rel, used)
    b = _bindings(tree)
    if "global" in b.get("parser", []):
        raise Refused("%s: `parser` is declared global" % rel)
    if b.get("get_parser") != ["def/class"]:
        raise Refused("%s: get_parser is bound more than once: %r" % (rel, b.get("get_parser")))
    if "KVAppendAction" in used:
        _check_kv_action(repo)
    return opts


def gallina(repo, command):
    opts = read_parser(repo, command)
    lines = ["(* GENERATED by harness/gen_consts.py + argparse_reader.py from /repo on every run. Do not edit. *)",
             "From Coq Require Import ZArith List String.",
             "From Batchie Require Import Lib.Sexp Lib.PyRt Model.Cli.",
             "Import ListNotations.", "Open Scope Z_scope.", "Local Notation s := str_of_string.", "",
             "(* the option table of src/batchie/cli/%s.py get_parser(), in declaration order; the options of" % command,
             "   log_config.add_logging_args(parser) stand where the call stands.  Fields: flags, dest=, dest as argparse derives it,",
             "   type=, default=, required=, action= (absent: store), nargs=, choices= (absent keywords: None / false) *)",
             "Definition src_parser_%s : list argopt := [" % command]
    rows = []
    for o in opts:
        rows.append("  (* %s line %d *)\n  %s" % (o["where"], o["line"], o["gallina"]))
    lines.append(";\n".join(rows))
    lines.append("].")
    return "\n".join(lines) + "\n"


if __name__ == "__main__":
    import sys
    repo = os.environ.get("VERIF_REPO", "/repo")
    for c in (sys.argv[1:] or COMMANDS):
        print(gallina(repo, c))
