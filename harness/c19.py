"""C19 — the orchestration script resumes correctly after an interruption at any point.

The REAL script /repo/nextflow/scripts/batchie.py is loaded by path and its main() is run
in-process against the fake `nextflow` in harness/fake_nextflow (first on PATH; spawned as a
real subprocess for a sample of the cases and for every crash-free reference run, executed
in-process for the rest - same code, ~40x faster).  Script-side crashes are injected by giving
the loaded module proxy `os` / `shutil` / `subprocess` objects whose makedirs / rmtree /
check_call raise at the commanded point; pipeline-side crashes by telling the fake to exit
non-zero after k publications.  The operator removes a directory when (and only when) the
script's error message names it, and reruns.

Every run is a sequence of INVOCATIONS of main(): the harness never decides how many calls of run_next_* an invocation
makes - the script's own while-loop does.  Before each invocation the operator model (Runner.op_screen, the same function as
Model/Orchestrate.op_screen) picks the --screen file from what the output directory shows: retrospective always screens/0/exp.h5,
prospective screens/<q>/exp.h5 with q = completed steps // batch size (a new screen per batch, the same one for a rerun
inside a batch).  The log compared with the model is [[operator screen, [one item per call], end] per invocation]; a launch
item shows which operator screen its command line names.
"""
import importlib.machinery
import importlib.util
import json
import os
import random
import re
import shutil
import subprocess
import sys
import tempfile

import common

ID = "C19"
LEVEL = "proof"
# C19_SCRIPT lets a candidate repair be checked from a copy without touching /repo
SCRIPT = os.environ.get("C19_SCRIPT") or os.path.join(common.REPO, "nextflow", "scripts", "batchie.py")
FAKE_DIR = os.path.join(os.path.dirname(os.path.abspath(__file__)), "fake_nextflow")
FAKE = os.path.join(FAKE_DIR, "nextflow")

RULE = ("Every run is driven per INVOCATION of the real main(): the operator model picks the --screen file of each invocation "
        "from the output directory (prospective: screen number = completed steps // batch size, a different path and content per "
        "number; retrospective: always number 0), main() is left to decide by itself when to stop; the log compared with the model "
        "is the list of invocations [operator screen, calls with the screen number each launch reads, end = returned / did not "
        "return / schedule exhausted].  "
        "kinds: run (mode, batch size 1-4, 3-6 plates, crash schedule = one entry per call of run_next_*: number of "
        "events executed before the crash [0 before rmtree, 1 after it, 2 between the two directory levels of makedirs, "
        "3 before the launch, 4+p after p published files] and the publication priority order; all single crash points "
        "x data-dependence-respecting orders; pairs of crash points exhaustively for the small configurations in the "
        "thorough tier and sampled otherwise; prospective sessions over three batches with one to three crashes) through the real "
        "main() with the fake nextflow, invocation log + final tree compared with Model/Orchestrate.script_session and judged "
        "against the crash-free run of the real script (incl.: each step reads the operator screen the never-interrupted execution "
        "gives it; no prospective invocation launches steps of two iterations); "
        "run-repaired (the same with the one-line repair applied to an in-memory copy of the script, model parameter "
        "fixed=1); one- and two-plate screens with batch sizes 1-4 (all single crash points); "
        "torn (an entry [k, order, 1]: the interruption comes WHILE event k-4 of the pipeline run is under way; if that is the publication of screen_metadata.json the file is left holding the first half of "
        "its text; if it is the run's own wrap-up after its last publication every file is whole but the exit status is not 0 (the call of run_next_* does not return, the step counts as complete) - "
        "every step of every configuration x every admissible order, plus combinations with ordinary crashes - against Orchestrate.script_session_t and judged like run; the operator reruns "
        "after an exception that names nothing; model parameter tfix = what the probe of the real validate_job_dir_and_return_meta says, 1 on /repo since the repair: an unreadable marker is named "
        "like a missing one); torn-repaired (only on a tree WITHOUT that repair: the same schedules with it applied in memory, tfix=1); "
        "marker (validate_job_dir_and_return_meta itself on a job directory whose screen_metadata.json is missing / whole / cut at every position class / empty / not UTF-8 / a JSON document that is "
        "no dict / a dict without n_unobserved_plates / a dict with further keys - against Orchestrate.valid_meta and judged directly: the dict iff it is one with the key, else None, never an exception); "
        "examine-torn (random trees as for examine with a random subset of the marker files replaced by such unreadable / key-less contents, against Orchestrate.examine_t on the world (tree, those "
        "directories) and judged directly: the answer must be the answer on the same tree with those marker files DELETED); "
        "async (publication orders that data dependence alone would exclude - nextflow publishes asynchronously: every step with the marker published before advanced_screen.h5 and an interruption "
        "between the two, plus random permutations; model comparison AND the property predicate: the statement does not restrict the order); "
        "examine (random trees with gaps, unsorted / two-digit indices, missing markers, empty iteration directories "
        "against examine_output_dir_to_determine_current_iteration); crash_free (closed-form ideal run against the real "
        "uninterrupted run: ONE invocation = n launches + one returning call / exactly batch-size launches, then main() returns); "
        "validate_initial (validate_initial_output_dir_and_get_result_files_as_dict on a job directory holding EVERY subset of the seven published "
        "files - each required file missing in turn and in every combination - and with required files lying one directory level too high; "
        "compared with Orchestrate.validate_initial and judged directly: the dict iff test.screen.h5, training.screen.h5 and screen_metadata.json exist, "
        "naming this directory's own files and carrying its metadata; None iff the training screen or the metadata is missing; IndexError iff only the test screen is); "
        "get_args (the real get_args() on command lines built from plans - every option given / one missing / repeated, any order, the operator's extra words in "
        "between, bad values: not an int, not one of the choices, an option string without value - against Orchestrate.parse_known_args on the option table, "
        "and judged from the plan: which namespace, which remaining words, --batch-size defaults to 1, accepted iff every required option has a good value; "
        "spellings the model does not represent are run and not compared); "
        "paths (the five path helpers of the script where /repo keeps it and of copies in scratch checkouts of several depths and directory names, loaded "
        "through the real path, a symbolic link to the directory or the file, a path with '..' - against the model on the resolved file's components, and judged "
        "directly: the repository root holds the script at <d1>/<d2>/<file>, main.nf and nextflow.config lie directly in it and exist in /repo).  Non-trivial: at least one crash or a non-empty tree; distinct by case description.")
THEOREMS = {
    "C19_resume_correct": "marker last + repaired examine (or batch size 1): after EVERY crash schedule, in both modes, the completed steps with the "
                          "commands that produced them and their recorded selections are exactly the first k steps of the uninterrupted run (retrospective: k <= n_plates)",
    "C19_resume_correct_retro_prefix_of_crash_free": "same, retrospective mode: completed = firstn k crash_free",
    "C19_step_safe": "same hypotheses, one more call from any reachable tree: completed steps kept unchanged, at most the next one added; a launched command is the "
                     "uninterrupted run's command for the first incomplete step (no completed step re-run, no index skipped); the operator is never told to remove a completed step; no non-naming failure",
    "C19_invariant": "reachable trees = completed steps 0..c-1 in lexicographic order with ideal contents + at most one of {empty next iteration directory, one incomplete directory at index c}",
    "C19_uninterrupted_is_crash_free": "the closed form crash_free is what script_run produces without crashes (prospective: one invocation = one batch, batch <= plates)",
    "C19_inputs_from_predecessor": "in the uninterrupted retrospective run every step after the first reads the advanced screen of its immediate predecessor",
    "C19_step_of_successor": "step indices advance lexicographically without gaps",
    "C19_session_is_script_run": "a session (script_run cut into invocations of main(): calls repeated while the previous one returned True) has the same final tree and the "
                                 "same calls in the same order as script_run: all theorems above speak about sessions",
    "C19_invocation_never_crosses_batch": "same hypotheses as C19_resume_correct, EVERY crash schedule: each launch (step s, by an invocation given operator screen r, command l) is a launch of the "
                                          "never-interrupted execution with ITS screen: (s, r, l) = ideal_stamped c (prospective: step (i, j) always reads operator screen i); prospective: all launches "
                                          "of one invocation have iteration index = the screen index the operator supplied at its start - an invocation never crosses a batch boundary",
    "C19_operator_screen_is_current_iteration": "on every reachable tree the operator's screen index (completed steps div batch size) is the iteration examine is about to work on, or the iteration of the directory it names",
    "C19_uninterrupted_prospective_session": "never-interrupted prospective execution of q batches (batch <= plates): q invocations, invocation k is given screen k, makes exactly batch-size calls and returns; "
                                             "its launches are ideal_stamped 0..q*bs-1 (step c reads screen c div bs)",
    "C19_invocation_finishes_batch_and_stops": "prospective, from ANY reachable tree with c completed steps on which the script does not name a directory: an uninterrupted invocation makes exactly bs - c mod bs "
                                               "calls (bs from a batch boundary, bs - j after an interruption at plate j), all successful launches of steps c.. to the end of the batch, returns, leaves the rest of the schedule",
    "C19_retro_call_returns_false_iff_no_plates_remain": "retrospective, ANY tree: a call of run_next_retrospective_step returns False iff examine reads back a last completed step whose n_unobserved_plates <= 0",
    "C19_retro_invocation_stops_iff_finished": "retrospective, reachable trees, any schedule: an invocation that returns has completed exactly the n steps of the never-interrupted run and every earlier call of it was a "
                                               "successful launch (never stops before); once all n steps are complete every invocation is one returning call that changes nothing",
    "C19_uninterrupted_retrospective_invocation": "never-interrupted retrospective invocation: n successful launches (the ideal commands) then one call that returns False; completed = crash_free",
    "C19_resume_refuted_empty_iter": "REFUTED for the examine of /repo today: batch size 2, crash between the two makedirs levels -> a completed step is deleted and launched again",
    "C19_resume_refuted_marker_early": "REFUTED without marker_last even with the repair: prospective mode, metadata published first (data dependence allows it) -> step without selection counts as complete",
    "C19_retro_progress": "retrospective, from ANY tree a crash schedule leads to (c steps complete): after m further uninterrupted calls (marker-last orders) at least min(n, c + m - 1) steps are "
                          "complete - each call completes the next step, the first may be spent on naming the incomplete directory - and the completed steps are still a prefix of the never-interrupted run",
    "C19_retro_rerun_finishes": "so n - c + 1 uninterrupted calls after ANY crash history end in exactly the never-interrupted run (completed = crash_free)",
    "C19_torn_model_conservative": "the model with torn (present but unreadable) markers run without torn markers and tearing entries IS the model all other theorems are about",
    "C19_torn_resume_correct": "THE PROPERTY on worlds with torn markers for the script as it is (tfix = true, which the translation proves): marker last + repaired examine (or batch size 1), EVERY schedule whose "
                               "interruptions may also come WHILE a file is being published, both modes: the completed steps with their commands and selections are exactly the first k steps of the "
                               "uninterrupted run (retrospective: k <= n_plates) and no call ever ends in an exception that names no directory",
    "C19_torn_step_safe": "C19_step_safe on those worlds: one more call from any reachable world keeps the completed steps, adds at most the next, launches only the uninterrupted run's command for the first "
                          "incomplete step, names only incomplete directories, never fails without naming one",
    "C19_torn_marker_is_named": "a reachable world holds at most one torn marker, in the directory of the first step that is not complete; the next call, whatever its entry, names exactly that directory as "
                                "'invalid structure'; after the operator's removal no torn marker is left and no completed step is lost",
    "C19_torn_retro_progress": "C19_retro_progress on those worlds: after m further uninterrupted calls at least min(n, c + m - 1) steps are complete and no torn marker is left - the call that names the torn "
                               "directory is the one an incomplete directory costs anyway",
    "C19_torn_retro_rerun_finishes": "so n - c + 1 uninterrupted calls after ANY history of interruptions, torn marker or not, end in exactly the never-interrupted run",
    "C19_torn_repaired_is_missing_marker": "the script as it is (unreadable marker = no marker): examine on a well-formed torn world IS the model's examine on its tree component - the torn directory is named like an incomplete one",
    "C19_torn_repaired_names_torn_or_is_examine": "on ANY world it answers as the model's examine on the tree component or names a directory that holds a torn marker as 'invalid structure'",
    "C19_torn_repaired_never_raises": "the script as it is never raises out of examine, whatever is torn",
    "C19_torn_examine_raises_iff": "the script BEFORE the repair (tfix = false): on a world with torn markers it raised (JSONDecodeError, no directory named, nothing touched) exactly when the first problem examine "
                                   "meets is a directory whose marker is torn - where a missing marker would have been named as 'invalid structure'",
    "C19_torn_raise_is_permanent": "a raising examine strands the script: every further call raises the same exception, changes nothing, names nothing",
    "C19_resume_refuted_torn_marker": "REFUTED for the script before the repair (tfix = false; the witness of what `fix:` removed): retrospective, batch size 1, 3 plates, the run of step (1,0) interrupted WHILE the "
                                      "marker is being published -> for every number of reruns: the same exception, no directory named, step (1,0) never completed",
    "C19_resume_refuted_marker_before_advanced": "REFUTED without marker_last in RETROSPECTIVE mode: marker published before advanced_screen.h5, interruption between the two -> step (1,0) is started from the "
                                                 "training screen of (0,0) instead of its advanced screen and selects plate 0 a second time",
    "C19_marker_before_advanced_strands": "the same inside a batch (batch size 2, plate 1): no screen is found, TypeError that names nothing; for every number of reruns no further step is completed",
    "C19_nf_outputs_are_what_the_script_globs": "read from /repo/nextflow/modules/*/main.nf on every run: every file kind of the model is published by the process the model attributes it to, the module's "
                                                "output: pattern matches the file name its script: block writes, and the pattern the orchestration script globs for matches that name",
    "C19_nf_written_names_unambiguous": "a file name a module writes is matched by the script's glob of exactly one kind",
    "C19_script_globs_are_kind_patterns": "the glob primitives of the translated helpers (the patterns the translation matches against the script's text) are exactly the model's pattern per kind at "
                                          "the model's directory depth (<job>/*/<file>; selected_plate: <iteration>/plate_*/*/<file>), and every kind is globbed for",
    "C19_nf_publish_dir_is_outdir": "every nextflow/config/*.config that sets publishDir sets it to ${params.outdir} (the --outdir of the script's command line) and every module writes under ${meta.id}: one directory level below the job directory",
    "C19_nf_excludes_chain": "how --excludes=a,b reaches the policy (C16's batch): next_batch_plate splits params.excludes on the separator the script joins with; it is the tuple element the sub-workflow picks "
                             "for SELECT_NEXT_PLATE's `excludes` input; the module passes the ids blank-separated after --batch-plate-id, which select_next_plate's own option table declares nargs='+' type=int dest batch_plate_id",
    "C19_model_is_source_examine_on_torn_worlds": "the WHOLE function examine_output_dir_to_determine_current_iteration of /repo's script, re-translated into Gallina on every run and run on a world (tree, set of job "
                                                  "directories whose marker file is unreadable; the translated validate_job_dir_and_return_meta gets the marker files its glob finds there), equals the model's "
                                                  "examine_t with tfix = true and fixed = true for every tree, torn set and batch size: both filtered + numerically sorted globs, the `continue` on an iteration "
                                                  "directory without plate directories, current_plate_idx = 0, the enumerate loop with its two raises and the directory each names, the leaked plate_dir, the "
                                                  "next-step arithmetic, both returns; the metadata handed on is a dict with the key n_unobserved_plates",
    "C19_model_is_source_examine": "the same without torn markers: the model's examine with fixed = true",
    "C19_model_is_source_examine_determines_fixed": "the translation determines the model parameter: src_examine = examine fixed for all inputs IFF fixed = true",
    "C19_model_is_source_examine_determines_repairs": "... and both parameters: src_examine = examine_t tfix fixed for all worlds IFF tfix = true and fixed = true (the source carries both repairs and no other)",
    "C19_model_is_source_examine_not_unrepaired": "the translated examine differs from the unrepaired model (fixed = false) on the tree of C19_resume_refuted_empty_iter's witness (iter_1 created but empty)",
    "C19_model_is_source_examine_not_raising_on_torn_marker": "... and from the model before the torn-marker repair (tfix = false) on the world C19_resume_refuted_torn_marker's witness leaves behind: there it names "
                                                              "iter_1/plate_0 where the old script raised",
    "C19_model_is_source_run_next_retrospective_step": "the WHOLE function run_next_retrospective_step, re-translated on every run (it calls the translated examine): for every tree and batch size its result - "
                                                       "`return False` before anything is touched / the file-system actions in program order (rmtree, makedirs = two levels) ending in the launch and `return True` / "
                                                       "the exception raised after those actions (no test screen, no thetas or distance chunks, None in a command line) / the named directory - is the model's plan_of Retro",
    "C19_model_is_source_run_next_prospective_step": "the same for run_next_prospective_step = plan_of Prosp; its return value is current_plate_idx < batch_size - 1",
    "C19_model_is_source_run_next_steps_on_torn_worlds": "both functions on a world with torn markers = step_result_t: the translated examine decides whether a directory is named (a torn marker's like a missing "
                                                         "marker's), otherwise the call is the model's plan on the tree component - how attempt_t is built; meta['n_unobserved_plates'] never raises "
                                                         "(KeyError / TypeError unreachable: the metadata examine hands on has the key)",
    "C19_model_is_source_call_returns": "whenever the model's call_returns says a call handed b back to main(), b is the value the translated run_next_* returns",
    "C19_model_is_source_call_returns_on_torn_worlds": "the same for the model's attempt_t (tfix = true) on a world with torn markers",
    "C19_model_is_source_get_screen_from_job_output": "the whole helper (called by the translated examine): advanced_screen.h5 if there is one, else training.screen.h5, else None = the model's screen_of",
    "C19_model_is_source_validate_job_dir_and_return_meta": "the whole helper (called by the translated examine), for EVERY list of marker files its glob may match, whatever they hold: None without a match; else "
                                                            "the first match decides - the loaded document if it is a dict with the key n_unobserved_plates, None if json.load raises ValueError (the `except`), "
                                                            "if the document is no dict, if the key is missing",
    "C19_model_is_source_validate_job_dir_in_world": "in a world (tree, torn set): None for a directory whose marker is torn, else the metadata the tree records (f_meta)",
    "C19_model_is_source_get_test_screen_from_job_output": "the whole helper (called by the translated retrospective step): it globs for training.screen.h5 = the model's has_training / SFile s KTraining",
    "C19_model_is_source_get_theta_and_dist_chunks": "the whole helper (called by both translated steps): ValueError unless thetas and distance chunks are both present = has_thetas_dist / AFail 2",
    "C19_model_is_source_get_selected_plates": "the whole helper (called by both translated steps): the contents of the selected_plate files of the iteration, None when there are none = selected_plates",
    "C19_model_is_source_validate_initial_output_dir": "the WHOLE function validate_initial_output_dir_and_get_result_files_as_dict, re-translated on every run: for every job directory it equals the model's "
                                                       "validate_initial - None when training.screen.h5 or screen_metadata.json is missing, IndexError (test_screen_glob[0]) when only test.screen.h5 is, "
                                                       "else the dict {test_screen, training_screen, screen_metadata}",
    "C19_model_is_source_validate_initial_accepts_iff": "the translated function returns the dict EXACTLY when the three files of Orchestrate.initial_required (test.screen.h5, training.screen.h5, "
                                                        "screen_metadata.json) all exist; the dict names that directory's own test / training screen and carries the metadata stored there",
    "C19_model_is_source_validate_initial_raises_iff": "the only exception of the translated function is the IndexError, raised exactly when training screen and metadata exist and the test screen does not, before anything is touched",
    "C19_model_is_source_validate_initial_none_iff": "the translated function returns None exactly when the training screen or the metadata file is missing (whatever else exists)",
    "C19_model_is_source_validate_initial_never_names": "the translated function never raises an error that names a directory for the operator to delete",
    "C19_model_is_source_validate_initial_complete_run": "the model's notion of a complete initial step: a run of the initial workflow that complete_run counts as complete (all files `expected` of LInit "
                                                         "published; the three required ones are among them) leaves a directory the translated function accepts, with the metadata that is there",
    "C19_model_is_source_validate_initial_on_reachable_trees": "on EVERY tree the retrospective script reaches (any crash schedule, hypotheses of C19_resume_correct) a job directory iter_0/plate_0 that carries "
                                                               "the completion marker is accepted by the translated function: dict with its test / training screen and n - 1 unobserved plates; never None, never the IndexError",
    "C19_model_is_source_get_args": "the WHOLE function get_args(), re-translated on every run: the option table its four add_argument calls build (option string, type= / choices=, required=, "
                                    "default= read from each call's own arguments) is Orchestrate.orch_options and the function is the model of argparse on it, for every command line",
    "C19_model_is_source_get_args_gives_main_args": "every args.<x> the translated main() reads (mode, batch_size, outdir, screen) is an attribute of EVERY namespace the translated get_args returns, with the "
                                                    "type the model of main() assumes: mode one of the two names main() dispatches on, batch_size an int (1 when --batch-size is not given), outdir and "
                                                    "screen strings; the namespace has exactly the four attributes argparse derives from the option strings",
    "C19_model_is_source_get_args_remaining": "each remaining argument get_args hands on (extra_args for nextflow) stood on the command line and is none of the script's own option strings",
    "C19_model_is_source_get_args_then_main": "get_args composed with main(): whatever the command line, when the translated get_args returns, the record main() reads off the namespace has a mode md "
                                              "main() dispatches on, and the translated main() (fuel > schedule length) IS the model's invocation in mode md with the command line's batch size (default 1) - "
                                              "the hypothesis `a_mode argv = modename_of md` of C19_model_is_source_main* is discharged",
    "C19_model_is_source_get_args_mode_known": "the `else: raise ValueError('Unknown mode')` of main() cannot be reached from a command line",
    "C19_model_is_source_get_script_location": "the WHOLE helper, re-translated on every run, for every __file__: abspath(dirname(realpath(__file__)))",
    "C19_model_is_source_get_nextflow_dir": "the same for get_nextflow_dir = abspath(join(get_script_location(), '..')), calling the translated get_script_location",
    "C19_model_is_source_get_base_config": "the same for get_base_config = abspath(join(get_nextflow_dir(), '..', 'nextflow.config'))",
    "C19_model_is_source_get_repository_root": "the same for get_repository_root = abspath(join(get_script_location(), '..', '..'))",
    "C19_model_is_source_get_main_nf_file": "the same for get_main_nf_file = abspath(join(get_repository_root(), 'main.nf'))",
    "C19_model_is_source_paths_in_checkout": "for a script at root/nextflow/scripts/batchie.py (root any path as realpath returns one) the translated helpers give root/nextflow/scripts, root/nextflow, "
                                             "root/nextflow.config, root and root/main.nf",
    "C19_model_is_source_run_initial_plate_closed": "run_initial_plate re-translated CLOSED over the translated path helpers (get_main_nf_file() / get_repository_root() are their translations, a path on the "
                                                    "command line is WMainNf exactly when it is root/main.nf): for a script in the checkout at root it builds the launch LInit, as the open translation does",
    "C19_model_is_source_run_first_batch_plate_closed": "the same for run_first_batch_plate = LFirst",
    "C19_model_is_source_run_first_prospective_batch_plate_closed": "the same for run_first_prospective_batch_plate = LProsp",
    "C19_model_is_source_run_subsequent_batch_plate_closed": "the same for run_subsequent_batch_plate = LNext",
    "C19_model_is_source_run_initial_plate": "the WHOLE builder run_initial_plate, re-translated on every run and CALLED by the translated run_next_retrospective_step: the command line it builds (list of words + extra args), read "
                                             "the way main.nf reads it, is the launch LInit screen for job directory output_dir; a None screen is a TypeError before anything is started",
    "C19_model_is_source_run_first_batch_plate": "the same for run_first_batch_plate: --training_screen gets training_screen, --test_screen gets test_screen, --initialize false = LFirst training test",
    "C19_model_is_source_run_first_prospective_batch_plate": "the same for run_first_prospective_batch_plate: --mode prospective --screen S = LProsp S",
    "C19_model_is_source_run_subsequent_batch_plate": "the same for run_subsequent_batch_plate (called by both translated steps): --mode next_plate --reveal true, --screen, the thetas / distance-matrix globs of one directory t, "
                                                      "the optional --excludes word (none when excludes is None) = LNext S t excludes",
    "C19_model_is_source_dir_sort_key": "the WHOLE function dir_sort_key (int(os.path.basename(x).split('_')[1])), re-translated on every run over path NAMES: on any path whose last component is "
                                        "'<prefix>_<decimal numeral of i>' (prefix without '_') it returns i",
    "C19_model_is_source_dir_sort_key_iter_index": "on the name '<out>/iter_<i>' of a globbed iteration directory (i >= 0) the translated dir_sort_key returns iter_index of its model value: the index primitive of examine's configuration",
    "C19_model_is_source_dir_sort_key_plate_index": "the same for '<out>/iter_<i>/plate_<j>' and plate_index",
    "C19_model_is_source_main": "the WHOLE function main(), re-translated on every run (mode dispatch: which translated run_next_* the variable run_next holds; `while True` as recursion on explicit fuel; "
                                "every call runs the translated function in the world; `if not should_run_again: break`): for fuel >= the number of times the loop body is started it equals the model's "
                                "invocation for every tree, schedule, batch size - same final tree, remaining schedule, calls and end (returned / exception out of main() / observation ends)",
    "C19_model_is_source_main_unknown_mode": "a --mode other than the two argparse admits: ValueError before any call, the world is untouched",
    "C19_model_is_source_main_observation_window": "fuel > number of schedule entries is always sufficient (one loop iteration per entry, plus the one that finds the schedule empty)",
    "C19_model_is_source_main_fuel_discharged": "NO fuel hypothesis on reachable trees: from any tree a crash schedule leads to, for ANY further schedule, fuel = (retrospective) steps not yet completed + 1 / "
                                                "(prospective) what is left of the current batch suffices: main() = invocation",
    "C19_model_is_source_main_finishes_batch_and_stops": "C19_invocation_finishes_batch_and_stops said of the translated main() with fuel = batch size: it returns normally after exactly bs - c mod bs successful launches, the rest of the schedule untouched",
    "C19_model_is_source_main_retro_stops_iff_finished": "C19_retro_invocation_stops_iff_finished said of the translated main() with fuel = n + 1, any schedule: a normal return means all n steps complete and only successful "
                                                         "launches before the returning call; once complete, main() makes one call, changes nothing, returns",
    "C19_model_is_source_main_call_is_attempt": "the meaning of one call in the world (world_call: the translated function on the current tree, played against the next schedule entry) is the model's attempt, and the value "
                                                "handed back to main() is call_returns - so call_returns is derived from the value the translated function returns",
}
ASSUMPTIONS = [
    "no nextflow engine is available: the three workflows are represented by harness/fake_nextflow/nextflow, whose publications follow main.nf / the "
    "sub-workflows as read (which files, which inputs each is computed from); nextflow's own resume cache, work directory and asynchronous publishDir copies are outside the model",
    "file content is abstract (a screen = list of unobserved plate ids; selection = first unobserved plate not excluded); the script itself only reads "
    "n_unobserved_plates and the selected_plate text",
    "kinds run / run-repaired / async: a published file appears atomically (the fake writes a temporary file and renames it).  kinds torn / torn-repaired drop this for the one file "
    "the script parses: screen_metadata.json may be left holding a prefix of its text; other files are never torn (the script only globs for them / reads selected_plate as text).  "
    "A marker that json.load accepts and that is a dict with the key n_unobserved_plates counts as whole whatever else it holds (a prefix of the marker's text never is one)",
    "'records the same selection' (clause a) is about the ORCHESTRATION: model and fake compute a step's selection as a function of the content of its input files.  Of the real pipeline this holds "
    "only if train_model / calculate_scores / select_next_plate are deterministic in their inputs and seed, which is property C18 (whose known findings - Gibbs blocks drawing from the global "
    "generator - mean that a re-executed step may select another plate than the never-interrupted run would have): C19 depends on C18 here and does not re-establish it",
    "the <name> directory level, the work directory and files the script never globs for are abstracted away",
    "the operator removes exactly the directory named in 'Consider deleting this directory to continue simulation: <dir>' and reruns; on any other error he just reruns",
    "glob order of plate_*/*/selected_plate is not modelled: the exclude list is compared as a set, by the model comparison and by the predicate alike (the pipeline uses it as a set: "
    "tokenize(',') -> --batch-plate-id -> membership tests)",
    "selected_plate = -1 (select_next_plate found no eligible plate) is not represented: the fake publishes no selection then and exits non-zero; what REVEAL_PLATE makes of -1 cannot be observed without nextflow",
    "operator model (prospective): the screen file passed to an invocation is a function of the output directory at its start - screen number = number of completed steps "
    "(directories holding screen_metadata.json) div batch size, i.e. a new screen once a whole batch is marked complete, the same screen for a rerun inside a batch; "
    "retrospective: always the same file.  The screens' content is abstract in the model (all list the same plates); the harness's files differ in path and in a field the fake ignores",
    "an invocation ends when run_next_* returns False, raises, or is interrupted; what the process exit status is used for by the operator is not modelled beyond 'rerun'",
]
EXPLANATION = ("NEXTFLOW SIDE (C19_nf_*, C19_script_globs_*): harness/nf_reader.py, a fail-closed reader of the declarative parts of the six modules whose outputs the script globs for (process name, "
               "the prefix line, each output: line, the --output options of the script: block), of publishDir in nextflow/config/*.config and of the excludes chain (tokenize in next_batch_plate, the it[k] picks "
               "of select_next_batch_plate, input tuple and exclude_flag of select_next_plate), writes Generated/SrcNfOutputs.v on every run; anything outside the accepted shapes is refused (broken obligation).  "
               "TRUSTED: that reader, fnmatch-style matching with * (Model/NfFiles.glob_match), and that `meta.id` is one path component.  NOT read: which processes each workflow includes (the model's `expected`), "
               "the nf-core publishDir mode (copy / symlink), nextflow's own semantics.  The fake nextflow publishes under the names the reader finds in the tree under test.  "
               "TORN MARKERS: Model/Orchestrate.v (section 'torn completion markers') extends the tree by the set of directories whose screen_metadata.json exists but cannot be read; examine_t treats such a "
               "marker as missing (tfix=1: the script of /repo since the `fix:` of finding torn-marker-strands-script - validate_job_dir_and_return_meta catches json.load's ValueError and demands a dict with the key "
               "n_unobserved_plates; PROVED from the translation: C19_model_is_source_examine_determines_repairs) or raises there (tfix=0: the script before it, kept for C19_resume_refuted_torn_marker); "
               "C19_torn_model_conservative ties it to the model of all other theorems; C19_torn_resume_correct / _step_safe / _marker_is_named / _retro_progress are the property on these worlds.  The harness "
               "JUDGES runs with torn markers like every other run (a script that dies without naming a directory is a violation; PROBED_TFIX only selects the model variant compared with).  Model: Model/Orchestrate.v (calls: attempt/script_run; invocations of main(): call_returns/invocation/op_screen/script_session).  "
               "The invocation-level theorems (C19_invocation_*, C19_retro_*, C19_uninterrupted_*) say when main() stops and which operator screen every launch reads; the harness "
               "checks the same two things on the real main() (clauses wrong-operator-screen, invocation-crosses-batch) and compares the invocation log exactly.  "
               "The theorems are proved for the script WITH the one-line repair of examine (model parameter fixed=true) or batch "
               "size 1, and for publication orders in which screen_metadata.json is last; the two refuted statements show that each hypothesis is needed "
               "and are replayed on the real script by this harness.  Which variant the real script corresponds to is probed at start-up (PROBED_FIXED).  "
               "SOURCE LINK (C19_model_is_source_*): examine_output_dir_to_determine_current_iteration, run_next_retrospective_step, run_next_prospective_step and the helpers they call "
               "(get_screen_from_job_output, validate_job_dir_and_return_meta, get_test_screen_from_job_output, get_theta_and_dist_chunks, get_selected_plates) are re-translated as WHOLE functions "
               "from /repo's nextflow/scripts/batchie.py into Gallina on every run (harness/py2gal.py, configurations C19_* in harness/src_functions.py -> coq/theories/Generated/SrcOrchestrate.v; a translated "
               "caller calls the translated callee) and proved equal to Orchestrate.examine_t with tfix = fixed = true (examine without torn markers) / to step_result_t, plan_of (and call_returns) / to screen_of, valid_meta, has_training, has_thetas_dist, "
               "selected_plates for all inputs; the translation, not the start-up probes, fixes the model parameters (C19_model_is_source_examine_determines_repairs).  Loops, continue, both raises and the directory they name, "
               "the Optionals, the leaked loop variable, the arithmetic, the early `return False`, the order of the file-system actions and of the checks after them, the no-match tests and None returns of "
               "the helpers come from the translation.  TRUSTED by the link: the translator (incl. its new keys tail_dup - the statements after an `if` that may return are the tail of both branches - and "
               "retype - a variable re-used at a second declared type; the exception monad Orchestrate.sres) and these primitives.  A path is the model value it denotes: output directory = the tree; a globbed "
               "iteration directory = (index, its plate directories); a globbed plate directory = ((i, j), its files); a path BUILT by os.path.join(outdir, f'iter_{i}', f'plate_{j}') = the step (i, j) (with "
               "one component: the index i) together with the tree it is resolved in.  examine: glob.glob(output_dir + '/iter_*') = the tree's entries, glob.glob(d + '/plate_*') = d's plate directories, "
               "os.path.isdir = True (the model tree holds directories only), sorted(l, key=dir_sort_key) = the model's insertion sort by index (sort_dirs; equal indices such as iter_1 / iter_01 are not kept "
               "in glob order), dir_sort_key(path) = its index.  Helpers: list(glob.glob(os.path.join(dir, '*', NAME))) for NAME = advanced_screen.h5 / training.screen.h5 / thetas*.h5 / "
               "distance_matrix_chunk*.h5 = the one-or-no file of that kind in the job directory (the <name> level is abstracted), for screen_metadata.json (validate_initial_output_dir_and_get_result_files_as_dict only) = [its n_unobserved_plates] or [], "
               "glob 'plate_*/*/selected_plate' under an iteration = its recorded selections in plate order (glob order not modelled), len, l[0] (IndexError on []), open(path) / f.read().strip() = "
               "the value the file holds, the dict get_theta_and_dist_chunks returns = the directory it names.  validate_job_dir_and_return_meta: its job directory = the list of marker files the glob "
               "matches (marker_dir; in examine's configuration marker_dir_of = what that glob finds in the world: a torn file for a step in the torn set, the whole file of f_meta, or none), a file = the JSON "
               "document it holds or None (mfile), json.load = that option with None = it raises - and what it raises is a ValueError, the class the source's `except` names (translator key try_except_classes) -, "
               "isinstance(o, dict) = a test on the document (jval: a dict with / without that key, or anything else), 'n_unobserved_plates' not in o = the key test on a dict and an EXCEPTION on anything else "
               "(None, a list, a number: not a key test in Python), bound inside the branch of the `or` in which Python evaluates it (translator key short_circuit) - the link proves it is never reached, i.e. that the "
               "isinstance test guards it.  run_next_*: os.path.splitext(os.path.basename(input_screen)) = an unmodelled name, "
               "meta['n_unobserved_plates'] = the entry of the loaded document (jget_nup: KeyError / TypeError otherwise - proved unreachable), every read of the output directory = a read of the tree AFTER the "
               "actions done so far (tree_after; examine, the one reader of marker files: tfs_after, with the torn set); main()'s link runs both functions on worlds without torn markers; effects: shutil.rmtree(job dir) = ARmTree, "
               "os.makedirs(job dir) = AMkIter then AMkPlate; t['thetas'] / t['dist_chunks'] = the two glob patterns under the directory t that get_theta_and_dist_chunks answered; the calls run_initial_plate / "
               "run_first_batch_plate / run_first_prospective_batch_plate / run_subsequent_batch_plate(keyword arguments) are calls of the TRANSLATED builders (each keyword's value coerced to the builder's parameter type); "
               "ignored: logger.info, os.makedirs(output_dir) (creation of the output directory itself is not modelled); extra_args / experiment_name are only handed on.  "
               "COMMAND BUILDERS (C19_model_is_source_run_*): the four run_* functions are re-translated as whole functions (configurations C19_RUN_* -> Generated/SrcOrchCmd.v; translator key added: list_elem_type - "
               "every item of a list literal is coerced to one declared type, here `option word`) and proved to build exactly the command lines that denote LInit / LFirst / LProsp / LNext, so the launch primitive the "
               "run_next_* links used to trust (launch_cmd) is now a theorem.  From the translation: the order and content of the words, `+ extra_args`, `if excludes is not None: args = args + [...]`, the logged join, "
               "check_call.  TRUSTED primitives of the builders: a string literal = WLit of its code points (18 literals, generated by one helper); get_main_nf_file() = the pipeline's main.nf; os.path.join(output_dir, "
               "'work') = the job's work directory; a screen path / output_dir / experiment_name / a glob pattern used as a list item = the word of that value (None stays None); extra_args = opaque words that are "
               "none of the script's own options; '--excludes={}'.format(','.join(ids)) = the word WExcludes ids; ' '.join(cmd) in the logged f-string = TypeError iff an item is None; subprocess.check_call(cmd, cwd=repository "
               "root) = TypeError iff an item is None, otherwise the process is started and what it is is Orchestrate.launch_of_words: `nextflow run main.nf` + options, an option's value = the word after the first "
               "occurrence of its key, params.mode / params.initialize select the workflow and its screen options as main.nf and workflows/.../retrospective_simulation/main.nf do, --outdir names the job directory, "
               "--reveal true, thetas and distance-matrix globs under ONE directory, --excludes; anything else is no launch of the model (nextflow error).  -work-dir, --name and the extra words are not interpreted.  MAIN (C19_model_is_source_main*): main() is re-translated as a whole function (configuration C19_MAIN -> Generated/SrcOrchMain.v, exception monad Orchestrate.mres whose "
               "errors carry the world main() leaves behind; translator keys added: monad['while'] - a `while True` under a non-default monad, on explicit fuel -, tail_dup_raise - the statements after an `if` one of whose "
               "branches may raise are the tail of both branches) and proved equal to Orchestrate.invocation for sufficient fuel; the fuel hypothesis is discharged on reachable trees (n + 1 resp. batch-size "
               "iterations).  The if/elif/else on args.mode, the assignment of run_next, the loop, the call's keyword arguments (typed: output directory, screen, extra args, batch size), the negated test and the break come from "
               "the translation.  TRUSTED primitives of main(): get_args() = the parsed arguments (argv, extra) [get_args is translated on its own, see GET_ARGS below, and C19_model_is_source_get_args_then_main composes the two: the namespace it returns, read as this record, has one of the two mode names]; args.mode / args.batch_size = "
               "fields of argv; the literals 'retrospective' / 'prospective' = the two mode names; the NAMES run_next_retrospective_step / run_next_prospective_step = the translated functions of that name; "
               "os.path.abspath(args.outdir) = THE output directory of the world, os.path.abspath(args.screen) = the operator's screen of this invocation (SInput); and world_call = what a call "
               "run_next(output_dir=, input_screen=, extra_args=, batch_size=) is in a world with crashes: the translated function is applied to the tree as it is now, its result (value + actions / exception after "
               "some actions / named directory) is played against the next crash-schedule entry by the rule of Orchestrate.attempt (exec_result; C19_model_is_source_main_call_is_attempt proves it IS attempt), the "
               "value reaches main() only if the call ran to its return, an empty schedule ends the observation.  "
               "DIR_SORT_KEY (C19_model_is_source_dir_sort_key*): translated over path NAMES (a path = the list of its components, a component = its code points) with the primitives os.path.basename = last "
               "component, s.split('_') = the pieces between underscores, l[1] = second piece or IndexError, int(s) = the value of an unsigned ASCII decimal numeral (anything else: ValueError - Python's int also accepts a sign, "
               "surrounding white space and non-ASCII digits, which the model does not represent); proved to return i on '.../<prefix>_<numeral of i>', i.e. the index primitives iter_index / plate_index that examine's "
               "configuration gives to dir_sort_key(x) on the model value of 'iter_<i>' / 'plate_<j>' (i, j >= 0; a directory named e.g. iter_-1 or iter_1_old is outside the model).  examine itself still uses the index primitive "
               "(its paths are model values, not names).  VALIDATE_INITIAL (C19_model_is_source_validate_initial_*): validate_initial_output_dir_and_get_result_files_as_dict (defined by the script, called by none of its functions) is re-translated as a "
               "whole function (configuration C19_VALIDATE_INITIAL -> Generated/SrcOrchInit.v; proofs in a file of their own, Proofs/C19Source_ValidateInitial.v) over a globbed job directory ((i, j), its files).  From the "
               "translation: the `or` of the two emptiness tests and the None return, the ORDER of the three [0] reads (the test screen first: that read is the IndexError), the with / json.load, which variable sits "
               "under which key of the returned dict.  TRUSTED primitives: list(glob.glob(os.path.join(dir, '*', NAME))) for NAME = test.screen.h5 / training.screen.h5 = the one-or-no file of that kind "
               "(glob_in_plate), for screen_metadata.json = [its n_unobserved_plates] or [] (glob_meta); len; l[0] (IndexError on []); open(path) / json.load = the value the file holds; the dict literal "
               "{'test_screen': a, 'training_screen': b, 'screen_metadata': c} = the record mkif a b c.  The harness exercises the real function on every subset of the seven files (each required file missing "
               "in turn), also with files one directory level too high, against the model (wire op 5) and against the specification written out in the predicate.  "
               "GET_ARGS (C19_model_is_source_get_args*): get_args() is re-translated as a whole function (configuration C19_GET_ARGS -> Generated/SrcOrchArgs.v; proofs Proofs/C19Source_GetArgs.v and, composed with main(), "
               "Proofs/C19Source_GetArgsMain.v).  The parser object is its option table; from the translation: the four add_argument calls in their order and, for each, the option string, type=str / type=int / "
               "choices=[...], required=, default= as the call's own arguments give them (typed holes: another keyword such as dest= / nargs= / action=, a default that is not an int, a computed value are refused), "
               "the tuple assignment and the return.  TRUSTED primitives: argparse.ArgumentParser(description=..) = the empty table; the names str / int as type= ; help= texts are evaluated and not used; "
               "parser.parse_known_args() = Orchestrate.parse_known_args on the table built so far and sys.argv[1:] - the model of argparse: attribute name = option string without '--' and with '-' as '_'; words "
               "read from the left; a declared option string takes the next word as its value (none, or one starting with '-': error), int = an unsigned ASCII decimal numeral, choices = membership, a later "
               "occurrence overrides; any other word goes to the remaining arguments in order; defaults / None for options not given; a missing required option is an error; every argparse error = SystemExit(2) "
               "(why 64).  NOT represented (the model answers 90 and the harness does not compare): --opt=value, abbreviations (incl. '--' and '-'), -h / --help, words starting with '-' and a digit or '.', words "
               "containing a space after a '-', integers in the other forms int() accepts (sign, '_', white space, non-ASCII digits).  The differential runs the real argparse against this model on several hundred "
               "command lines.  PATH HELPERS (C19_model_is_source_get_script_location .. _paths_in_checkout): the five helpers are re-translated (configurations C19_PATH_* -> Generated/SrcOrchPaths.v; proofs "
               "Proofs/C19Source_Paths.v) over absolute paths as lists of components; from the translation: the string literals, the nesting of the calls, which helper builds on which (calls of the translated "
               "helpers).  TRUSTED primitives: __file__ = a parameter, os.path.realpath(__file__) = the path it resolves to (absolute, without links, '.', '..'); os.path.dirname = all components but the last; "
               "os.path.join(p, c..) with relative single-component names = append; os.path.abspath of an absolute path = textual normalisation ('.' dropped, '..' removes the component before it, '/..' = '/').  "
               "CLOSED BUILDERS (C19_model_is_source_run_*_closed): the four run_* functions re-translated a second time (C19_RUN_*_CLOSED -> Generated/SrcOrchCmdClosed.v; proofs Proofs/C19Source_CmdClosed.v) with "
               "get_main_nf_file() / get_repository_root() = calls of the translated helpers instead of the opaque word WMainNf; additional TRUSTED primitives: a path used as a command-line word = "
               "Orchestrate.word_of_file root (WMainNf exactly for root/main.nf, where root is the checkout whose pipeline the model describes); check_call's cwd= is evaluated and not interpreted.  Every function "
               "of the script is now translated.")

KINDS = ["training", "test", "thetas", "dist", "selected", "advanced", "meta"]
FILES = ["training.screen.h5", "test.screen.h5", "thetas_0.h5", "distance_matrix_chunk_0.h5", "selected_plate",
         "advanced_screen.h5", "screen_metadata.json"]
CANON = [0, 1, 2, 3, 4, 5, 6]
FULL = 99
NAME = "exp"
MODES = ["retrospective", "prospective"]


_nf_names = None


def nf_names():
    """{kind: file name the nextflow modules of the tree under test write}, read by harness/nf_reader.py from the modules' output: /
    script: blocks; the fake publishes under THESE names, so a renamed module output shows up as a script that finds nothing.
    A tree the reader refuses (the theorems about it are then broken obligations): the names as they were read into the harness."""
    global _nf_names
    if _nf_names is None:
        try:
            import nf_reader
            _nf_names = nf_reader.published_names(common.REPO)[0]
        except Exception:      # noqa: BLE001
            _nf_names = {}
    return _nf_names


class Crash(BaseException):
    pass


class StopRun(BaseException):
    pass


class _Proxy:
    def __init__(self, real, **over):
        self.__dict__["_real"] = real
        self.__dict__.update(over)

    def __getattr__(self, a):
        return getattr(self.__dict__["_real"], a)


# --------------------------------------------------------------------------- loading the script / the fake

_REPAIR_OLD = "        plate_dirs = sorted(plate_dirs, key=dir_sort_key)\n"
_REPAIR_NEW = _REPAIR_OLD + "        if not plate_dirs:\n            continue\n"
# the repair of the torn-marker finding (in /repo since its `fix:`; applied in memory only to a tree that lacks it): an unreadable marker
# (or one that is not a dict with the key the script reads) counts as no marker, so examine names the directory as "invalid structure"
# and the operator removes it
_TORN_OLD = "        screen_metadata_obj = json.load(f)\n\n    return screen_metadata_obj\n"
_TORN_NEW = ("        try:\n            screen_metadata_obj = json.load(f)\n        except ValueError:\n            screen_metadata_obj = None\n\n"
             "    if not isinstance(screen_metadata_obj, dict) or 'n_unobserved_plates' not in screen_metadata_obj:\n        return None\n\n"
             "    return screen_metadata_obj\n")
_PATCHES = {"repaired": [(_REPAIR_OLD, _REPAIR_NEW)], "torn-repaired": [(_TORN_OLD, _TORN_NEW)]}
_mods = {}
_fake_mod = None


def load_script(variant="real", fresh=False):
    """the script as a module.  fresh=True: a NEW module object (what a new process has: no module-level state survives a
    restart of the script - every invocation of the differential runs gets one)"""
    if variant in _mods and not fresh:
        return _mods[variant]
    name = "batchie_orchestrator_c19_" + variant.replace("-", "_")
    if variant == "real":
        spec = importlib.util.spec_from_file_location(name, SCRIPT)
        mod = importlib.util.module_from_spec(spec)
        spec.loader.exec_module(mod)
    else:
        src = open(SCRIPT).read()
        for old, new in _PATCHES[variant]:
            if src.count(old) != 1:
                _mods[variant] = None
                return None
            src = src.replace(old, new)
        mod = type(sys)(name)
        mod.__file__ = SCRIPT
        exec(compile(src, SCRIPT + "<" + variant + ">", "exec"), mod.__dict__)
    mod.logger.disabled = True
    if not fresh:
        _mods[variant] = mod
    return mod


def fake_module():
    global _fake_mod
    if _fake_mod is None:
        loader = importlib.machinery.SourceFileLoader("fake_nextflow_c19", FAKE)
        spec = importlib.util.spec_from_loader("fake_nextflow_c19", loader)
        _fake_mod = importlib.util.module_from_spec(spec)
        loader.exec_module(_fake_mod)
    return _fake_mod


def _tmpdir():
    os.makedirs(common.WORK, exist_ok=True)
    return tempfile.mkdtemp(dir=common.WORK, prefix="c19_")


# --------------------------------------------------------------------------- trees

def opt(x):
    return [] if x is None else [x]


def read_plate(pdir):
    """plate directory -> [training?, test, thetas, dist, selected?, advanced?, meta?] (no ghost)"""
    d = os.path.join(pdir, NAME)

    def rd(i):
        p = os.path.join(d, FILES[i])
        if not os.path.isfile(p):
            return None
        with open(p) as f:
            return f.read()

    def scr(i):
        t = rd(i)
        return None if t is None else list(json.loads(t)["unobserved"])
    sel = rd(4)
    meta = rd(6)
    return [opt(scr(0)), int(rd(1) is not None), int(rd(2) is not None), int(rd(3) is not None),
            opt(None if sel is None else int(sel.strip())), opt(scr(5)),
            opt(None if meta is None or not marker_readable(os.path.join(d, FILES[6])) else int(json.loads(meta)["n_unobserved_plates"]))]


def read_tree(out):
    """-> sorted [[i, [[j, plate]...]]...]"""
    res = []
    if not os.path.isdir(out):
        return res
    for e in os.listdir(out):
        m = re.fullmatch(r"iter_(-?\d+)", e)
        p = os.path.join(out, e)
        if not m or not os.path.isdir(p):
            continue
        pl = []
        for q in os.listdir(p):
            m2 = re.fullmatch(r"plate_(-?\d+)", q)
            if m2 and os.path.isdir(os.path.join(p, q)):
                pl.append([int(m2.group(1)), read_plate(os.path.join(p, q))])
        res.append([int(m.group(1)), sorted(pl)])
    return sorted(res)


TORN = FILES[6] + "#torn"


def marker_readable(path):
    """does screen_metadata.json hold what the script reads from it (a JSON object with n_unobserved_plates)?"""
    try:
        with open(path) as f:
            o = json.load(f)
        return isinstance(o, dict) and "n_unobserved_plates" in o
    except (OSError, ValueError):
        return False


def scan(out, check=False):
    """cheap view of the tree: sorted [[i, [[j, set of published file names]...]]...] (no file is opened unless check=True:
    then a marker file that cannot be read is listed as 'screen_metadata.json#torn' instead)"""
    res = []
    try:
        its = os.listdir(out)
    except OSError:
        return res
    for e in its:
        m = re.fullmatch(r"iter_(-?\d+)", e)
        p = os.path.join(out, e)
        if not m or not os.path.isdir(p):
            continue
        pl = []
        for q in os.listdir(p):
            m2 = re.fullmatch(r"plate_(-?\d+)", q)
            if m2 and os.path.isdir(os.path.join(p, q)):
                try:
                    names = set(os.listdir(os.path.join(p, q, NAME)))
                except OSError:
                    names = set()
                if check and FILES[6] in names and not marker_readable(os.path.join(p, q, NAME, FILES[6])):
                    names = (names - {FILES[6]}) | {TORN}
                pl.append([int(m2.group(1)), names])
        res.append([int(m.group(1)), sorted(pl, key=lambda t: t[0])])
    return sorted(res, key=lambda t: t[0])


def torn_of(sc):
    return [[i, j] for i, pls in sc for j, names in pls if TORN in names]


def write_tree(out, tree):
    os.makedirs(out, exist_ok=True)
    for i, plates in tree:
        os.makedirs(os.path.join(out, "iter_%d" % i), exist_ok=True)
        for j, pd in plates:
            d = os.path.join(out, "iter_%d" % i, "plate_%d" % j)
            os.makedirs(d, exist_ok=True)
            content = {0: pd[0] and json.dumps({"unobserved": pd[0][0]}), 1: pd[1] and "{}", 2: pd[2] and "t", 3: pd[3] and "d",
                       4: pd[4] and "%d\n" % pd[4][0], 5: pd[5] and json.dumps({"unobserved": pd[5][0]}),
                       6: pd[6] and json.dumps({"n_unobserved_plates": pd[6][0]})}
            for k, c in content.items():
                if c:
                    os.makedirs(os.path.join(d, NAME), exist_ok=True)
                    with open(os.path.join(d, NAME, FILES[k]), "w") as f:
                        f.write(c)


def marked(sc):
    return [(i, j) for i, pls in sc for j, names in pls if FILES[6] in names]


# --------------------------------------------------------------------------- running the real script under a schedule

class Runner:
    def __init__(self, mode, bs, n, sched, spawn=False, variant="real", single_invocation=False):
        self.mode, self.bs, self.n = mode, bs, n
        self.sched = [list(e) for e in sched]
        self.pos = 0
        self.spawn = spawn
        self.single = single_invocation
        self.mod = load_script(variant)
        self.variant = variant
        self.tmp = _tmpdir()
        self.out = os.path.join(self.tmp, "out")
        self.scr_dir = os.path.join(self.tmp, "screens")   # the operator's screen files: screens/<index>/exp.h5
        self.scr_re = re.compile(re.escape(self.scr_dir) + r"/(-?\d+)/" + re.escape(NAME) + r"\.h5")
        self.scr_made = {}
        self.fakelog = os.path.join(self.tmp, "fake.log")
        self.log = []        # one item per call of run_next_* (flat)
        self.ilog = []       # the same items grouped per invocation of main(): [operator screen, [items], end]
        self.cur_inv = None
        self.events = []     # chronological observations for the property predicate
        self.by = {}
        self.cur_k, self.cur_order, self.cur_logged = FULL, CANON, True
        self.cur_torn = 0
        self.late_deaths = 0
        # entries [k, order, 1]: the interruption comes while publication number k-4 is under way (a torn marker, see the fake)
        self.tearing = any(len(e) > 2 and e[2] for e in self.sched)
        self.invocations = 0

    def scan(self):
        return scan(self.out, check=self.tearing)

    # -- the operator: which screen file an invocation is given, as a function of the output directory
    def op_screen(self):
        """retrospective: always the same file; prospective: a new file per batch - the operator hands over screen q
        when q batches' worth of steps are complete (Model/Orchestrate.op_screen)"""
        if self.mode != "prospective":
            return 0
        sc = self.scan()
        return (len(marked(sc)) + len(torn_of(sc))) // self.bs      # he counts marker FILES; he does not parse them

    def screen_path(self, r):
        p = self.scr_made.get(r)
        if p is None:
            p = os.path.join(self.scr_dir, str(r), NAME + ".h5")
            os.makedirs(os.path.dirname(p), exist_ok=True)
            with open(p, "w") as f:
                json.dump({"unobserved": list(range(self.n)), "operator_screen": r}, f)
            self.scr_made[r] = p
        return p

    def screen_index(self, p):
        if not getattr(self, "scr_dir", None) or not isinstance(p, str):
            return None
        m = self.scr_re.fullmatch(p)
        return int(m.group(1)) if m else None

    # -- helpers
    def step_of_path(self, p):
        m = re.fullmatch(re.escape(self.out) + r"/iter_(-?\d+)/plate_(-?\d+)", os.path.abspath(p))
        return (int(m.group(1)), int(m.group(2))) if m else None

    def sp(self, p):
        r = self.screen_index(p)
        if r is not None:
            return [0, r]      # the operator's screen number r
        m = re.fullmatch(re.escape(self.out) + r"/iter_(-?\d+)/plate_(-?\d+)/" + NAME + r"/(.*)", p or "")
        if m and m.group(3) in FILES:
            return [1, int(m.group(1)), int(m.group(2)), FILES.index(m.group(3))]
        return [9, str(p)]

    def norm(self, a):
        a = str(a)
        if a.startswith("--excludes="):
            # the ids come from glob.glob('plate_*/*/selected_plate'), whose order is the file system's; the pipeline uses them as a
            # set (tokenize(',') -> --batch-plate-id ids -> membership tests in select_next_plate): compared as a set here too
            ids = a[len("--excludes="):].split(",")
            a = "--excludes=" + ",".join(sorted(ids, key=lambda x: (0, int(x), "") if re.fullmatch(r"-?\d+", x) else (1, 0, x)))
        if self.scr_dir in a:
            a = self.scr_re.sub(lambda m: "$IN" + m.group(1), a)
        return a.replace(self.out, "$OUT")

    def expected_files(self, i, j):
        if self.mode == "retrospective":
            ks = range(7) if (i, j) == (0, 0) else ((2, 3, 4, 5, 6) if j == 0 else (4, 5, 6))
        else:
            ks = (2, 3, 4, 6) if j == 0 else (4, 5, 6)
        return [FILES[k] for k in ks]

    def context(self, sc):
        return dict(empty_iters=[i for i, pls in sc if not pls],
                    marker_incomplete=[[i, j] for i, pls in sc for j, names in pls if FILES[6] in names
                                       and any(f not in names for f in self.expected_files(i, j))],
                    marker_early=[[i, j] for i, pls in sc for j, names in pls if FILES[6] in names and FILES[4] not in names],
                    marked=marked(sc), torn_markers=torn_of(sc))

    def emit(self, item):
        self.log.append(item)
        if self.cur_inv is not None:
            self.cur_inv[1].append(item)
        self.cur_logged = True

    def note_delete(self, path, who):
        s = self.step_of_path(path)
        if s is None or not os.path.isdir(path):
            return
        sc = self.scan()
        ev = dict(type="delete", who=who, step=list(s), had_marker=s in marked(sc))
        ev.update(self.context(sc))
        self.events.append(ev)
        self.by.pop(s, None)

    # -- the three patched primitives
    def _makedirs(self, path, mode=0o777, exist_ok=False):
        if os.path.abspath(path) == self.out:
            if self.pos >= len(self.sched):
                raise StopRun()
            self.cur_k, self.cur_order = self.sched[self.pos][:2]
            self.cur_torn = int(len(self.sched[self.pos]) > 2 and bool(self.sched[self.pos][2]))
            self.pos += 1
            self.cur_logged = False
            return os.makedirs(path, exist_ok=exist_ok)
        if self.cur_k == 1:
            raise Crash()
        if self.cur_k == 2:
            os.makedirs(os.path.dirname(path), exist_ok=True)
            raise Crash()
        return os.makedirs(path, exist_ok=exist_ok)

    def _rmtree(self, path, ignore_errors=False, **kw):
        if self.cur_k == 0:
            raise Crash()
        self.note_delete(path, "script")
        return shutil.rmtree(path, ignore_errors=ignore_errors, **kw)

    def _check_call(self, cmd, cwd=None, **kw):
        if self.cur_k == 3:
            raise Crash()
        p = self.cur_k - 4
        cmd = list(cmd)
        o = dict(zip(cmd[:-1], cmd[1:]))
        outdir = o.get("--outdir")
        s = self.step_of_path(outdir)
        launch = self.parse_launch(cmd, o)
        sc = self.scan()
        inputs = {}
        for key in ("--screen", "--training_screen", "--test_screen"):
            if key in o:
                try:
                    inputs[key] = open(o[key]).read()
                except OSError:
                    inputs[key] = None
        ev = dict(type="launch", step=list(s) if s else None, argv=[self.norm(a) for a in cmd], inputs=inputs,
                  inv=self.invocations, given=self.cur_inv[0] if self.cur_inv else None,
                  screen_arg=self.screen_index(o.get("--screen")))
        ev.update(self.context(sc))
        self.events.append(ev)
        env = {"FAKE_NF_LOG": self.fakelog, "FAKE_NF_ORDER": ",".join(KINDS[k] for k in self.cur_order),
               "FAKE_NF_CRASH_AFTER": str(p), "FAKE_NF_PYTHON": sys.executable,
               "FAKE_NF_TORN": "1" if self.cur_torn else "", "FAKE_NF_FILES": json.dumps(nf_names())}
        rc = None
        try:
            if self.spawn:
                old = {k: os.environ.get(k) for k in list(env) + ["PATH"]}
                os.environ.update(env)
                os.environ["PATH"] = FAKE_DIR + os.pathsep + old["PATH"]
                try:
                    subprocess.check_call(cmd, cwd=cwd, **kw)   # exactly the script's call
                    rc = 0
                finally:
                    for k, v in old.items():
                        if v is None:
                            os.environ.pop(k, None)
                        else:
                            os.environ[k] = v
            else:
                if cmd[0] != "nextflow" or not os.path.isdir(cwd):
                    raise AssertionError("unexpected command %r cwd %r" % (cmd[0], cwd))
                rc = fake_module().main(cmd[1:], env)
                if rc != 0:
                    raise subprocess.CalledProcessError(rc, cmd)
            if rc == 0 and self.cur_torn and s is not None:
                # tearing entry whose event number is one past the last publication: the run is interrupted in its own wrap-up
                # (report, trace, clean-up) - every file is whole, the exit status is not 0
                names = dict(((i, j), nm) for i, pls in self.scan() for j, nm in pls).get(s, set())
                if p == sum(1 for k in self.cur_order if FILES[k] in names) + 1:
                    self.late_deaths += 1
                    raise subprocess.CalledProcessError(1, cmd)
        except subprocess.CalledProcessError as e:
            rc = e.returncode
            raise
        finally:
            sc = self.scan()
            names = dict(((i, j), nm) for i, pls in sc for j, nm in pls).get(s, set())
            pubs = [k for k in self.cur_order if FILES[k] in names or (k == 6 and TORN in names)]
            if s is not None:
                self.by[s] = launch
            self.emit([4, s[0] if s else -1, s[1] if s else -1, launch, pubs, int(rc == 0)])
            self.events.append(dict(type="after", marked=marked(sc)))

    def parse_launch(self, cmd, o):
        md = o.get("--mode")
        if md == "retrospective" and o.get("--initialize") == "true":
            return [0, self.sp(o.get("--screen"))]
        if md == "retrospective" and o.get("--initialize") == "false":
            return [1, self.sp(o.get("--training_screen")), self.sp(o.get("--test_screen"))]
        if md == "prospective":
            return [2, self.sp(o.get("--screen"))]
        if md == "next_plate" and o.get("--reveal") == "true":
            th = re.fullmatch(re.escape(self.out) + r"/iter_(-?\d+)/plate_(-?\d+)/\*/thetas\*\.h5", o.get("--thetas", ""))
            dm = re.fullmatch(re.escape(self.out) + r"/iter_(-?\d+)/plate_(-?\d+)/\*/distance_matrix_chunk\*\.h5", o.get("--distance_matrix", ""))
            frm = [int(th.group(1)), int(th.group(2))] if th and dm and th.groups() == dm.groups() else [-1, -1]
            ex = [a for a in cmd if a.startswith("--excludes=")]
            excl = sorted(int(x) for x in ex[0][len("--excludes="):].split(",")) if ex else []
            return [3, self.sp(o.get("--screen")), frm, excl]
        return [8, [self.norm(a) for a in cmd]]

    # -- driving
    def drive(self):
        mod = self.mod
        saved = (mod.os, mod.shutil, mod.subprocess, sys.argv)
        try:
            while self.pos < len(self.sched):
                pos0 = self.pos
                self.invocations += 1
                # every invocation is a new process of the script: a fresh module, no state carried over in memory
                mod = load_script(self.variant, fresh=True) or self.mod
                mod.os = _Proxy(os, makedirs=self._makedirs)
                mod.shutil = _Proxy(shutil, rmtree=self._rmtree)
                mod.subprocess = _Proxy(subprocess, check_call=self._check_call)
                # one invocation of the script; the operator picks the screen file from what the output directory shows
                r = self.op_screen()
                self.cur_inv = [r, [], 1]      # end: 0 main() returned, 1 it did not (interruption / exception), 2 schedule exhausted
                self.ilog.append(self.cur_inv)
                sys.argv = ["batchie.py", "--screen", self.screen_path(r), "--batch-size", str(self.bs), "--mode", self.mode,
                            "--outdir", self.out]
                try:
                    mod.main()
                    if not self.cur_logged:
                        self.emit([1])
                    self.cur_inv[2] = 0
                except StopRun:
                    self.cur_inv[2] = 2
                    break
                except Crash:
                    self.emit([2, self.cur_k])
                except subprocess.CalledProcessError:
                    pass
                except RuntimeError as e:
                    msg = str(e)
                    m = re.search(r"Consider deleting this directory to continue simulation: (.*)$", msg)
                    if m:
                        d = m.group(1)
                        s = self.step_of_path(d)
                        if s is None:
                            # the script names something that is not a job directory (an iteration directory, the output
                            # directory ...): the operator does what it says; every job directory underneath is deleted
                            # with it and judged like any other deletion (a completed step must never be deleted)
                            dd = os.path.abspath(d)
                            if not (dd == self.out or dd.startswith(self.out + os.sep)) or not os.path.isdir(dd):
                                raise
                            for root, dirs, _files in os.walk(dd):
                                for x in dirs:
                                    self.note_delete(os.path.join(root, x), "operator")
                            shutil.rmtree(dd)
                            mi = re.fullmatch(re.escape(self.out) + r"/iter_(-?\d+)", dd)
                            self.emit([0, 3, int(mi.group(1)) if mi else -1, -1])
                            continue
                        self.note_delete(d, "operator")
                        shutil.rmtree(d)
                        self.emit([0, 1 if "invalid structure" in msg else 2, s[0], s[1]])
                    elif "Could not find test screen" in msg:
                        self.script_error(e)
                        self.fail(1)
                    else:
                        raise
                except json.JSONDecodeError as e:
                    # json.load of a marker file failed inside examine: nothing was touched, no directory is named
                    ev = dict(type="script-error", error=type(e).__name__, msg=str(e)[:200])
                    ev.update(self.context(self.scan()))
                    self.events.append(ev)
                    self.emit([3, 70])
                except ValueError as e:
                    if "No thetas or dist_chunks found" not in str(e):
                        raise
                    self.script_error(e)
                    self.fail(2)
                except TypeError as e:
                    self.script_error(e)
                    self.fail(9)
                except Exception as e:      # noqa: BLE001 - any other exception of the script: it neither continued nor named a directory
                    ev = dict(type="script-error", error=type(e).__name__, msg=str(e)[:200])
                    ev.update(self.context(self.scan()))
                    self.events.append(ev)
                    self.fail(7)
                if self.pos == pos0 or self.single:
                    break
        finally:
            self.mod.os, self.mod.shutil, self.mod.subprocess, sys.argv = saved
        self.cur_inv = None
        tree = read_tree(self.out)
        self.final = [[i, [[j, pd + [opt(unstamp(self.by.get((i, j))))]] for j, pd in pls]] for i, pls in tree]
        ev = dict(type="end")
        ev.update(self.context(self.scan()))
        self.torn = sorted(torn_of(scan(self.out, check=True)))
        self.events.append(ev)
        return self

    def script_error(self, e):
        """the script raised an exception that names no directory (C19_step_safe: never, on a reachable tree)"""
        ev = dict(type="script-error", error=type(e).__name__, msg=str(e)[:200])
        ev.update(self.context(self.scan()))
        self.events.append(ev)

    def fail(self, w):
        self.emit([2, 3] if self.cur_k == 3 else [3, w])

    def close(self):
        shutil.rmtree(self.tmp, ignore_errors=True)


def unstamp(l):
    """launch as kept in the tree's ghost field: the operator's screen without its number (the numbers are in the log)"""
    if l is None:
        return None
    where = {0: (1,), 1: (1, 2), 2: (1,), 3: (1,)}.get(l[0], ())
    return [[0] if t in where and isinstance(x, list) and len(x) == 2 and x[0] == 0 else x for t, x in enumerate(l)]


def run_schedule(mode, bs, n, sched, spawn=False, variant="real", single=False):
    r = Runner(mode, bs, n, sched, spawn, variant, single)
    try:
        return r.drive()
    finally:
        r.close()


# --------------------------------------------------------------------------- the property predicate (implementation only)

_cf_cache = {}


def step_of(bs, c):
    return (c // bs, c % bs)


def crash_free_ref(mode, bs, n, L, variant="real"):
    key = (mode, bs, n, L if mode == "prospective" else 0, variant)
    if key not in _cf_cache:
        r = run_schedule(mode, bs, n, [[FULL, CANON]] * (L if mode == "prospective" else n + 1), spawn=False, variant=variant)
        launches = {}
        screens = {}
        for ev in r.events:
            if ev["type"] == "launch":
                launches[tuple(ev["step"])] = (ev["argv"], ev["inputs"])
                screens[tuple(ev["step"])] = ev["screen_arg"]
        sel = {(i, j): pd[4] for i, pls in r.final for j, pd in pls if pd[6]}
        _cf_cache[key] = dict(launches=launches, screens=screens, sel=sel, n_done=len(sel))
    return _cf_cache[key]


def judge(mode, bs, n, sched, run, cf):
    """-> list of (clause, text, context) in chronological order; empty = the property holds on this run"""
    fails = []
    for ev in run.events:
        if ev.get("type") == "script-error":
            fails.append(("script-raised", "the script ended with %s (%s): it neither continued the simulation nor named a directory to remove" % (ev["error"], ev["msg"]), ev))
    ever = set()
    iters_of_inv = {}
    for ev in run.events:
        t = ev["type"]
        if t == "delete":
            s = tuple(ev["step"])
            if ev["had_marker"]:
                fails.append(("completed-step-deleted", "completed step %s deleted by the %s" % (s, ev["who"]), ev))
                ever.add(s)
        elif t == "launch":
            s = tuple(ev["step"]) if ev["step"] else None
            mk = [tuple(x) for x in ev["marked"]]
            if s is not None and ev.get("screen_arg") is not None:
                # the operator screen this step reads in the execution that is never interrupted (prospective: iteration i
                # is run entirely with the operator's screen number i)
                want_r = cf["screens"].get(s, s[0] if mode == "prospective" else 0)
                if ev["screen_arg"] != want_r:
                    fails.append(("wrong-operator-screen", "step %s launched with the operator's input screen #%s; the never-interrupted "
                                  "execution gives it screen #%s" % (s, ev["screen_arg"], want_r), ev))
            if mode == "prospective" and s is not None:
                seen = iters_of_inv.setdefault(ev.get("inv"), [])
                if seen and s[0] not in seen:
                    fails.append(("invocation-crosses-batch", "invocation #%s (given the operator's screen #%s) launched step %s after steps of "
                                  "iteration %s: one invocation ran into the next batch" % (ev.get("inv"), ev.get("given"), s, seen), ev))
                if s[0] not in seen:
                    seen.append(s[0])
            if s in ever:
                fails.append(("completed-step-reexecuted", "step %s, completed earlier, is executed again" % (s,), ev))
            if sorted(mk) != [step_of(bs, c) for c in range(len(mk))] or s != step_of(bs, len(mk)):
                fails.append(("index-skipped", "step %s launched while the completed steps are %s" % (s, sorted(mk)), ev))
            if mode == "retrospective" and s is not None and s != (0, 0) and s[0] >= 0 and 0 <= s[1] < bs:
                # absolute clause: started from the advanced screen of the immediate predecessor
                pi, pj = step_of(bs, s[0] * bs + s[1] - 1)
                want_scr = "$OUT/iter_%d/plate_%d/%s/advanced_screen.h5" % (pi, pj, NAME)
                o = dict(zip(ev["argv"][:-1], ev["argv"][1:]))
                got = o.get("--training_screen", o.get("--screen"))
                if got != want_scr:
                    fails.append(("not-from-predecessor", "step %s started from %s, not from the output of its predecessor %s" % (s, got, want_scr), ev))
            ref = cf["launches"].get(s)
            if ref is None:
                fails.append(("inputs-differ", "step %s is never executed by the uninterrupted run" % (s,), ev))
            elif ref[0] != ev["argv"]:
                diff = [(a, b) for a, b in zip(ref[0], ev["argv"]) if a != b] or [(ref[0][len(ev["argv"]):], ev["argv"][len(ref[0]):])]
                fails.append(("inputs-differ", "step %s launched with a different command than in the uninterrupted run: %s" % (s, diff[:3]), ev))
            elif ref[1] != ev["inputs"]:
                fails.append(("predecessor-screen-differs", "step %s started from a screen with different content than in the uninterrupted run" % (s,), ev))
            ever.update(mk)
        elif t == "after":
            ever.update(tuple(x) for x in ev["marked"])
        elif t == "end":
            for i, pls in run.final:
                for j, pd in pls:
                    if pd[6] and pd[4] != cf["sel"].get((i, j)):
                        fails.append(("selection-differs", "step %s is marked complete with selection %s, uninterrupted run recorded %s"
                                      % ((i, j), pd[4], cf["sel"].get((i, j))), ev))
            ncrash = sum(1 for e in sched if e[0] < FULL)
            want = min(n, len(sched) - 3 * ncrash) if mode == "retrospective" else len(sched) - 3 * ncrash
            if len(ev["marked"]) < min(want, cf["n_done"]):
                fails.append(("did-not-continue", "only %d steps complete after %d calls with %d crashes" % (len(ev["marked"]), len(sched), ncrash), ev))
    return fails


INVOCATION_CLAUSES = ("wrong-operator-screen", "invocation-crosses-batch")


def lead_failure(fails):
    """the failure a run is reported under: an invocation-boundary clause is never folded into another finding"""
    for f in fails:
        if f[0] in INVOCATION_CLAUSES:
            return f
    return fails[0]


def classify(mode, fails):
    if not fails:
        return None
    clause, _, ev = lead_failure(fails)
    if clause in INVOCATION_CLAUSES:
        # kept apart from the runs in which a marker was published before the selection, so that a run free of the known
        # finding is reported as the counterexample whenever there is one
        return "other:%s:%s%s" % (clause, mode, ":marker-published-early" if ev.get("marker_early") else "")
    if ev.get("marker_early") and mode == "prospective":
        return "prospective-marker-before-selection"
    if ev.get("marker_incomplete"):
        # a directory holds the marker while another output of the same step is not (yet) there: only possible when the marker is
        # not the last file published (asynchronous publishing; in the retrospective / next_plate workflows data dependence alone
        # would put it last)
        return "marker-published-before-other-outputs"
    if ev.get("empty_iters") and clause in ("completed-step-deleted", "completed-step-reexecuted"):
        return "empty-iter-dir-reruns-completed-step"
    return "other:%s:%s" % (clause, mode)


# --------------------------------------------------------------------------- probing which variant /repo is

_probed = None


def probed_fixed():
    """does the real examine skip an iteration directory without plate directories?"""
    global _probed
    if _probed is None:
        d = _tmpdir()
        try:
            done = [[], 0, 0, 0, [0], [[1]], [1]]
            write_tree(d, [[0, [[0, done], [1, done]]], [1, []]])
            r = load_script().examine_output_dir_to_determine_current_iteration(d, 2)
            _probed = 1 if (r[0], r[1]) == (1, 0) else 0
        finally:
            shutil.rmtree(d, ignore_errors=True)
    return _probed


_probed_t = None


def probed_tfix():
    """does the real validate_job_dir_and_return_meta treat a marker cut short as a missing one (None), or does json.load's
    exception escape?  (selects the model variant the torn runs are COMPARED with; what the runs are JUDGED by does not depend on it)"""
    global _probed_t
    if _probed_t is None:
        d = _tmpdir()
        try:
            write_tree(d, [[0, [[0, [[], 0, 0, 0, [], [], [1]]]]]])
            with open(os.path.join(d, "iter_0", "plate_0", NAME, FILES[6]), "w") as f:
                f.write('{"n_unobserved')
            try:
                _probed_t = 1 if load_script().validate_job_dir_and_return_meta(os.path.join(d, "iter_0", "plate_0")) is None else 0
            except Exception:      # noqa: BLE001 - the exception escapes: the script before the repair
                _probed_t = 0
        finally:
            shutil.rmtree(d, ignore_errors=True)
    return _probed_t


# the contents a screen_metadata.json may be found with: (class, text or bytes, wire encoding of the file for the model, what
# validate_job_dir_and_return_meta must answer: None or the value of n_unobserved_plates)
def marker_contents(m, rng):
    whole = json.dumps({"n_unique_samples": 2, "n_unobserved_plates": m, "size": 12}, indent=4)
    cut = rng.randint(1, len(whole) - 1)
    return [
        ("whole", whole, [2, m], m),
        ("whole-only-key", json.dumps({"n_unobserved_plates": m}), [2, m], m),
        ("cut", whole[:cut], [], None),
        ("cut-before-last-brace", whole[:-1], [], None),
        ("cut-inside-key", whole[:whole.index("n_unobserved") + 5], [], None),
        ("empty", "", [], None),
        ("blank", "\n", [], None),
        ("trailing-garbage", whole + "}", [], None),
        ("not-utf8", b"\xff\xfe" + whole.encode(), [], None),
        ("json-list", "[%d]" % m, [0], None),
        ("json-number", "%d" % m, [0], None),
        ("json-null", "null", [0], None),
        ("json-string-holding-the-key", '"n_unobserved_plates"', [0], None),
        ("json-list-holding-the-key", '["n_unobserved_plates"]', [0], None),
        ("dict-empty", "{}", [1], None),
        ("dict-other-keys", json.dumps({"n_plates": m, "size": 3}), [1], None),
    ]


def put_marker(pdir, content):
    os.makedirs(os.path.join(pdir, NAME), exist_ok=True)
    with open(os.path.join(pdir, NAME, FILES[6]), "wb") as f:
        f.write(content if isinstance(content, bytes) else content.encode())


# --------------------------------------------------------------------------- generators

def npubs(mode, bs, c):
    j = c % bs
    if mode == "retrospective":
        return 7 if c == 0 else (5 if j == 0 else 3)
    return 4 if j == 0 else 3


def orders_for(mode):
    if mode == "retrospective":
        return [CANON, [1, 0, 2, 3, 4, 5, 6]]
    return [CANON, [6, 0, 1, 2, 3, 4, 5], [0, 1, 2, 6, 3, 4, 5], [1, 0, 2, 3, 6, 4, 5]]


def total_steps(mode, bs, n):
    return n if mode == "retrospective" else bs + 1


def single_points(mode, bs, n):
    T = total_steps(mode, bs, n)
    for a in range(T):
        for k in range(0, 4 + npubs(mode, bs, a) + 1):
            yield a, k


def mk_sched(T, crashes, tail=3):
    """crashes: list of (gap of full entries before it, k, order[, torn])"""
    s = []
    for c in crashes:
        gap, k, order = c[:3]
        s += [[FULL, CANON]] * gap + [[k, order] + list(c[3:])]
    done = sum(c[0] for c in crashes)
    return s + [[FULL, CANON]] * (max(T - done, 0) + tail)


def gen(rng, tier):
    quick = tier == "quick"
    every = 200 if quick else 150   # one case in `every` spawns the fake as a real subprocess through PATH
    configs = [(m, bs, n) for m in MODES for bs in (1, 2, 3, 4) for n in (3, 4, 5, 6)]
    for m, bs, n in configs:
        if m == "retrospective" or bs <= n:   # a prospective batch larger than the number of plates cannot be selected at all
            yield dict(kind="crash_free", mode=m, bs=bs, n=n)
    cnt = 0
    repaired_ok = load_script("repaired") is not None and not probed_fixed()
    # all single crash points x admissible orders
    for m, bs, n in configs:
        T = total_steps(m, bs, n)
        for a, k in single_points(m, bs, n):
            for oi, order in enumerate(orders_for(m)):
                if oi >= 2 and k < 4:
                    continue   # the order only matters once something is published
                cnt += 1
                if quick and n >= 5 and cnt % 3:
                    continue   # quick tier: the two larger plate counts are sampled
                d = dict(kind="run", mode=m, bs=bs, n=n, sched=mk_sched(T, [(a, k, order)]), spawn=cnt % every == 0)
                yield d
                if repaired_ok and (not quick or cnt % 3 == 0):
                    yield dict(d, kind="run-repaired", spawn=False)
    # pairs of crash points
    def pairs(m, bs, n):
        T = total_steps(m, bs, n)
        kmax = 11
        for a, k in single_points(m, bs, n):
            for gap2 in range(0, T - a + 2):
                for k2 in range(0, kmax + 1):
                    yield [(a, k), (gap2, k2)]
    # exhaustive pairs (canonical order): thorough tier, retrospective with 3-4 plates and prospective with 3 plates
    # (prospective runs hardly depend on the number of plates), every batch size; C19_ALL_PAIRS=1 enumerates all
    # 32 configurations (about 67,000 cases, ~25 min).  The other configurations are sampled, with random orders.
    everything = os.environ.get("C19_ALL_PAIRS", "") == "1"
    for m, bs, n in configs:
        T = total_steps(m, bs, n)
        allp = list(pairs(m, bs, n))
        exhaustive = (not quick) and (everything or (n <= 4 if m == "retrospective" else n == 3))
        pick = allp if exhaustive else rng.sample(allp, min(len(allp), 14 if quick else 200))
        for (a, k), (g2, k2) in pick:
            o1, o2 = (CANON, CANON) if exhaustive else (rng.choice(orders_for(m)), rng.choice(orders_for(m)))
            cnt += 1
            d = dict(kind="run", mode=m, bs=bs, n=n, sched=mk_sched(T, [(a, k, o1), (g2, k2, o2)]), spawn=cnt % every == 0)
            yield d
            if repaired_ok and cnt % (4 if quick else 5) == 0:
                yield dict(d, kind="run-repaired", spawn=False)
    # triples and longer schedules, random
    for _ in range(40 if quick else 600):
        m, bs, n = rng.choice(configs)
        T = total_steps(m, bs, n)
        cr = [(rng.randint(0, 2), rng.randint(0, 11), rng.choice(orders_for(m))) for _ in range(rng.randint(3, 5))]
        yield dict(kind="run", mode=m, bs=bs, n=n, sched=mk_sched(T, cr), spawn=False)
    # prospective sessions over three batches (the operator hands over three different screens), one to three crashes anywhere
    for _ in range(40 if quick else 800):
        bs = rng.choice([1, 2, 2, 3, 3, 4])
        n = rng.randint(max(bs, 3), 6)
        T = 3 * bs
        cr = []
        left = T
        for _ in range(rng.randint(1, 3)):
            gap = rng.randint(0, max(left - 1, 0))
            left -= gap
            cr.append((gap, rng.randint(0, 8), rng.choice(orders_for("prospective")[:1] * 3 + orders_for("prospective"))))
        yield dict(kind="run", mode="prospective", bs=bs, n=n, sched=mk_sched(T, cr, tail=2), spawn=False)
    # torn markers: the interruption comes WHILE screen_metadata.json is being published (entry [k, order, 1] with k - 4 = the
    # marker's position among the files the step publishes in that order); every step of every configuration x every admissible
    # order, each run twice: the script as it is (kind torn) and with the repair applied in memory (kind torn-repaired: an
    # unreadable marker counts as no marker), so that anything ELSE that goes wrong around a torn marker is reported on its own
    torn_ok = load_script("torn-repaired") is not None and not probed_tfix()
    small = [(m, bs, n) for m in MODES for bs in (1, 2, 3, 4) for n in (1, 2)]

    def marker_pos(m, bs, c, order):
        j = c % bs
        if m == "retrospective":
            exp = range(7) if c == 0 else ((2, 3, 4, 5, 6) if j == 0 else (4, 5, 6))
        else:
            exp = (2, 3, 4, 6) if j == 0 else (4, 5, 6)
        return [x for x in order if x in exp].index(6) + 1
    for m, bs, n in configs + small:
        if quick and n >= 5:
            continue
        T = total_steps(m, bs, n)
        for a in range(T):
            for order in orders_for(m):
                d = dict(kind="torn", mode=m, bs=bs, n=n, sched=mk_sched(T, [(a, 4 + marker_pos(m, bs, a, order), order, 1)], tail=4), spawn=False)
                yield d
                if torn_ok:
                    yield dict(d, kind="torn-repaired")
                if order == CANON or bs <= 2:
                    # the interruption comes in the pipeline's wrap-up after its LAST publication (event number = files + 1): the step is
                    # complete, the exit status is not 0, the call does not return
                    yield dict(kind="torn", mode=m, bs=bs, n=n, sched=mk_sched(T, [(a, 4 + npubs(m, bs, a) + 1, order, 1)], tail=4), spawn=False)
    for _ in range(50 if quick else 800):
        # a torn marker plus one or two ordinary crashes; and tear flags on publications that are not the marker (no effect)
        m, bs, n = rng.choice(configs + small)
        T = total_steps(m, bs, n)
        cr = []
        for _ in range(rng.randint(1, 3)):
            order = rng.choice(orders_for(m))
            a = rng.randint(0, T - 1)
            if rng.random() < 0.15:
                cr.append((a if not cr else rng.randint(0, 2), 4 + npubs(m, bs, a if not cr else rng.randint(0, T - 1)) + 1, order, 1))
            elif rng.random() < 0.6:
                cr.append((a if not cr else rng.randint(0, 2), 4 + marker_pos(m, bs, rng.randint(0, T - 1), order), order, 1))
            else:
                cr.append((a if not cr else rng.randint(0, 2), rng.randint(0, 11), order, rng.randint(0, 1)))
        d = dict(kind="torn", mode=m, bs=bs, n=n, sched=mk_sched(T, cr, tail=4), spawn=False)
        yield d
        if torn_ok:
            yield dict(d, kind="torn-repaired")
    # validate_job_dir_and_return_meta on every class of marker content; examine on random trees with such markers
    for m in (0, 1, 3):
        for idx in range(len(marker_contents(m, rng))):
            yield dict(kind="marker", m=m, which=idx, seed=rng.randint(0, 10 ** 6))
    yield dict(kind="marker", m=0, which=None, seed=0)
    for _ in range(150 if quick else 2500):
        yield dict(kind="examine-torn", bs=rng.choice([0, 1, 1, 2, 2, 3, 4]), tree=rand_tree(rng), seed=rng.randint(0, 10 ** 6),
                   p=rng.choice([0.15, 0.3, 0.6]))
    # one- and two-plate screens (the theorems cover them; batch sizes larger than the number of plates included): all single crash points
    cnt2 = 0
    for m, bs, n in small:
        T = total_steps(m, bs, n)
        for a, k in single_points(m, bs, n):
            for oi, order in enumerate(orders_for(m)):
                if oi >= 1 and k < 4:
                    continue
                cnt2 += 1
                if quick and cnt2 % 3:
                    continue
                yield dict(kind="run", mode=m, bs=bs, n=n, sched=mk_sched(T, [(a, k, order)]), spawn=False)
        if m == "retrospective" or bs <= n:
            yield dict(kind="crash_free", mode=m, bs=bs, n=n)
    # retrospective / next_plate: the marker published before advanced_screen.h5 (asynchronous publishing: the small JSON file lands
    # before the large screen), interrupted between the two - every step of every configuration
    for m, bs, n in configs + small:
        T = total_steps(m, bs, n)
        for a in range(T):
            if m == "prospective" and a % bs == 0:
                continue      # the first plate of a prospective batch publishes no advanced screen
            if quick and n >= 5 and (a + bs) % 2:
                continue
            order = [0, 1, 2, 3, 4, 6, 5]
            yield dict(kind="async", mode=m, bs=bs, n=n, sched=mk_sched(T, [(a, 4 + marker_pos(m, bs, a, order), order)]), spawn=False)
    # random orders, also ones that violate data dependence (asynchronous publishing); judged like every other run
    for _ in range(60 if quick else 600):
        m, bs, n = rng.choice(configs)
        T = total_steps(m, bs, n)
        cr = []
        for _ in range(rng.randint(1, 2)):
            o = list(CANON)
            rng.shuffle(o)
            cr.append((rng.randint(0, T - 1), rng.randint(4, 11), o))
        yield dict(kind="async", mode=m, bs=bs, n=n, sched=mk_sched(T, cr), spawn=False)
    # examine on arbitrary trees
    for _ in range(300 if quick else 4000):
        yield dict(kind="examine", bs=rng.choice([0, 1, 1, 2, 2, 3, 4]), tree=rand_tree(rng))
    # get_args on command lines built from plans: every option given / one missing / repeated, in any order, with the operator's extra
    # words in between; then the same with bad values (not an int, not one of the choices, an option string without value)
    for r in (False, True):
        for f in GA_FLAGS + [None]:
            plan = [["opt", g, GA_VALUES[g][1]] for g in GA_FLAGS if g != f]
            if r:
                plan.reverse()
            yield dict(kind="get_args", plan=plan)
            yield dict(kind="get_args", plan=plan + [["word", "-resume"], ["word", "--max_cpus"], ["word", "8"]])
    for _ in range(150 if quick else 1500):
        yield dict(kind="get_args", plan=ga_plan(rng))
    for _ in range(100 if quick else 1000):
        yield dict(kind="get_args", plan=ga_plan(rng, errors=0.5))
    for _ in range(40 if quick else 300):
        yield dict(kind="get_args", plan=ga_plan(rng, required=False, errors=0.2))
    # spellings outside the model (it answers 90): run for the record, not compared
    for w in GA_UNMODELLED_WORDS:
        plan = ga_plan(rng)
        plan.insert(rng.randint(0, len(plan)), ["word", w])
        yield dict(kind="get_args", plan=plan, unmodelled=True)
    for v in GA_UNMODELLED_INTS:
        yield dict(kind="get_args", plan=[["opt", g, v if g == "--batch-size" else GA_VALUES[g][0]] for g in GA_FLAGS], unmodelled=True)
    # the path helpers: the script where /repo keeps it, and copies of it in scratch checkouts of several depths / directory names,
    # loaded through its real path, through a symbolic link to its directory or to the file, and through a path with ".." in it
    yield dict(kind="paths", layout=None, via="direct")
    for layout in ([], ["co"], ["a b", "my.repo"], ["x", "y", "z", "deep"]):
        for via in ("direct", "dirlink", "filelink", "dotdot"):
            yield dict(kind="paths", layout=layout, via=via)
    yield dict(kind="paths", layout=["elsewhere"], via="direct", inner=["pipelines", "bin"], name="orchestrate.py")
    yield dict(kind="paths", layout=["elsewhere"], via="dirlink", inner=["nextflow", "scripts", "old"], name="batchie.py")
    # validate_initial_output_dir_and_get_result_files_as_dict on job directories of the initial step: EVERY subset of the seven
    # published files (so each required file is missing in turn with all the others present, and in every combination), then
    # the same with a required file lying at the wrong directory level (directly in the job directory: the glob is dir/*/name)
    for mask in range(128):
        yield dict(kind="validate_initial", step=[0, 0], pd=initial_pd(mask, rng), decoys=[])
    for mask in ([127, 126, 125, 63, 124, 62, 61, 60, 0] if quick else range(128)):
        for decoys in ([0], [1], [6], [0, 1, 6]):
            yield dict(kind="validate_initial", step=rng.choice([[0, 0], [0, 0], [1, 0], [2, 3]]), pd=initial_pd(mask, rng), decoys=decoys)


# get_args: command lines as PLANS - ("opt", option string, value) puts the two words, ("bare", option string) the option string
# alone, ("word", w) one other word - so that what the parse must yield is known from the construction, not from a second parser
GA_FLAGS = ["--screen", "--batch-size", "--mode", "--outdir"]
GA_VALUES = {"--screen": ["exp.h5", "/data/screens/s 1.h5", "s", "", "x=y", "screen"],
             "--outdir": ["out", "/tmp/o", "", "outdir", "a b"],
             "--mode": ["retrospective", "prospective", "retrospective", "prospective", "next_plate", "Retrospective", "", "retro"],
             "--batch-size": ["1", "2", "3", "10", "007", "0", "4", "abc", "1.5", "", "1e3", "0x10"]}
GA_WORDS = ["-resume", "-profile", "docker", "--max_cpus", "8", "-with-report", "--name", "x", "foo=1", "", "-N", "-bg", "--n_chains", "a b"]
# spellings of argparse the model does not represent (Orchestrate.unmodelled_word / convert_arg): the model answers 90
GA_UNMODELLED_WORDS = ["--mode=retrospective", "--outdir=o", "--scr", "--out", "--", "-", "-h", "--help", "--he", "-1", "-.5", "--x y", "--max_cpus=8", "-hx"]
GA_UNMODELLED_INTS = ["-1", "+3", "1_0", " 5", "\u0665"]


def ga_plan(rng, required=True, errors=0.0):
    plan = []
    flags = list(GA_FLAGS)
    if not required or rng.random() < 0.15:
        flags = [f for f in flags if rng.random() < 0.75]
    elif rng.random() < 0.5:
        flags.remove("--batch-size")
    flags += [rng.choice(GA_FLAGS) for _ in range(rng.choice([0, 0, 0, 1, 2]))]      # repeated options: the last one counts
    rng.shuffle(flags)
    for f in flags:
        vals = GA_VALUES[f]
        good = {"--mode": 4, "--batch-size": 7}.get(f, len(vals))
        v = rng.choice(vals) if rng.random() < errors else rng.choice(vals[:good])
        plan.append(["opt", f, v])
    for _ in range(rng.choice([0, 0, 1, 2, 3, 5])):
        plan.insert(rng.randint(0, len(plan)), ["word", rng.choice(GA_WORDS)])
    if rng.random() < errors / 2:
        plan.insert(rng.randint(0, len(plan)), ["bare", rng.choice(GA_FLAGS)])
    return plan


def ga_argv(plan):
    out = []
    for it in plan:
        out += [it[1], it[2]] if it[0] == "opt" else [it[1]]
    return out


def ga_expect(plan):
    """what the parse must yield, from the construction: ("exit",) or ("ok", {dest: value}, [remaining words])"""
    argv = ga_argv(plan)
    pos = 0
    given, rest = {}, []
    for it in plan:
        if it[0] == "word":
            rest.append(it[1])
            pos += 1
            continue
        if it[0] == "bare":
            # an option string with no value of its own: it takes the next word unless there is none or that one starts with "-"
            nxt = argv[pos + 1] if pos + 1 < len(argv) else None
            return ("unknown",) if nxt is not None and not nxt.startswith("-") else ("exit",)
        f, v = it[1], it[2]
        pos += 2
        if v.startswith("-"):
            return ("exit",)
        if f == "--batch-size":
            if not (v.isascii() and v.isdigit()):
                return ("exit",)
            v = int(v)
        if f == "--mode" and v not in MODES:
            return ("exit",)
        given[f[2:].replace("-", "_")] = v
    if any(k not in given for k in ("screen", "mode", "outdir")):
        return ("exit",)
    given.setdefault("batch_size", 1)
    return ("ok", given, rest)


def initial_pd(mask, rng):
    """plate directory contents [training?, test, thetas, dist, selected?, advanced?, meta?] with file k present iff bit k of mask"""
    has = [bool(mask >> k & 1) for k in range(7)]
    return [opt([0, 1, 2] if has[0] else None), int(has[1]), int(has[2]), int(has[3]), opt(0 if has[4] else None),
            opt([1, 2] if has[5] else None), opt(rng.randint(0, 5) if has[6] else None)]


def rand_tree(rng):
    iters = rng.choice([[0], [0, 1], [0, 1, 2], [1, 0], [0, 2], [2, 10, 9, 0, 1], [0, 1, 10, 2, 3, 4, 5, 6, 7, 8, 9], [1], [], [0, 1, 3]])
    if rng.random() < 0.3:
        iters = list(iters)
        rng.shuffle(iters)
    tree = []
    for pos, i in enumerate(iters):
        r = rng.random()
        if r < 0.25:
            plates = []
        else:
            plates = rng.choice([[0], [0, 1], [0, 1, 2], [1, 0], [2, 1, 0], [0, 2], [1], [0, 1, 2, 3], [10, 9, 8, 7, 6, 5, 4, 3, 2, 1, 0]])
        pls = []
        for j in plates:
            complete = rng.random() < 0.85
            pd = [opt([1, 2] if rng.random() < 0.3 else None), int(rng.random() < 0.3), int(rng.random() < 0.5), int(rng.random() < 0.5),
                  opt(rng.randint(0, 5) if rng.random() < 0.7 else None), opt([3] if rng.random() < 0.6 else None),
                  opt(rng.randint(0, 3) if complete else None)]
            pls.append([j, pd])
        tree.append([i, pls])
    return tree


# --------------------------------------------------------------------------- run one case

def norm_launch(l):
    if isinstance(l, list) and l and l[0] == 3:
        return [3, l[1], l[2], sorted(l[3])]
    return l


def norm_model_run(m):
    """model output of op 4: [tree, [[operator screen, [log items], end] per invocation]]"""
    fs, recs = m
    fs = sorted([i, sorted([j, pd[:7] + [[norm_launch(x) for x in pd[7]]]] for j, pd in pls)] for i, pls in fs)
    recs = [[r, [[4, g[1], g[2], norm_launch(g[3]), g[4], g[5]] if g[0] == 4 else g for g in calls], end] for r, calls, end in recs]
    return [fs, recs]


def cmp_run(m, i):
    if isinstance(m, str):
        return "model driver failure: " + m
    if isinstance(i, common.ImplError):
        return "harness could not run the script: %r" % (i,)
    mm = norm_model_run(m)
    if mm[1] != i[1]:
        for t, (a, b) in enumerate(zip(mm[1] + [None] * len(i[1]), i[1] + [None] * len(mm[1]))):
            if a != b:
                return ("invocation %d differs (operator screen, calls with the screen each launch reads, end 0 returned / 1 did not / "
                        "2 schedule exhausted): model %s impl %s" % (t, common.short(a, 700), common.short(b, 700)))
    if mm[0] != i[0]:
        return "final tree differs: model %s impl %s" % (common.short(mm[0], 900), common.short(i[0], 900))
    return None


def cmp_torn(m, i):
    """model output of op 8: [tree, [torn steps], invocations]"""
    if isinstance(m, str):
        return "model driver failure: " + m
    if isinstance(i, common.ImplError):
        return "harness could not run the script: %r" % (i,)
    if sorted(m[1]) != i[1]:
        return "directories holding an unreadable marker differ: model %s impl %s" % (sorted(m[1]), i[1])
    return cmp_run([m[0], m[2]], [i[0], i[2]])


def run(desc):
    k = desc["kind"]
    if k in ("run", "run-repaired", "async", "torn", "torn-repaired"):
        mode, bs, n, sched = desc["mode"], desc["bs"], desc["n"], desc["sched"]
        variant = {"run-repaired": "repaired", "torn-repaired": "torn-repaired"}.get(k, "real")
        tearing = k in ("torn", "torn-repaired")
        fixed = 1 if k == "run-repaired" else probed_fixed()
        r = run_schedule(mode, bs, n, sched, spawn=desc.get("spawn", False), variant=variant)
        impl = [r.final, r.torn, r.ilog] if tearing else [r.final, r.ilog]
        pred = None
        sig = None
        feats = [k, mode, "bs=%d" % bs]
        crashes = [e for e in sched if e[0] < FULL]
        feats += ["crashes=%d" % len(crashes)] if crashes else ["trivial"]
        for kk in [e[0] for e in crashes]:
            feats.append({0: "crash@before-rmtree", 1: "crash@after-rmtree", 2: "crash@between-makedirs-levels", 3: "crash@before-launch"}.get(kk, "crash@pipeline"))
        if any(e[1] != CANON for e in sched):
            feats.append("non-canonical-order")
        if r.tearing:
            feats.append("marker-torn" if any(ev.get("torn_markers") for ev in r.events) else "late-death" if r.late_deaths else "tear-flag-without-effect")
        if desc.get("spawn"):
            feats.append("spawned-fake")
        if any(g[0] == 0 for g in r.log):
            feats.append("operator-removed-dir")
        if True:      # async orders are judged like every other run (the statement does not restrict the publication order)
            cf = crash_free_ref(mode, bs, n, len(sched), variant)
            fails = judge(mode, bs, n, sched, r, cf)
            if fails:
                sig = classify(mode, fails)
                lead = lead_failure(fails)
                pred = "%s [%s]; %d clause failures in this run; first: %s" % (lead[1], sig, len(fails), lead[0])
                feats.append("fails:" + sig)
        if len(r.ilog) > 1:
            feats.append("invocations>=2")
        if len({rec[0] for rec in r.ilog}) > 1:
            feats.append("operator-screens>=2")
        if tearing:
            tfix = 1 if k == "torn-repaired" else probed_tfix()
            wire = [8, tfix, MODES.index(mode), fixed, bs, n, [[e[0], e[1], int(len(e) > 2 and bool(e[2]))] for e in sched]]
            return dict(wire=wire, impl=impl, pred=pred, features=feats, cmp=cmp_torn, sig=sig)
        wire = [4, MODES.index(mode), fixed, bs, n, [], [[kk, o] for kk, o in sched]]
        return dict(wire=wire, impl=impl, pred=pred, features=feats, cmp=cmp_run, sig=sig)
    if k == "crash_free":
        mode, bs, n = desc["mode"], desc["bs"], desc["n"]
        r = run_schedule(mode, bs, n, [[FULL, CANON]] * (n + bs + 3), spawn=True, single=True)
        impl = [[[i, j], pd] for i, pls in r.final for j, pd in pls]
        pred = None
        want = n if mode == "retrospective" else bs
        if len(impl) != want or any(not pd[6] for _, pd in impl):
            pred = "uninterrupted run completed %d steps, expected %d" % (len(impl), want)
        else:
            # the invocation boundary: one uninterrupted invocation = n launches and one call that returns False
            # (retrospective) / exactly batch-size launches (prospective), then main() returns
            rec = r.ilog[0] if len(r.ilog) == 1 else None
            calls = [g[0] for g in rec[1]] if rec else None
            want_calls = [4] * n + [1] if mode == "retrospective" else [4] * bs
            if rec is None or rec[2] != 0 or calls != want_calls or rec[0] != 0:
                pred = "uninterrupted invocation: expected screen #0, calls %s, main() returns; got %s" % (want_calls, common.short(r.ilog))

        def cmpf(m, i):
            mm = [[s, pd[:7] + [[norm_launch(x) for x in pd[7]]]] for s, pd in m] if not isinstance(m, str) else m
            return None if mm == i else "crash_free differs: model %s impl %s" % (common.short(mm, 900), common.short(i, 900))
        return dict(wire=[2, MODES.index(mode), bs, n], impl=impl, pred=pred, features=["crash_free", mode, "bs=%d" % bs], cmp=cmpf)
    if k == "examine":
        bs, tree = desc["bs"], desc["tree"]
        d = _tmpdir()
        try:
            write_tree(d, tree)
            mod = load_script()
            try:
                ni, np_, meta, scr = mod.examine_output_dir_to_determine_current_iteration(d, bs)
                r0 = Runner.__new__(Runner)
                r0.out, r0.scr_dir = d, None
                impl = [0, [ni, np_, opt(None if meta is None else meta["n_unobserved_plates"]), opt(None if scr is None else r0.sp(scr))]]
            except RuntimeError as e:
                m = re.search(r"Consider deleting this directory to continue simulation: (.*)$", str(e))
                mm = re.fullmatch(re.escape(d) + r"/iter_(-?\d+)/plate_(-?\d+)", m.group(1))
                impl = [1, 1 if "invalid structure" in str(e) else 2, int(mm.group(1)), int(mm.group(2))]
        finally:
            shutil.rmtree(d, ignore_errors=True)
        feats = ["examine"] + (["trivial"] if not tree else []) + (["empty-iter-dir"] if any(not p for _, p in tree) else []) \
            + (["two-digit-index"] if any(i >= 10 for i, _ in tree) else []) + (["named-dir"] if impl[0] == 1 else [])
        wire = [0, probed_fixed(), bs, [[i, [[j, pd + [[]]] for j, pd in pls]] for i, pls in tree]]
        return dict(wire=wire, impl=impl, pred=None, features=feats)
    if k == "marker":
        m, which = desc["m"], desc["which"]
        d = _tmpdir()
        try:
            pdir = os.path.join(d, "iter_0", "plate_0")
            os.makedirs(os.path.join(pdir, NAME))
            if which is None:
                cls, enc, want = "missing", None, None
            else:
                cls, content, enc, want = marker_contents(m, random.Random(desc["seed"]))[which]
                put_marker(pdir, content)
            try:
                res = load_script().validate_job_dir_and_return_meta(pdir)
                impl = [] if res is None else [res["n_unobserved_plates"]] if isinstance(res, dict) and "n_unobserved_plates" in res else ["?", common.short(res, 100)]
                pred = None
                if want is None and res is not None:
                    pred = "a screen_metadata.json that is %s was accepted as a completion marker: %s" % (cls, common.short(res, 200))
                elif want is not None and (not isinstance(res, dict) or res.get("n_unobserved_plates") != want):
                    pred = "a whole marker (%s, n_unobserved_plates = %d) was answered with %s" % (cls, want, common.short(res, 200))
            except Exception as e:      # noqa: BLE001 - the function names no directory itself: an exception leaves examine without naming one
                impl = common.ImplError(e)
                pred = ("validate_job_dir_and_return_meta raised %s on a job directory whose screen_metadata.json is %s: the script ends without "
                        "naming the directory (it must count as incomplete, like one without marker)" % (type(e).__name__, cls))
        finally:
            shutil.rmtree(d, ignore_errors=True)
        return dict(wire=[9, [] if enc is None else [enc]], impl=impl, pred=pred, features=["marker", "marker:" + cls] + (["trivial"] if which is None else []))
    if k == "examine-torn":
        bs, tree = desc["bs"], desc["tree"]
        rng2 = random.Random(desc["seed"])
        odd = {}
        for i, pls in tree:
            for j, pd in pls:
                if rng2.random() < desc["p"]:
                    cands = [c for c in marker_contents(rng2.randint(0, 3), rng2) if c[3] is None]
                    odd[(i, j)] = rng2.choice(cands)
        tree2 = [[i, [[j, (pd[:6] + [[]]) if (i, j) in odd else pd] for j, pd in pls]] for i, pls in tree]

        def ask(dirpath):
            mod = load_script()
            try:
                ni, np_, meta, scr = mod.examine_output_dir_to_determine_current_iteration(dirpath, bs)
                r0 = Runner.__new__(Runner)
                r0.out, r0.scr_dir = dirpath, None
                return [0, [ni, np_, opt(None if meta is None else meta["n_unobserved_plates"]), opt(None if scr is None else r0.sp(scr))]]
            except RuntimeError as e:
                mm = re.search(r"Consider deleting this directory to continue simulation: (.*)$", str(e))
                m2 = mm and re.fullmatch(re.escape(dirpath) + r"/iter_(-?\d+)/plate_(-?\d+)", mm.group(1))
                if not m2:
                    return [3, 7, type(e).__name__, str(e)[:200]]
                return [1, 1 if "invalid structure" in str(e) else 2, int(m2.group(1)), int(m2.group(2))]
            except ValueError as e:
                return [3, 70, type(e).__name__, str(e)[:200]]
            except Exception as e:      # noqa: BLE001
                return [3, 7, type(e).__name__, str(e)[:200]]
        d = _tmpdir()
        try:
            a, b = os.path.join(d, "a"), os.path.join(d, "b")
            write_tree(a, tree2)
            write_tree(b, tree2)
            os.makedirs(a, exist_ok=True)
            os.makedirs(b, exist_ok=True)
            for (i, j), c in odd.items():
                put_marker(os.path.join(a, "iter_%d" % i, "plate_%d" % j), c[1])
            impl = ask(a)
            ref = ask(b)       # the same tree with those marker files deleted
        finally:
            shutil.rmtree(d, ignore_errors=True)
        pred = None
        if impl[0] == 3:
            pred = ("examine ended with %s (%s) on a tree whose markers %s are unreadable or not the metadata of a step: it neither answered nor named a directory"
                    % (impl[2], impl[3], sorted(odd)))
        elif impl != ref:
            pred = ("markers %s are unreadable / hold no n_unobserved_plates, yet examine answers %s where the same tree without those files gives %s"
                    % (sorted((ij, c[0]) for ij, c in odd.items()), impl, ref))
        impl = impl[:2] if impl[0] == 3 else impl
        feats = ["examine-torn"] + (["trivial"] if not odd else ["odd-markers=%d" % min(len(odd), 3)]) + sorted({"marker:" + c[0] for c in odd.values()}) \
            + (["named-odd-marker-dir"] if impl[0] == 1 and (impl[2], impl[3]) in odd else []) + (["named-dir"] if impl[0] == 1 else [])
        wire = [10, probed_tfix(), probed_fixed(), bs, [[i, [[j, pd + [[]]] for j, pd in pls]] for i, pls in tree2], [list(ij) for ij in sorted(odd)]]
        return dict(wire=wire, impl=impl, pred=pred, features=feats)
    if k == "get_args":
        plan = desc["plan"]
        argv = ga_argv(plan)
        mod = load_script()
        saved, saved_err, saved_out = sys.argv, sys.stderr, sys.stdout
        pred = None
        exp = ga_expect(plan) if not desc.get("unmodelled") else ("unknown",)
        try:
            sys.argv = ["batchie.py"] + argv
            sys.stderr = sys.stdout = open(os.devnull, "w")      # argparse prints its usage / help text
            try:
                args, remaining = mod.get_args()
                ns = vars(args)

                def enc(v):
                    return [0, common.s2l(v)] if isinstance(v, str) else [1, v] if isinstance(v, int) and not isinstance(v, bool) \
                        else [2] if v is None else [9, repr(v)[:80]]
                impl = [0, [[common.s2l(a), enc(v)] for a, v in ns.items()], [common.s2l(w) for w in remaining]]
                # what main() does with it, said directly: the four attributes, of the types main() uses them at
                if not (isinstance(ns.get("mode"), str) and ns["mode"] in MODES and isinstance(ns.get("batch_size"), int)
                        and isinstance(ns.get("outdir"), str) and isinstance(ns.get("screen"), str)):
                    pred = "get_args returned a namespace main() cannot work with (mode one of %s, batch_size an int, outdir and screen paths): %s" % (MODES, common.short(ns, 300))
                elif exp[0] == "exit":
                    pred = "the command line %s is accepted (%s); it lacks a required option or gives an option a bad value" % (argv, common.short(ns, 300))
                elif exp[0] == "ok" and (ns != exp[1] or list(remaining) != exp[2]):
                    pred = ("the command line %s gives %s and hands on %s; the options say %s (--batch-size defaults to 1) and the words that are "
                            "not the script's own are %s" % (argv, common.short(ns, 300), remaining, exp[1], exp[2]))
            except SystemExit as e:
                impl = [1, 64] if e.code == 2 else [1, "SystemExit(%r)" % (e.code,)]
                if exp[0] == "ok":
                    pred = "the command line %s is rejected (exit status %r); it gives every required option a good value" % (argv, e.code)
            finally:
                sys.stderr.close()
        finally:
            sys.argv, sys.stderr, sys.stdout = saved, saved_err, saved_out
        feats = ["get_args", "accepted" if impl[0] == 0 else "rejected"] + (["unmodelled-spelling", "trivial"] if desc.get("unmodelled") else []) \
            + (["extra-words"] if any(it[0] == "word" for it in plan) else []) \
            + (["default-batch-size"] if not any(it[1] == "--batch-size" for it in plan) else []) \
            + (["repeated-option"] if len({it[1] for it in plan if it[0] == "opt"}) < sum(it[0] == "opt" for it in plan) else []) \
            + (["trivial"] if not plan else [])

        def cmp_args(m, i):
            if isinstance(m, str):
                return "model driver failure: " + m
            if m == [1, 90]:
                return None      # a spelling the model does not represent
            return None if m == i else "values differ: model %s impl %s" % (common.short(m, 600), common.short(i, 600))
        return dict(wire=[6, [common.s2l(w) for w in argv]], impl=impl, pred=pred, features=feats, cmp=cmp_args)
    if k == "paths":
        tmp = None
        try:
            if desc.get("layout") is None:
                given = SCRIPT
            else:
                tmp = _tmpdir()
                root = os.path.join(tmp, *desc["layout"])
                sdir = os.path.join(root, *desc.get("inner", ["nextflow", "scripts"]))
                os.makedirs(sdir)
                real = os.path.join(sdir, desc.get("name", "batchie.py"))
                shutil.copyfile(SCRIPT, real)
                via = desc["via"]
                if via == "dirlink":
                    os.symlink(sdir, os.path.join(tmp, "link"))
                    given = os.path.join(tmp, "link", os.path.basename(real))
                elif via == "filelink":
                    os.makedirs(os.path.join(tmp, "other", "place"))
                    given = os.path.join(tmp, "other", "place", "run.py")
                    os.symlink(real, given)
                elif via == "dotdot":
                    given = os.path.join(sdir, "..", os.path.basename(sdir), os.path.basename(real))
                else:
                    given = real
            spec = importlib.util.spec_from_file_location("batchie_orchestrator_c19_paths", given)
            mod = importlib.util.module_from_spec(spec)
            spec.loader.exec_module(mod)
            mod.logger.disabled = True
            resolved = os.path.realpath(given)
            got = [mod.get_script_location(), mod.get_nextflow_dir(), mod.get_base_config(), mod.get_repository_root(), mod.get_main_nf_file()]

            def comps(q):
                if not (isinstance(q, str) and q.startswith("/")):
                    raise ValueError("not an absolute path: %r" % (q,))
                return [common.s2l(c) for c in q[1:].split("/")] if q != "/" else []
            impl = [comps(q) for q in got]
            # said directly: the repository root is the directory the script lies in at <root>/<d1>/<d2>/<file>, main.nf and
            # nextflow.config are directly in it, the nextflow directory is <root>/<d1>
            pred = None
            loc, nfd, cfgp, rootp, mainp = got
            rel = resolved.split("/")[-3:]
            if not (os.path.isdir(rootp) and os.path.exists(os.path.join(rootp, *rel)) and os.path.samefile(os.path.join(rootp, *rel), resolved)):
                pred = "get_repository_root() = %s is not the directory that holds the script at %s" % (rootp, "/".join(rel))
            elif mainp != os.path.join(rootp, "main.nf") or os.path.dirname(mainp) != os.path.realpath(rootp):
                pred = "get_main_nf_file() = %s is not main.nf in the repository root %s" % (mainp, rootp)
            elif cfgp != os.path.join(rootp, "nextflow.config"):
                pred = "get_base_config() = %s is not nextflow.config in the repository root %s" % (cfgp, rootp)
            elif loc != os.path.dirname(resolved) or nfd != os.path.dirname(loc):
                pred = "get_script_location() / get_nextflow_dir() = %s / %s for the script %s" % (loc, nfd, resolved)
            elif desc.get("layout") is None and not (os.path.isfile(mainp) and os.path.isfile(cfgp)
                                                     and os.path.samefile(rootp, common.REPO)):
                pred = "in the repository itself main.nf / nextflow.config do not exist where the helpers say: %s %s" % (mainp, cfgp)
            wire = [7, comps(resolved)]
        finally:
            if tmp:
                shutil.rmtree(tmp, ignore_errors=True)
        feats = ["paths", "via:" + desc["via"]] + (["the-repository"] if desc.get("layout") is None else ["scratch-checkout"]) \
            + (["other-directory-names"] if desc.get("inner") else [])
        return dict(wire=wire, impl=impl, pred=pred, features=feats)
    if k == "validate_initial":
        (i, j), pd, decoys = desc["step"], desc["pd"], desc.get("decoys", [])
        root = _tmpdir()
        try:
            write_tree(root, [[i, [[j, pd]]]])
            d = os.path.join(root, "iter_%d" % i, "plate_%d" % j)
            for kk in decoys:      # a file of the right name at the wrong level: dir/<file> instead of dir/<name>/<file>
                with open(os.path.join(d, FILES[kk]), "w") as f:
                    f.write(json.dumps({"n_unobserved_plates": 77}) if kk == 6 else "{}")
            mod = load_script()
            r0 = Runner.__new__(Runner)
            r0.out, r0.scr_dir = root, None
            want_files = {0: os.path.join(d, NAME, FILES[0]), 1: os.path.join(d, NAME, FILES[1])}
            pred = None
            try:
                res = mod.validate_initial_output_dir_and_get_result_files_as_dict(d)
                if res is None:
                    impl = [0, []]
                    if pd[0] and pd[6]:
                        pred = ("returned None although training.screen.h5 and screen_metadata.json exist (test.screen.h5 %s)"
                                % ("exists" if pd[1] else "is missing"))
                elif isinstance(res, dict) and sorted(res) == ["screen_metadata", "test_screen", "training_screen"] \
                        and isinstance(res["screen_metadata"], dict) and "n_unobserved_plates" in res["screen_metadata"]:
                    impl = [0, [[r0.sp(res["test_screen"]), r0.sp(res["training_screen"]), res["screen_metadata"]["n_unobserved_plates"]]]]
                    missing = [FILES[kk] for kk in (1, 0, 6) if not pd[kk]]
                    if missing:
                        pred = "accepted an initial directory in which %s is missing: returned %s" % (", ".join(missing), common.short(res, 300))
                    elif res["test_screen"] != want_files[1] or res["training_screen"] != want_files[0] \
                            or not all(os.path.isfile(res[x]) for x in ("test_screen", "training_screen")):
                        pred = "the returned dict does not name this directory's own test / training screen: %s" % common.short(res, 300)
                    elif res["screen_metadata"] != {"n_unobserved_plates": pd[6][0]}:
                        pred = "the returned screen_metadata is not the content of this directory's screen_metadata.json: %s" % common.short(res, 300)
                else:
                    impl = [9, common.short(res, 200)]
                    pred = "returned neither None nor the three-key dict: %s" % common.short(res, 300)
            except IndexError:
                impl = [1, 98]
                if not (pd[0] and pd[6] and not pd[1]):
                    pred = "IndexError although %s" % ("all three required files exist" if pd[0] and pd[1] and pd[6] else
                                                       "training.screen.h5 or screen_metadata.json is missing (that is the None return)")
            except Exception as e:      # noqa: BLE001 - any other exception is not among the function's behaviours
                impl = [1, type(e).__name__]
                pred = "raised %s: %s" % (type(e).__name__, str(e)[:200])
        finally:
            shutil.rmtree(root, ignore_errors=True)
        missing = [KINDS[kk] for kk in (0, 1, 6) if not pd[kk]]
        feats = ["validate_initial"] + (["complete"] if not missing else ["missing:" + "+".join(missing)]) \
            + (["wrong-level-decoy"] if decoys else []) + (["IndexError"] if impl == [1, 98] else []) \
            + (["trivial"] if not any(pd[kk] for kk in range(7)) and not decoys else [])
        return dict(wire=[5, [i, j], pd + [[]]], impl=impl, pred=pred, features=feats)
    raise ValueError(k)


def signature(desc, res):
    return res.get("sig")


def shrink(desc):
    if desc.get("kind") not in ("run", "run-repaired", "torn", "torn-repaired"):
        return
    base = run(desc).get("sig")

    def same(d):
        try:
            return run(d).get("sig") == base
        except Exception:
            return False
    sched = desc["sched"]
    cands = []
    for t, e in enumerate(sched):
        k, o = e[0], e[1]
        if k < FULL:
            cands.append(dict(desc, sched=sched[:t] + [[FULL, CANON]] + sched[t + 1:]))
        if o != CANON and len(e) == 2:
            cands.append(dict(desc, sched=sched[:t] + [[k, CANON]] + sched[t + 1:]))
    if len(sched) > 1:
        cands.append(dict(desc, sched=sched[:-1]))
        cands.append(dict(desc, sched=sched[1:]))
    if desc["n"] > 1:
        cands.append(dict(desc, n=desc["n"] - 1))
    if desc["bs"] > 1:
        cands.append(dict(desc, bs=desc["bs"] - 1))
    for d in cands:
        if same(d):
            yield d


def extra(tier):
    res = []
    # the fake found through PATH is ours, and a spawned run equals an in-process run
    a = run_schedule("retrospective", 2, 4, mk_sched(4, [(1, 6, CANON), (0, 2, CANON)]), spawn=True)
    b = run_schedule("retrospective", 2, 4, mk_sched(4, [(1, 6, CANON), (0, 2, CANON)]), spawn=False)
    res.append(("spawned fake nextflow == in-process fake", [a.final, a.log] == [b.final, b.log] and any(g[0] == 4 for g in a.log),
                "log lengths %d/%d" % (len(a.log), len(b.log))))
    res.append(("probe of the real examine", True, "PROBED_FIXED=%d (1 = /repo skips an empty iteration directory)" % probed_fixed()))
    res.append(("probe of the real validate_job_dir_and_return_meta", True,
                "PROBED_TFIX=%d (1 = /repo takes an unreadable completion marker for a missing one)" % probed_tfix()))
    return res
