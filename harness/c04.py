"""C04 — masked observations never influence training, scoring or selection."""
import contextlib
import dataclasses
import functools
import math
import os
import shutil
import struct
import sys
import tempfile
import warnings
from fractions import Fraction
from unittest import mock

import numpy as np

import common
import screenlib
from common import ImplError, frac, impl_call

ID = "C04"
LEVEL = "proof"
RULE = ("kinds: rel (a partially observed screen built with the real Screen constructor, structured = single-agent plate + "
        "combination / control plates, or unstructured = screenlib.gen_rows; every masked entry replaced by a value from "
        "{finite, 0, 1, NaN, -3, 1e300, +-inf}; both screens trained through subset_observed + add_observations for "
        "SparseDrugCombo and SparseDrugComboInteraction, then seeded sampler steps, all distance chunks, all score chunks "
        "(GaussianDBALScorer / SizeScorer, random chunk counts and batches) and select_next_plate; the two runs are compared "
        "bit-for-bit with each other and the training arrays / single-effect lookup with the model); refuse (a negative / "
        "NaN / -inf / edge value planted in an observed row, or masked rows handed to add_observations directly - as the screen, or as the Plate-typed union of its plates); inner "
        "(_add_observations called directly, correspondence only); cli (batchie.cli.train_model.main in-process on both "
        "screens; the training arrays are captured before AND after sampling.sample).  Non-trivial: at least one masked and one observed row (rel/cli) or a planted value (refuse); distinct "
        "by canonical case description.")
THEOREMS = {
    "C04_train_noninterference_sdc": "two row lists that differ only in masked observation values give equal SparseDrugCombo training data (train_model path), every oracle / float32 cast",
    "C04_train_noninterference_interaction": "same for SparseDrugComboInteraction (lookup and training arrays), for every setting of the three switches, i.e. as coded and repaired",
    "C04_trained_exactly_once_sdc": "SparseDrugCombo training data = one (logit(clip(float32 y)), sample, d1, d2) per observed row, in order",
    "C04_sdc_transform_documented": "on a non-negative observation whose cast is not NaN the transform is the finite value logit(clip(cast y, lo, hi)) with lo,hi from Generated/ConstsClip.v",
    "C04_trained_exactly_once_interaction": "repaired mask: training data = one (logit(float32 y), sample, d1, d2) per observed row without a control id, in order; nothing else",
    "C04_single_effect_documented": "the lookup value of (sample, non-control treatment) is the mean over the observed single-agent rows of that sample and treatment",
    "C04_trained_exactly_once_interaction_refuted": "AS CODED the interaction model trains on an all-control row and on no combination row (witness)",
    "C04_refuses_masked": "add_observations on rows containing a masked row is Err, both models, all switches",
    "C04_refuses_negative_nan_sdc": "SparseDrugCombo: a negative or NaN observation among the rows => Err",
    "C04_refuses_negative_nan_interaction": "interaction model with guard_neg: a negative or NaN observation among the rows => Err",
    "C04_refuses_negative_interaction_refuted": "AS CODED the interaction model accepts a negative observation (witness)",
    "C04_refuses_nan_interaction_refuted": "AS CODED the interaction model accepts a NaN observation (witness)",
    "C04_screen_noninterference": "over the shared Screen model: constructor arguments that differ only in masked observation bit patterns are accepted alike and give equal training data (both models) and equal downstream projection",
    "C04_downstream_frame": "the projection handed to distance / scoring / selection is equal for screens that differ only in masked values, hence so is every function of it; the training input is such a function",
    "C04_model_is_source_add_observations": "the Gallina translation of the whole method BayesianModel.add_observations, regenerated from /repo's core.py on this run (Generated/SrcTrain.v), equals the model's add_observations for every model class (any _add_observations, any state), every object and every row list: ValueError (tag 1) unless observation_mask.all(), else self._add_observations(data)",
    "C04_model_is_source_legacy_update": "the translations of LegacySparseDrugComboImpl._update and LegacySparseDrugComboInteractionImpl._update (n = self.n_obs(); four list appends; three defaultdict(list) bucket appends of n) map the object holding the training rows st (legacy_of st) to the object holding st ++ [(y, cl, dd1, dd2)], for EVERY st; n_obs = len(st)",
    "C04_model_is_source_legacy_index_invariant": "after ANY sequence of translated _update calls on a fresh object the four lists are the columns of the calls and each of cline_idxs / dd1_idxs / dd2_idxs has exactly one entry per id of its column (in order of first occurrence) whose value is the strictly ascending list of exactly the row numbers (from 0) at which the column holds that id",
    "C04_model_is_source_sdc_add_observations": "the translation of the whole method SparseDrugCombo._add_observations (>= 0 check, astype(float32), np.clip with the bounds written in the call, logit, NaN check, the zip loop calling the translated _update on dd[0], dd[1] for rows with mask) equals the model sdc_inner on every reachable wrapped object: same error tag, or the object holding the model's new training rows",
    "C04_model_is_source_sdc_add": "translated add_observations around the translated SparseDrugCombo._add_observations = the model sdc_add",
    "C04_model_is_source_create_single_treatment_effect_map": "the translation of the whole function data.create_single_treatment_effect_map (arity check, single-treatment mask, the two loops over np.unique, control entry 1.0, `continue` when no single-agent row, np.mean) run on the three columns of any row list equals the model single_effect_map (the dict as the list of its entries in insertion order = sorted by key); ValueError (tag 4) when arity < 2",
    "C04_model_is_source_create_single_treatment_effect_map_c20": "the same translation, instantiated at exact rationals (1, qmean), equals C20's column-level model Synergy.effect_map (used by calculate_synergy / create_single_treatment_effect_array) under the hypotheses that treatment_ids is an n x arity array and sample_ids / observation have n entries - a fact about every call with aligned arrays, NOT about misaligned ones (numpy's IndexError, which C20's model covers and the translation's mask primitive does not); the arity ValueError is tag 4 here, 1 in C20",
    "C04_model_is_source_interaction_add_observations": "the translation of the whole method SparseDrugComboInteraction._add_observations (arity != 2, >= 0 check, single_effect_lookup.update(translated create_single_treatment_effect_map), combo_mask = controls per row == 0, the five masked columns, logit(astype(float32)), NaN check, the zip loop calling the translated _update) equals the interaction model int_inner with ALL THREE repair switches true, for every lookup, every reachable wrapped object, arity and row list",
    "C04_model_is_source_interaction_add": "translated add_observations around the translated SparseDrugComboInteraction._add_observations = the model int_add true true true",
    "C04_source_variant_unique": "the translation determines the model's switches: (fixed_mask, guard_neg, guard_nan) = (true, true, true) is the ONLY setting for which the interaction model equals the translated source on all inputs (three vm_compute witnesses)",
}
ASSUMPTIONS = [
    "rows are at id level (Screen.sample_ids / treatment_ids / plate_ids of the real constructor); the names->ids encoding is the shared Screen model (C01), run here on every rel/cli case and compared with the real screen's ids, mask and exact observation values",
    "the float32 cast is an abstract function in the theorems; in the correspondence it is the table of numpy's own casts of the case's values",
    "logit on (0,1) is an oracle (libm on the nearest double); the training targets are float32 in the implementation and compared with tolerance 2e-5, means of single-agent observations with 1e-12; ids, counts, orders and error/no-error exactly",
    "downstream steps are compared on the implementation side only (two runs, bit-for-bit) plus a tripwire that counts reads of Screen.observations / ScreenSubset.observations while they run; their numeric content is C05-C07's business",
    "the unseeded default_rng() inside fast_mvn.sample_mvn_from_precision (a C18 finding) is replaced by a seeded generator and numpy's global generator is seeded before each run, so two runs are comparable",
    "the index dictionaries cline_idxs/dd1_idxs/dd2_idxs of the legacy implementations are checked on the implementation side to be the positions of each id in the arrays",
]
EXPLANATION = ("Model: Model/TrainScreen.v (id-level rows of a screen built by the shared constructor model, exact decoding of "
               "observation bit patterns) and Model/Train.v (add_observations guard, subset_observed, SparseDrugCombo._add_observations, "
               "create_single_treatment_effect_map, SparseDrugComboInteraction._add_observations with three repair switches, "
               "downstream projection).  The harness probes the real interaction model once to find which switches describe "
               "it (all false before the repair 49949ee, all true since) and requires exact correspondence with that variant, and with the fully "
               "repaired variant whenever the property predicate holds.  "
               "SOURCE LINKS (C04_model_is_source_*, C04_source_variant_unique): BayesianModel.add_observations (core.py), "
               "SparseDrugCombo._add_observations, LegacySparseDrugComboImpl.n_obs / _update (sparse_combo.py), "
               "SparseDrugComboInteraction._add_observations, LegacySparseDrugComboInteractionImpl.n_obs / _update "
               "(sparse_combo_interaction.py) and create_single_treatment_effect_map (data.py) are re-translated WHOLE from /repo's "
               "current text into Gallina on every run (harness/py2gal.py, configurations C04_* of harness/src_functions.py, output "
               "coq/theories/Generated/SrcTrain.v; a function outside the fragment, a changed parameter list, an undeclared variable or an "
               "unmatched library call stops the build) and the theorems prove the Train.v models EQUAL to the translations for all inputs, "
               "so every C04 training theorem is a theorem about the translated source.  Representation: a ScreenBase is the list of its "
               "id-level rows (Train.trow), each 1-d array attribute the column of the rows; the wrapped legacy object is Train.legacy (four "
               "lists, three insertion-ordered id -> row-number-list dictionaries), related to the model's list of training trips by the "
               "explicit map legacy_of (columns + index_dict = positions of each id); the translated _update maps legacy_of st to "
               "legacy_of (st ++ [trip]) for every st, so the links hold on every object reachable from a fresh one.  The links TRUST the "
               "translator and exactly these primitives (one attribute / numpy / scipy call each; loops, branches, raises, zip unpacking, "
               "the dict stores, the calls between the translated functions come from the translation): "
               "data.observations / .treatment_ids / .sample_ids / .observation_mask = the columns of the rows; data.treatment_arity and "
               "treatment_ids.shape[1] = the arity parameter; a.all() / a.any() / np.any(a) = forallb / existsb; `a >= 0.0` = elementwise "
               "o_nonneg (NaN >= 0 False, -inf False); a.astype(np.float32) = elementwise cast32 r32 (r32 any function: the float32 "
               "rounding is a parameter of every theorem); np.clip(a, a_min=lo, a_max=hi) = elementwise oclip_at lo hi (NaN propagates, "
               "infinities clipped; lo, hi are the float literals of the call as exact decimals, proved equal to Generated/ConstsClip's bounds "
               "by conversion); logit(a) = elementwise ologit orc (0 -> -inf, 1 -> +inf, outside [0,1] and NaN -> NaN, (0,1) the oracle); "
               "np.isnan(a) = elementwise o_isnan; zip of 4 / 5 arrays = zip4 / zip5 (stops at the shortest); dd[i] on an id row = id_at "
               "(IndexError tag 4); a[mask] = select (entries where the mask is True); a[mask, :] likewise for rows; a[mask, 0] / a[mask, 1] "
               "= column 0 / 1 of the selected rows; np.sum(a == CONTROL_SENTINEL_VALUE, axis=1) = controls per row (sentinel from "
               "Generated/ConstsClip.v); `counts == n` and `a == v` on integer arrays = elementwise =?; a & b = elementwise andb; "
               "np.sort(x, axis=1)[:, -1] = the row maxima; np.unique(a) = sort_uniq Z.compare (sorted distinct); a.flatten() = concat; "
               "np.mean(a) = omean; the literal 1.0 = OFin 1; result[(s, t)] = v = PyRt.dict2_set (insertion-ordered dict keyed by pairs); "
               "d[k].append(v) on the three index dictionaries = PyRt.dict_append, trusting that __init__ creates them as "
               "defaultdict(list) (a missing key starts from the empty list); self.n_obs() / wrapped_model._update(...) / "
               "create_single_treatment_effect_map(...) / self._add_observations(data) = the translated callee; "
               "single_effect_lookup.update(m) = Train.lk_update (the lookup kept sorted by key).  Not translated: the __init__ methods "
               "(that the lists start empty and the dictionaries are defaultdict(list)), train_model.main and Screen.subset_observed "
               "(C14 links the latter).")
# ---- source-translation links of the command-line wrappers (Model/Cli.v, Generated/SrcCli.v) ----
THEOREMS.update({
    'C04_model_is_source_cli_train_model': 'the translation of the whole function train_model.main regenerated on this run equals, for every record L of library functions and all parsed arguments, Cli.cli_train_model: the model constructed with EXPERIMENT_SPACE = ExperimentSpace.from_screen(loaded screen) is handed add_observations(screen.subset_observed()) - the observed subset only, no call when it is None - then sampling.sample(model, ThetaHolder(--n-samples), seed, n_chains, chain_index, n_burnin, thin, progress) and the result is saved',
})
EXPLANATION += ("  CLI wrapper: train_model.main is re-translated as a WHOLE function on every run (Generated/SrcCli.v) and proved equal to Model/Cli.v.  The link trusts the translator harness/py2gal.py (for these links extended by cfg typed_effects, kwcalls keys `module.function`, state_calls assigned to a tuple), the representation of Model/Cli.v (parsed arguments = a record of the plain argparse results, get_args() not translated = the primitive `get_args()` yielding that record; a main() denotes the list of (path, content) files it writes; `L` = ANY record of library functions over abstract types) and EXACTLY these primitives of harness/src_functions.py, each one field read / one library or constructor call standing for the function of that name (whose own link, where it exists, is the one of its property): CLI_TRAIN_MODEL: the fields of `args` read as the record's projections (a store to one is refused); ignored: log_config.configure_logging(args), logger.info/warning; args.model_params read / updated as one variable (attr_vars), model_params[EXPERIMENT_SPACE] = e (tm_set_space), args.model_cls(**params), Screen.load_h5(p), ExperimentSpace.from_screen(s), ThetaHolder(n_thetas=n), s.subset_observed() (an Optional subset), typed effect model.add_observations(d) with d a SUBSET (an Optional is unwrapped under the `is not None` test; a Screen is refused), the keyword call sampling.sample(...) with its defaults, typed effect r.save_h5(p). ")
THEOREMS.update({
    'C04_model_is_source_cli_args_get_args': 'the translation of the WHOLE function train_model.get_args (parse_args() = the raw namespace) equals Cli.tm_get_args: class lookup by --model among BayesianModel subclasses, its required-argument annotations, --model-param cast by them ({} when none), then model_cls stored',
    'C04_model_is_source_cli_args_train_model': 'train_model.main translated as a whole command (get_args() = the translated get_args; args.model_cls(**args.model_params) = construct on the two attributes, the experiment space stored into the parameter dict first) equals Cli.cli_train_model_cmd',
    'C04_model_is_source_cli_args_train_model_world': 'the same with the introspection record made of the TRANSLATED get_class / get_required_init_args_with_annotations (Props/C18.v)',
})
import c18_args
EXPLANATION += c18_args.explanation(["get_args", "cmd"], "train_model.get_args and train_model.main as a whole command are") + (
    "cast_dict_to_type, str_to_bool and the introspection functions are linked in Props/C18.v (their primitives are listed in C18's evidence).  "
    "Runtime: get_args() is run on generated command lines (kind cli_args): model_cls is the class named, model_params are typed by its annotations.  ")

THEOREMS.update(c18_args.parser_theorems('C04', {'train_model': ['fields', 'dests_derived', 'dests_distinct', 'seed', 'coordinates', 'params']}))
EXPLANATION += c18_args.parser_explanation(['train_model'])

# ---- gap round: the downstream clause as theorems, the command-line steps relationally ----
RULE += ("  Added: rel with selection through KPerSamplePlatePolicy(k = 1..3) on screens whose hidden plates hold one sample each "
         "(batch among the hidden plates); cli with a NaN / negative / -inf value planted on an OBSERVED plate (train_model.main must "
         "refuse as add_observations does); pipeline (both screens through train_model.main -> calculate_distance_matrix.main for "
         "every one of 1..3 chunks -> calculate_scores.main for every one of 1..3 chunks, GaussianDBALScorer / SizeScorer, optional "
         "batch of hidden plates -> select_next_plate.main without a policy or with KPerSamplePlatePolicy k = 1..2; files only, "
         "in-process, both shipped MCMC models - two thirds SparseDrugComboInteraction - on screens where a still-hidden plate "
         "carries replicates of single-agent wells; thetas, dense distance matrix, per-chunk scores and the selected-plate file "
         "compared byte for byte between the two runs, the plates scored per chunk and the selected plate with the model).")
THEOREMS.update({
    "C04_downstream_views_factor": "what score_chunk / select_next_plate (rows: plate id, mask bit, sample id, treatment ids), KPerSamplePlatePolicy (plates: id, sample ids, is_observed), the predictions (sample id, treatment ids) and training (subset_observed) read of a screen are functions of downstream_input",
    "C04_loop_noninterference": "one whole iteration composed of the stage MODELS (train_sdc -> Gibbs.mcmc_step sweeps against recorded draws -> DistMat.pipeline over any prediction function / metric -> Scores.score_chunk per chunk, save, load, concat, any scorer of (samples, matrix, handed plates) -> Scores.select_next or Policy.select_next k): posterior samples, dense distance matrix, score holder and selected plate are equal for two screens that differ only behind the mask, any chunk counts / orders / batch",
    "C04_loop_reads_projection": "that iteration is literally a function of downstream_input (training through its observed part)",
    "C04_loop_thetas_from_observed": "the posterior samples are sweeps on exactly the documented training trips of the observed rows (sampler data = columns of train_sdc's result)",
    "C04_source_train_stage": "the translated add_observations around the translated SparseDrugCombo._add_observations on a fresh object, handed subset_observed (train_model.main's call) = train_sdc",
    "C04_source_train_stage_interaction": "the same for SparseDrugComboInteraction: (single-effect lookup, wrapped object) after the translated training call = train_int with all repair switches true",
    "C04_source_train_stage_interaction_noninterference": "... equal for two screens that differ only behind the mask: the interaction sampler (its blocks read the wrapped lists) and predict_viability (the lookup frozen at training) start from equal inputs",
    "C04_source_thetas_noninterference": "the translated mcmc_step (Generated/SrcGibbs.v) with ANY block runner that is handed the data the translated training stored (C08's translated blocks are one), any recorded draws: equal posterior samples",
    "C04_source_thetas_data": "... and that data is gibbs_data (train_sdc rows)",
    "C04_source_distance_noninterference": "C07's composition of the translated calculate_pairwise_distance_matrix_on_predictions / save / load / concat / to_dense, predictions any function of (sample, row ids): equal dense matrices, any chunk count / order",
    "C04_source_scores_noninterference": "translated score_chunk per chunk + file round trip + translated ChunkedScoresHolder.concat, any scorer / chunk count / order / batch: equal holders",
    "C04_source_scores_stage": "that composition = the scores stage of the model iteration (through C06's links)",
    "C04_source_select_noninterference": "translated select_next_plate (C06), no policy or any policy function: equal selected plate",
    "C04_source_select_stage": "... = Scores.select_next on the projection",
    "C04_source_select_k_noninterference": "translated select_next_plate in C16's vocabulary with KPerSamplePlatePolicy(k) (Plate = id + sample ids of its rows, is_observed = all mask bits): equal selected plate",
    "C04_source_loop_noninterference": "the whole iteration composed of the TRANSLATED functions: equal (samples, matrix, holder, selected plate)",
    "C04_source_cli_train_model_noninterference": "the translated train_model.main over two file systems whose screens differ only behind the mask writes the same thetas - any model class, sampler, holder; ExperimentSpace.from_screen reading ids",
    "C04_source_cli_train_model_sdc": "with SparseDrugCombo (translated add_observations) what sampling.sample is handed holds exactly train_sdc of the loaded screen",
    "C04_source_cli_calculate_distance_matrix_noninterference": "the translated calculate_distance_matrix.main (library call = the translated calculate_pairwise_distance_matrix_on_predictions) writes the same chunk for both file systems",
    "C04_source_cli_calculate_scores_noninterference": "the translated calculate_scores.main over C06's library record (translated score_chunk) writes the same holder",
    "C04_source_cli_select_next_plate_noninterference": "the translated select_next_plate.main over C06's library record (translated select_next_plate / concat) writes the same plate id",
})
ASSUMPTIONS.append("downstream theorems: a posterior sample's prediction is ANY function of (sample, the rows' sample and treatment ids) - true of every shipped predict_* by its signature (C09 links them); the command-line theorems read Screen.load_h5 as a path -> id-level rows map and ExperimentSpace.from_screen as a function of the ids; a ScreenSubset is the list of its rows (so a subset's view of its PARENT's single_treatment_effects table is outside the model: see the known finding below)")
EXPLANATION += ("  DOWNSTREAM CLAUSE (gap round): Model/Downstream.v maps downstream_input into the input types of the stage models of "
                "C06 (Scores.screen), C16 (Policy.splate), C07 / C09 (row ids) and C08 (Gibbs.data), none of which has a place for an "
                "observation value of a masked row; Proofs/C04Down.v composes the stage models into one loop iteration and proves it blind to "
                "masked values; Proofs/C04DownSrc.v states the same of the TRANSLATED score_chunk, select_next_plate (C06 and, with "
                "KPerSamplePlatePolicy, C16 vocabulary), ChunkedScoresHolder.concat, the C07 distance pipeline, the translated mcmc_step "
                "(any block runner given the stored data) after the translated training, and of the four translated main() functions over "
                "file systems (path -> rows) that differ only behind the mask.  These import the C06 / C07 / C16 link proofs: a refused or "
                "changed translation of one of those functions now also breaks C04's obligation (intended: the clause is about them).  "
                "Wire op 4 (Run/RunC04.v): the model's score_chunk on the projection (plates handed to the scorer per chunk) and its "
                "selection on the implementation's scores, compared in the pipeline kind with what calculate_scores.main / "
                "select_next_plate.main wrote. ")

RULE += ("  grid (ComboGridFactorModel, the third shipped BayesianModel subclass: both screens trained through subset_observed + "
         "add_observations, the six training arrays compared bit for bit between the runs, with the per-row documentation "
         "(sample id, drug ids with single agents in slot 1, clip(y, 0, 1)) and (sample id, y) with the model; whole screen handed "
         "over; _add_observations directly; the observed rows in pieces; a negative / NaN / -inf / edge value planted on an observed "
         "row); view (every public array attribute of subset_observed() on both screens, single_treatment_effects with the model).")
THEOREMS.update({
    "C04_model_is_source_grid_add_observations": "the translation of the whole method ComboGridFactorModel._add_observations (>= 0 check, unpack_data(use_mask=True) as one primitive = row-wise over the rows with mask by ANY per-row function of sample id and treatment ids, six np.concatenate, np.clip(observations[mask], 0.0, 1.0)) equals the model grid_inner on the object holding any training entries",
    "C04_model_is_source_grid_add": "translated add_observations around it = grid_add",
    "C04_train_noninterference_grid": "two row lists that differ only in masked values give equal grid-model training arrays",
    "C04_trained_exactly_once_grid": "grid model: one entry per observed row in order = (its unpacked ids / log concentrations, clip(y, 0, 1)); accepted whenever no observed value is negative or NaN",
    "C04_refuses_grid": "grid model: a masked row => Err 1; a negative or NaN observation => Err",
    "C04_handed_view_single_effects_refuted": "AS CODED the single_treatment_effects attribute of subset_observed() depends on a masked value (witness: observed single-agent well 0.5, masked replicate 0.5 / 1 -> 0.5 / 0.75)",
    "C04_handed_view_single_effects_repaired": "computed from the observed rows only the attribute is equal for screens that differ only behind the mask",
})
EXPLANATION += ("  ComboGridFactorModel is variational, i.e. outside the quantifier's `every shipped MCMC model`, but the statement says `each "
                "shipped model` and it is a BayesianModel subclass selectable with --model: its _add_observations is linked "
                "(C04_GRID_ADD -> Generated/SrcTrainGrid.v; TRUSTED primitive: grid_helper.unpack_data(use_mask=True) is row-wise over "
                "the rows with mask and reads a row's sample id and treatment names / doses only - checked per row on the implementation "
                "by the grid kind) and the three clauses are proved and run for it; it satisfies them today.  HANDED VIEW: the rows of "
                "subset_observed() are identical, its lazily computed attribute single_treatment_effects is not (known finding "
                "handed-view-single_treatment_effects; no shipped model reads it, so nothing downstream differs). ")

SDC = "sdc"
INT = "interaction"
SPECIALS = ["nan", "inf", "-inf"]


# --------------------------------------------------------------------------- values


def fv(x):
    """JSON value -> float ('nan', 'inf', '-inf' are strings in case descriptions)"""
    return float(x)


def oval(x):
    x = float(x)
    if math.isnan(x):
        return [1]
    if math.isinf(x):
        return [2, x < 0]
    return [0, frac(x)]


def f32(x):
    with warnings.catch_warnings():
        warnings.simplefilter("ignore")
        with np.errstate(all="ignore"):
            return float(np.float64(x).astype(np.float32))


def fhex(x):
    x = float(x)
    return "nan" if math.isnan(x) else x.hex()


def wire_rows(s):
    """rows of a real Screen / ScreenSubset at id level"""
    tids = np.asarray(s.treatment_ids)
    out = []
    for i in range(s.size):
        o = float(s.observations[i])
        out.append([int(s.sample_ids[i]), int(s.plate_ids[i]), [int(t) for t in tids[i]], oval(o), oval(f32(o)),
                    bool(s.observation_mask[i])])
    return out


def oval_close(m, x, tol):
    """model oval (wire) vs implementation float"""
    x = float(x)
    if m[0] == 1:
        return math.isnan(x)
    if m[0] == 2:
        return math.isinf(x) and (x < 0) == bool(m[1])
    if math.isnan(x) or math.isinf(x):
        return False
    mv = float(Fraction(m[1][0], m[1][1]))
    return abs(x - mv) <= tol * max(1.0, abs(mv))


# --------------------------------------------------------------------------- implementation adapters


def _cls(model):
    from batchie.models import sparse_combo, sparse_combo_interaction

    return sparse_combo.SparseDrugCombo if model == SDC else sparse_combo_interaction.SparseDrugComboInteraction


def _mod(model):
    from batchie.models import sparse_combo, sparse_combo_interaction

    return sparse_combo if model == SDC else sparse_combo_interaction


def new_model(model, screen):
    from batchie.data import ExperimentSpace

    return _cls(model)(experiment_space=ExperimentSpace.from_screen(screen), n_embedding_dimensions=2)


def feed(m, screen, via):
    """via 1: the train_model path; 0: add_observations(screen); 2: _add_observations(screen)"""
    with warnings.catch_warnings():
        warnings.simplefilter("ignore")
        with np.errstate(all="ignore"):
            if via == 1:
                sub = screen.subset_observed()
                if sub is not None:
                    m.add_observations(sub)
            elif via == 0:
                m.add_observations(screen)
            elif via == 4:
                # the whole screen as the union of its plates (a Plate-typed composed view): same rows as via 0
                from batchie.data import ScreenSubset
                m.add_observations(ScreenSubset.concat(list(screen.plates)))
            elif via == 3:
                # the observed experiments handed over in two or three consecutive pieces (as when plates arrive one by one):
                # same rows, same order, so the training state must be the one of the single call
                sub = screen.subset_observed()
                if sub is not None:
                    idx = np.where(np.asarray(sub.selection_vector))[0]
                    k = 3 if len(idx) >= 5 else 2
                    for part in np.array_split(idx, k):
                        if len(part):
                            sel = np.zeros(len(np.asarray(sub.selection_vector)), dtype=bool)
                            sel[part] = True
                            m.add_observations(screen.subset(sel))
            else:
                m._add_observations(screen)


def training_of(m):
    """[[y, cl, d1, d2], ...] of a trained model + consistency of the legacy index dictionaries"""
    w = m.wrapped_model
    n = m.n_obs()
    if not (len(w.y) == len(w.cline) == len(w.dd1) == len(w.dd2) == n):
        raise AssertionError("training arrays of different lengths")
    for name, arr in (("cline_idxs", w.cline), ("dd1_idxs", w.dd1), ("dd2_idxs", w.dd2)):
        d = getattr(w, name)
        want = {}
        for i, v in enumerate(arr):
            want.setdefault(int(v), []).append(i)
        got = {int(k): list(v) for k, v in d.items() if len(v)}
        if got != want:
            raise AssertionError("%s inconsistent with the training arrays" % name)
    return [[float(y), int(c), int(a), int(b)] for y, c, a, b in zip(w.y, w.cline, w.dd1, w.dd2)]


def lookup_of(m):
    return sorted([[int(k[0]), int(k[1])], float(v)] for k, v in m.single_effect_lookup.items())


def train_result(model, screen, via):
    """canonical implementation answer for one request: ImplError | trips | [lookup, trips]"""
    def go():
        m = new_model(model, screen)
        feed(m, screen, via)
        t = training_of(m)
        return t if model == SDC else [lookup_of(m), t]
    return impl_call(go)


def train_bits(model, res):
    if isinstance(res, ImplError):
        return "raised %s" % res.cls
    if model == SDC:
        return repr([[fhex(t[0])] + t[1:] for t in res])
    lk, tr = res
    return repr(([[k, fhex(v)] for k, v in lk], [[fhex(t[0])] + t[1:] for t in tr]))


def theta_bytes(theta):
    out = []
    for f in dataclasses.fields(theta):
        v = getattr(theta, f.name)
        if isinstance(v, np.ndarray):
            out.append((f.name, str(v.dtype), v.shape, v.tobytes().hex()))
        elif isinstance(v, dict):
            out.append((f.name, sorted((tuple(int(x) for x in k), fhex(x)) for k, x in v.items())))
        else:
            out.append((f.name, fhex(v)))
    return repr(out)


@contextlib.contextmanager
def tripwire():
    """count reads of .observations on Screen / ScreenSubset objects"""
    from batchie import data as D

    count = [0]
    saved = {}
    for cls in (D.Screen, D.ScreenSubset):
        p = cls.__dict__["observations"]
        saved[cls] = p

        def mk(p):
            def get(self):
                count[0] += 1
                return p.fget(self)
            return property(get)
        setattr(cls, "observations", mk(p))
    try:
        yield count
    finally:
        for cls, p in saved.items():
            setattr(cls, "observations", p)


@contextlib.contextmanager
def quiet_logs():
    """batchie's warnings (`No eligible plates remaining`) would go to stderr through logging's last-resort handler"""
    import logging
    prev = logging.root.manager.disable
    logging.disable(logging.CRITICAL)
    try:
        yield
    finally:
        logging.disable(prev)


def batch_ids(screen, batch):
    """a batch given as plate ids (older cases) or as plate names (turned into the ids of this screen)"""
    out = []
    for b in batch:
        if isinstance(b, str):
            ids = sorted({int(i) for i, n in zip(screen.plate_ids, screen.plate_names) if str(n) == b})
            out.extend(ids)
        else:
            out.append(int(b))
    return out


def downstream(model, screen, cfg):
    """train on the observed subset, sample, distance matrix, scores, selection.
    Returns an ordered list of (stage, fingerprint); a stage that raises ends the list."""
    from batchie.core import ThetaHolder
    from batchie.distance.mse import MSEDistance
    from batchie.distance_calculation import ChunkedDistanceMatrix, calculate_pairwise_distance_matrix_on_predictions
    from batchie.fast_mvn import sample_mvn_from_precision
    from batchie.scoring.gaussian_dbal import GaussianDBALScorer
    from batchie.scoring.main import ChunkedScoresHolder, score_chunk, select_next_plate
    from batchie.scoring.size import SizeScorer

    out = []
    stage = "train"
    try:
        with warnings.catch_warnings():
            warnings.simplefilter("ignore")
            with np.errstate(all="ignore"):
                m = new_model(model, screen)
                feed(m, screen, 1)
                out.append(("n_obs", repr(m.n_obs())))
                stage = "thetas"
                np.random.seed(cfg["seed"])
                rng = np.random.default_rng(cfg["seed"] + 1)
                th = ThetaHolder(cfg["steps"])
                with mock.patch.object(_mod(model), "sample_mvn_from_precision",
                                       functools.partial(sample_mvn_from_precision, rng=rng)):
                    for _ in range(cfg["steps"]):
                        m.step()
                        th.add_theta(m.get_model_state())
                out.append(("thetas", repr([theta_bytes(th.get_theta(i)) for i in range(th.n_thetas)])))
                with tripwire() as reads:
                    stage = "distance"
                    nd = cfg["n_chunks_d"]
                    ms = [calculate_pairwise_distance_matrix_on_predictions(th, MSEDistance(sigmoid=cfg["sigmoid"]), screen, k, nd)
                          for k in range(nd)]
                    dm = ChunkedDistanceMatrix.concat(ms)
                    out.append(("distance", dm.to_dense().tobytes().hex()))
                    stage = "scores"
                    scorer = GaussianDBALScorer(max_chunk=cfg["max_chunk"], max_triples=cfg["max_triples"]) if cfg["scorer"] == "dbal" else SizeScorer()
                    ns = cfg["n_chunks_s"]
                    batch = batch_ids(screen, cfg["batch"])
                    srng = np.random.default_rng(cfg["seed"] + 2)
                    hs = [score_chunk(scorer, th, screen, dm, rng=srng, n_chunks=ns, chunk_index=k,
                                      batch_plate_ids=(batch if batch or cfg["batch_list"] else None)) for k in range(ns)]
                    h = ChunkedScoresHolder.concat(hs)
                    out.append(("scores", repr(([fhex(x) for x in h.scores.tolist()], [int(x) for x in h.plate_ids.tolist()]))))
                    stage = "selection"
                    if len(h.plate_ids):
                        policy = None
                        if cfg.get("policy") is not None:
                            from batchie.policies.k_per_sample import KPerSamplePlatePolicy
                            policy = KPerSamplePlatePolicy(k=int(cfg["policy"]))
                        with quiet_logs():
                            p = select_next_plate(h, screen, policy, batch_plate_ids=batch, rng=np.random.default_rng(cfg["seed"] + 3))
                        out.append(("selection", repr(None if p is None else int(p.plate_id))))
                    else:
                        out.append(("selection", "no-scores"))
                out.append(("observation-reads-downstream", repr(reads[0])))
    except Exception as e:  # noqa
        out.append((stage, "raised %s: %s" % (type(e).__name__, str(e)[:80])))
    return out


# --------------------------------------------------------------------------- which variant of the interaction model is this?

_FLAGS = None


def _probe_screen(vals):
    """rows: single a, single b (both samples one), combo (a,b), all-control"""
    rows = [dict(s="x", p="p", t=[["a", 1.0], ["control", 1.0]], o=vals[0], m=True),
            dict(s="x", p="p", t=[["control", 1.0], ["b", 1.0]], o=vals[1], m=True),
            dict(s="x", p="p", t=[["a", 1.0], ["b", 1.0]], o=vals[2], m=True),
            dict(s="x", p="p", t=[["control", 1.0], ["control", 1.0]], o=vals[3], m=True)]
    return screenlib.build(dict(rows=rows, arity=2, ctrl="control", obs_given=True, mask_given=True, tmap=None, smap=None))


def impl_flags():
    """[fixed_mask, guard_neg, guard_nan] describing the real interaction model (probed once)"""
    global _FLAGS
    if _FLAGS is None:
        r = train_result(INT, _probe_screen([0.5, 0.5, 0.5, 0.5]), 0)
        fm = False
        if not isinstance(r, ImplError):
            ids = [t[1:] for t in r[1]]
            fm = ids == [[0, 0, 1]]
        gneg = isinstance(train_result(INT, _probe_screen([-0.5, 0.5, 0.5, 0.5]), 0), ImplError)
        gnan = isinstance(train_result(INT, _probe_screen([0.5, 0.5, 2.0, 2.0]), 0), ImplError)
        _FLAGS = [bool(fm), bool(gneg), bool(gnan)]
    return _FLAGS


# --------------------------------------------------------------------------- the property predicate (implementation side only)


def doc_y(model, o):
    """the documented transform of one observation, computed here independently (float64 arithmetic on the float32 cast)"""
    x = f32(o)
    if math.isnan(x):
        return x
    if model == SDC:
        lo, hi = f32(0.01), f32(0.99)
        x = min(max(x, lo), hi)
    if x < 0 or x > 1:
        return float("nan")
    if x == 0:
        return float("-inf")
    if x == 1:
        return float("inf")
    return math.log(x / (1.0 - x))


def y_same(a, b):
    if math.isnan(a) or math.isnan(b):
        return math.isnan(a) and math.isnan(b)
    if math.isinf(a) or math.isinf(b):
        return a == b
    return abs(a - b) <= 2e-5 * max(1.0, abs(b))


def observed_rows(screen):
    tids = np.asarray(screen.treatment_ids)
    return [(int(screen.sample_ids[i]), [int(t) for t in tids[i]], float(screen.observations[i]))
            for i in range(screen.size) if bool(screen.observation_mask[i])]


def has_bad(vals):
    neg = any((not math.isnan(v)) and v < 0 for v in vals)
    nan = any(math.isnan(v) for v in vals)
    return neg, nan


def check_training(model, screen, res, given=None):
    """res = implementation answer of the train path (or of add_observations on `given` rows).
    Returns None or 'signature: detail'."""
    name = model
    rows = observed_rows(screen) if given is None else given
    arity = int(np.asarray(screen.treatment_ids).shape[1])
    neg, nan = has_bad([o for _, _, o in rows])
    raised = isinstance(res, ImplError)
    if neg and not raised:
        return "%s-accepts-negative: a negative observation was accepted silently" % name
    if nan and not raised:
        return "%s-accepts-nan: a NaN observation was accepted silently" % name
    if neg or nan:
        return None
    if arity != 2 and not (model == SDC and arity > 2):
        return None  # arity the model does not support: nothing documented
    if model == SDC:
        doc = [(s, t[0], t[1], doc_y(model, o)) for s, t, o in rows]
    else:
        doc = [(s, t[0], t[1], doc_y(model, o)) for s, t, o in rows if -1 not in t]
    if raised:
        if model == INT and any(math.isnan(d[3]) for d in doc):
            return None  # an observation > 1 on a combination row: a repaired model may refuse it
        return "%s-refuses-valid-input: %s on observed rows without negative / NaN values" % (name, res.cls)
    trips = res if model == SDC else res[1]
    got = [(t[1], t[2], t[3], t[0]) for t in trips]

    def same(a, b):
        return len(a) == len(b) and all(x[:3] == y[:3] and y_same(x[3], y[3]) for x, y in zip(a, b))
    if same(got, doc):
        if model == INT:
            # the single-effect lookup: mean of the observed single-agent rows per (sample, treatment)
            want = {}
            for s, t, o in rows:
                if sum(1 for x in t if x == -1) == arity - 1:
                    want.setdefault((s, max(t)), []).append(o)
            lk = {tuple(k): v for k, v in res[0]}
            for k, vs in want.items():
                mean = sum(vs) / len(vs) if not any(math.isinf(v) for v in vs) else float(np.mean(vs))
                if k not in lk or not (abs(lk[k] - mean) <= 1e-12 * max(1.0, abs(mean)) or lk[k] == mean):
                    return "interaction-single-effect-differs: lookup%r = %r, mean of single-agent rows = %r" % (k, lk.get(k), mean)
            for k, v in lk.items():
                if k[1] == -1:
                    if v != 1.0:
                        return "interaction-single-effect-differs: control entry %r = %r" % (k, v)
                elif k not in want:
                    return "interaction-single-effect-differs: entry %r without a single-agent row" % (k,)
        return None
    key = lambda x: (x[0], x[1], x[2], -1e308 if math.isnan(x[3]) else x[3])
    if same(sorted(got, key=key), sorted(doc, key=key)):
        return "%s-training-order-differs: same rows, different order" % name
    if model == INT:
        ctrl = [(s, t[0], t[1]) for s, t, o in rows if all(x == -1 for x in t)]
        if [g[:3] for g in got] == ctrl:
            return ("interaction-trains-on-all-control-rows: trained on exactly the %d all-control row(s) (ids (sample,-1,-1)) of the observed "
                    "subset and on none of its %d combination row(s)" % (len(ctrl), len(doc)))
    return "%s-training-rows-differ: %d rows trained, %d documented" % (name, len(got), len(doc))


# --------------------------------------------------------------------------- generators

GOOD = [0.0, 0.25, 0.5, 1.0, 0.125, 0.75, 0.3, 0.9, 0.011, 0.995, 2.0 ** -30, 0.6180339887]
REPL = ["nan", -3.0, 1e300, 0.0, 1.0, 0.7, "inf", "-inf", -0.0, 5e-324, -1e-300, 2.5]


def gen_structured(rng, tier, single_sample_plates=False, hidden_single=False):
    """plate p0: observed single-agent rows for every sample x treatment; other plates: combinations,
    some single-agent and all-control rows; each plate observed or not as a whole.
    single_sample_plates: every plate but p0 holds rows of one sample (what KPerSamplePlatePolicy accepts);
    hidden_single: at least one still-hidden plate carries a replicate of a single-agent well of p0 (a masked value that a
    single-effect table computed from ALL wells would average in)."""
    ctrl = rng.choice(["control", "control", ""])
    samples = rng.sample(["x", "y", "z", "é"], rng.randint(1, 3))
    treats = rng.sample([["a", 1.0], ["a", 2.0], ["b", 1.0], ["c", 0.5], ["d", 3.0]], rng.randint(2, 4))
    cname = [ctrl, 1.0] if ctrl else [rng.choice(["a", "q"]), 0.0]

    def val():
        return rng.choice(GOOD) if rng.random() < 0.8 else round(rng.uniform(0.02, 0.98), 6)

    def single(s, t, p, m):
        pair = [t, cname] if rng.random() < 0.5 else [cname, t]
        return dict(s=s, p=p, t=pair, o=val(), m=m, r=rng.choice(REPL))

    rows = []
    for s in samples:
        for t in treats:
            rows.append(single(s, t, "p0", True))
            if rng.random() < 0.25:
                rows.append(single(s, t, "p0", True))
    if rng.random() < 0.5:
        rows.append(dict(s=rng.choice(samples), p="p0", t=[cname, cname], o=val(), m=True, r=0.5))
    nplates = rng.randint(2, 5)
    observed = [rng.random() < 0.4 for _ in range(nplates)]
    if all(observed):
        observed[rng.randrange(nplates)] = False
    for k in range(nplates):
        p = "p%d" % (k + 1)
        ps = rng.choice(samples) if single_sample_plates else None
        for _ in range(rng.randint(1, 4)):
            s = ps if single_sample_plates else rng.choice(samples)
            kind = rng.random()
            if kind < 0.7:
                a, b = rng.sample(treats, 2) if rng.random() < 0.9 else [treats[0], treats[0]]
                t = [a, b]
            elif kind < 0.85:
                t = [cname, cname]
            else:
                t = [rng.choice(treats), cname]
                rng.shuffle(t)
            rows.append(dict(s=s, p=p, t=t, o=val(), m=observed[k], r=rng.choice(REPL)))
    if hidden_single:
        hidden = [k for k in range(nplates) if not observed[k]]
        for k in rng.sample(hidden, rng.randint(1, min(2, len(hidden)))):
            p = "p%d" % (k + 1)
            on = [r["s"] for r in rows if r["p"] == p]
            s = on[0] if (single_sample_plates and on) else rng.choice(samples)
            rows.append(dict(single(s, rng.choice(treats), p, False), r=rng.choice([0.7, 0.05, "nan", 2.5, -3.0, 1.0, 0.0])))
    if rng.random() < 0.5:
        rng.shuffle(rows)
    return dict(rows=rows, arity=2, ctrl=ctrl, obs_given=True, mask_given=True, tmap=None, smap=None)


def gen_unstructured(rng, tier):
    ctrl = rng.choice(screenlib.CTRLS)
    arity = rng.choice([2, 2, 2, 2, 2, 1, 3])
    rows, arity = screenlib.gen_rows(rng, arity=arity, n=rng.choice([1, 2, 3, 4, 5, 6, 8, 10]), ctrl=ctrl,
                                     names=rng.sample(["a", "b", "c", "control"], rng.randint(1, 3)) + [ctrl],
                                     doses=rng.sample([-1.0, 0.0, 1.0, 2.0, 0.5], rng.randint(1, 3)))
    for r in rows:
        r["r"] = rng.choice(REPL)
    return dict(rows=rows, arity=arity, ctrl=ctrl, obs_given=True, mask_given=True, tmap=None, smap=None)


def gen_cfg(rng, sd):
    plates = sorted({r["p"] for r in sd["rows"]})
    nplates = len(plates)
    unobs = sorted({r["p"] for r in sd["rows"] if not r["m"]})
    batch = []
    if rng.random() < 0.5 and nplates:
        batch = sorted(rng.sample(range(nplates), rng.randint(1, min(2, nplates))))
    return dict(seed=rng.randint(0, 10 ** 6), steps=rng.choice([3, 3, 4]), n_chunks_d=rng.choice([1, 1, 2, 3, 7]),
                n_chunks_s=rng.choice([1, 1, 2, 3, len(unobs) + 1]), batch=batch, batch_list=rng.random() < 0.3,
                scorer=rng.choice(["dbal", "dbal", "size"]), sigmoid=rng.random() < 0.5,
                max_chunk=rng.choice([1, 2, 50]), max_triples=rng.choice([1, 3, 5000]))


def _hidden_batch(rng, sd):
    """0..2 NAMES of still-hidden plates, leaving at least one hidden plate as a candidate (run() turns names into ids)"""
    hidden = sorted({r["p"] for r in sd["rows"] if not r["m"]})
    if len(hidden) < 2 or rng.random() < 0.4:
        return []
    return sorted(rng.sample(hidden, rng.randint(1, min(2, len(hidden) - 1))))


def gen(rng, tier):
    q = tier == "quick"
    # relational cases
    for i in range(260 if q else 2000):
        sd = gen_structured(rng, tier) if rng.random() < 0.7 else gen_unstructured(rng, tier)
        yield dict(kind="rel", model=rng.choice([SDC, INT]), screen=sd, cfg=gen_cfg(rng, sd))
    # refusal cases
    for i in range(200 if q else 1500):
        sd = gen_structured(rng, tier)
        model = rng.choice([SDC, INT])
        via = rng.choice([0, 1])
        if via == 0:
            if rng.random() < 0.25:
                pass  # masked rows handed over directly
            else:
                for r in sd["rows"]:
                    r["m"] = True
        cand = [i for i, r in enumerate(sd["rows"]) if r["m"]]
        planted = None
        if rng.random() < 0.85:
            i = rng.choice(cand)
            planted = rng.choice([-0.5, -3.0, -1e-300, -5e-324, "nan", "nan", "-inf", -1.0, -0.0, "inf", 1e300, 2.0, 1.0 + 2.0 ** -20])
            sd["rows"][i]["o"] = planted
        yield dict(kind="refuse", model=model, via=via, screen=sd, planted=planted)
    # the union of the screen's plates handed to add_observations: mixed observation states, observed plate first or not
    for i in range(60 if q else 400):
        sd = gen_structured(rng, tier)
        if rng.random() < 0.2:
            for r in sd["rows"]:
                r["m"] = True
        yield dict(kind="refuse", model=rng.choice([SDC, INT]), via=4, screen=sd, planted=None)
    # _add_observations called directly (correspondence only)
    for i in range(50 if q else 400):
        sd = gen_structured(rng, tier) if rng.random() < 0.6 else gen_unstructured(rng, tier)
        if rng.random() < 0.3:
            for r in sd["rows"]:
                if not r["m"]:
                    r["o"] = r["r"]
        yield dict(kind="inner", model=rng.choice([SDC, INT]), screen=sd)
    # the command line entry point
    for i in range(16 if q else 120):
        sd = gen_structured(rng, tier)
        yield dict(kind="cli", model=rng.choice([SDC, INT]), screen=sd, seed=rng.randint(0, 1000))
    import c18_args
    yield from c18_args.gen_get_args(rng, tier, only="train_model")
    # ---- added by the gap round (after the older kinds, so their cases stay what they were) ----
    # the command line entry point on a screen with a NaN / negative value on an OBSERVED plate: main() must refuse as
    # add_observations does (raise, no thetas written)
    for i in range(10 if q else 80):
        sd = gen_structured(rng, tier)
        cand = [j for j, r in enumerate(sd["rows"]) if r["m"]]
        planted = rng.choice(["nan", "nan", -0.5, -3.0, "-inf", -1e-300])
        sd["rows"][rng.choice(cand)]["o"] = planted
        yield dict(kind="cli", model=rng.choice([SDC, INT]), screen=sd, seed=rng.randint(0, 1000), planted=planted)
    # selection through KPerSamplePlatePolicy(k), in-process (plates of one sample each, batch among the hidden plates)
    for i in range(40 if q else 400):
        sd = gen_structured(rng, tier, single_sample_plates=rng.random() < 0.85, hidden_single=rng.random() < 0.5)
        cfg = gen_cfg(rng, sd)
        cfg["policy"] = rng.choice([1, 1, 2, 3])
        cfg["batch"] = _hidden_batch(rng, sd)
        yield dict(kind="rel", model=rng.choice([SDC, INT]), screen=sd, cfg=cfg)
    # the third shipped BayesianModel subclass, ComboGridFactorModel (variational): relational training, refusal, pieces
    for i in range(60 if q else 500):
        sd = gen_structured(rng, tier) if rng.random() < 0.8 else gen_unstructured(rng, tier)
        mode = rng.choice(["rel", "rel", "refuse", "whole"])
        planted = None
        if mode == "refuse":
            cand = [j for j, r in enumerate(sd["rows"]) if r["m"]] or [0]
            planted = rng.choice([-0.5, -3.0, -1e-300, -5e-324, "nan", "nan", "-inf", -0.0, "inf", 1e300, 2.0])
            sd["rows"][rng.choice(cand)]["o"] = planted
        yield dict(kind="grid", mode=mode, screen=sd, planted=planted)
    # every public array attribute of the object handed to the model (screen.subset_observed()) and of the plates handed to the
    # scorer, on both screens
    for i in range(30 if q else 300):
        sd = gen_structured(rng, tier, hidden_single=rng.random() < 0.6)
        yield dict(kind="view", screen=sd)
    # the four command-line steps one after the other on both screens: train_model.main -> calculate_distance_matrix.main
    # (1..3 chunks) -> calculate_scores.main (1..3 chunks) -> select_next_plate.main (no policy / KPerSamplePlatePolicy)
    for i in range(24 if q else 200):
        single = rng.random() < 0.6
        sd = gen_structured(rng, tier, single_sample_plates=single, hidden_single=rng.random() < 0.8)
        yield dict(kind="pipeline", model=[INT, SDC, INT][i % 3], screen=sd, seed=rng.randint(0, 1000),
                   cfg=dict(n_chunks_d=rng.choice([1, 2, 3]), n_chunks_s=rng.choice([1, 2, 3]),
                            scorer=rng.choice(["GaussianDBALScorer", "GaussianDBALScorer", "SizeScorer"]),
                            batch=_hidden_batch(rng, sd) if rng.random() < 0.5 else [],
                            policy=(rng.choice([1, 2]) if single and rng.random() < 0.7 else None)))


# --------------------------------------------------------------------------- run


def concrete(sd, replaced):
    d = dict(sd)
    d["rows"] = [dict(r, o=fv(r["r"]) if (replaced and not r["m"]) else fv(r["o"])) for r in sd["rows"]]
    return d


def req(model, via, rows, arity, flags):
    if model == SDC:
        return [0, via, rows]
    return [1, via, flags, arity, rows]


def cmp_answer(model, m, i, what):
    """one request: model answer m (result) vs implementation answer i"""
    ierr = isinstance(i, ImplError)
    if isinstance(m, str):
        return "%s: model driver failure %s" % (what, m)
    if common.is_err(m):
        if not ierr:
            return "%s: model refuses (tag %s), implementation accepted" % (what, m[1])
        tag = m[1]
        if tag == 1 and "masked" not in i.msg:
            return "%s: model says masked-row refusal, implementation raised %r" % (what, i)
        if tag in (2, 3) and i.cls != "ValueError":
            return "%s: model tag %s, implementation raised %r" % (what, tag, i)
        if tag == 4 and i.cls not in ("IndexError", "ValueError"):
            return "%s: model tag 4, implementation raised %r" % (what, i)
        return None
    if not common.is_ok(m):
        return "%s: model output is not a result: %s" % (what, common.short(m))
    if ierr:
        return "%s: implementation raised %r, model returned a value" % (what, i)
    mv = m[1]
    if model == SDC:
        mt, it, mlk, ilk = mv, i, [], []
    else:
        (mlk, mt), (ilk, it) = mv, i
    if len(mt) != len(it):
        return "%s: %d training rows in the model, %d in the implementation" % (what, len(mt), len(it))
    for k, (a, b) in enumerate(zip(mt, it)):
        if a[1:] != b[1:]:
            return "%s: training row %d ids differ: model %s impl %s" % (what, k, a[1:], b[1:])
        if not oval_close(a[0], b[0], 2e-5):
            return "%s: training row %d y differs: model %s impl %r" % (what, k, a[0], b[0])
    if [k for k, _ in mlk] != [k for k, _ in ilk]:
        return "%s: lookup keys differ: model %s impl %s" % (what, [k for k, _ in mlk], [k for k, _ in ilk])
    for (k, a), (_, b) in zip(mlk, ilk):
        if not oval_close(a, b, 1e-12):
            return "%s: lookup%s differs: model %s impl %r" % (what, k, a, b)
    return None


def view_of(screen):
    tids = np.asarray(screen.treatment_ids)
    out = []
    for i in range(screen.size):
        m = bool(screen.observation_mask[i])
        out.append([int(screen.sample_ids[i]), int(screen.plate_ids[i]), [int(t) for t in tids[i]], m,
                    [oval(float(screen.observations[i]))] if m else []])
    return out


def repl_features(sd):
    fs = set()
    for r in sd["rows"]:
        if not r["m"]:
            v = fv(r["r"])
            fs.add("repl-nan" if math.isnan(v) else "repl-inf" if math.isinf(v) else "repl-negative" if v < 0 else
                   "repl-huge" if v > 1e100 else "repl-0-or-1" if v in (0.0, 1.0) else "repl-finite")
    return sorted(fs)


def row_features(screen):
    fs = set()
    tids = np.asarray(screen.treatment_ids)
    for i in range(screen.size):
        n = int((tids[i] == -1).sum())
        k = "all-control" if n == tids.shape[1] else "combination" if n == 0 else "single-agent" if n == tids.shape[1] - 1 else "partial-control"
        fs.add(("observed-" if screen.observation_mask[i] else "masked-") + k)
    return sorted(fs)


def _readonly_queries(screen):
    """a battery of read-only view operations on a screen; returns a predicate message if any of them changed the
    screen's observation mask or observations (none of them is documented to modify its arguments)"""
    from batchie.data import ScreenSubset
    m0 = np.array(screen.observation_mask, copy=True)
    o0 = np.array(screen.observations, copy=True)
    with warnings.catch_warnings():
        warnings.simplefilter("ignore")
        try:
            ob, un = screen.subset_observed(), screen.subset_unobserved()
            plates = list(screen.plates)
            parts = [x for x in (ob, un) if x is not None]
            if ob is not None and plates:
                ScreenSubset.concat([ob] + plates[:2])
                ob.combine(plates[-1])
            if un is not None and plates:
                ScreenSubset.concat([un, plates[0]])
            for x in parts:
                x.invert()
                x.to_screen()
            if len(plates) >= 2:
                ScreenSubset.concat(plates)
                plates[0].combine(plates[1])
        except Exception:      # noqa: BLE001 - a query that refuses is not a modification
            pass
    if not np.array_equal(m0, np.asarray(screen.observation_mask)):
        return "noninterference-readonly-query: read-only view queries (subset_observed / concat / combine / invert / to_screen) changed the screen's observation mask: %d experiment(s) now count as observed" % int(
            (np.asarray(screen.observation_mask) & ~m0).sum())
    if not np.array_equal(o0, np.asarray(screen.observations), equal_nan=True):
        return "noninterference-readonly-query: read-only view queries changed the screen's stored observations"
    return None


def run(desc):
    if desc.get("kind") == "cli_args":      # get_args() of this property's wrapper on generated command lines (harness/c18_args.py)
        import c18_args
        return c18_args.run_case(desc)
    kind = desc["kind"]
    if kind == "grid":
        return run_grid(desc)
    if kind == "view":
        return run_view(desc)
    model = desc["model"]
    flags = impl_flags()
    repaired = [True, True, True]
    sd = desc["screen"]
    sa = impl_call(screenlib.build, concrete(sd, False))
    if isinstance(sa, ImplError):
        return dict(wire=None, impl=sa, pred=None, features=["trivial", "screen-rejected"])
    arity = sd["arity"]
    feats = [kind, model] + row_features(sa) + (["arity-%d" % arity] if arity != 2 else [])
    n_masked = int((~sa.observation_mask).sum())
    n_obs = int(sa.observation_mask.sum())

    if kind == "pipeline":
        sb = screenlib.build(concrete(sd, True))
        cfg = desc["cfg"]
        (da, fa), (db, fb) = pipeline_run(model, sa, cfg, desc["seed"]), pipeline_run(model, sb, cfg, desc["seed"])
        pred = None
        if view_of(sa) != view_of(sb):
            pred = "noninterference-ids: ids or mask differ between the two screens"
        if pred is None:
            for (sta, xa), (stb, xb) in zip(da, db):
                if sta != stb or xa != xb:
                    pred = "noninterference-pipeline-%s: the command-line steps give different %s for the two screens (%s / %s)" % (
                        sta, sta, xa[:60], xb[:60])
                    break
            if pred is None and len(da) != len(db):
                pred = "noninterference-pipeline-stages: one run stopped earlier than the other"
        if pred is None:
            for st, f in da:
                if st == "observation-reads-downstream" and f != "0":
                    pred = "downstream-reads-observations: the distance / scoring / selection commands read .observations %s time(s)" % f
        feats += ["pipeline-" + (da[-1][0] + "-raised" if da[-1][1].startswith("raised") else "complete"), "scorer-" + cfg["scorer"],
                  "policy-k%s" % cfg["policy"] if cfg.get("policy") is not None else "no-policy"] + (["batch"] if fa["batch"] else [])
        feats += repl_features(sd) + (["trivial"] if n_masked == 0 or n_obs == 0 else [])
        ra, rb = wire_rows(sa), wire_rows(sb)
        complete = "raised" not in fa and "slots" in fa
        slots = fa.get("slots", [])
        nan_scores = any(math.isnan(v) for _, v in slots)
        wire = [[2, ra, rb]]
        if complete:
            wire.append([4, ra, fa["batch"], cfg["n_chunks_s"], [] if cfg.get("policy") is None else [int(cfg["policy"])],
                         [[p, 0 if math.isnan(v) else common.float_key(v)] for p, v in slots]])
        impl = [view_of(sa), fa.get("chunks"), fa.get("selected")]

        def cmpf(m, i):
            if isinstance(m, str):
                return "model driver failure: " + m
            if m[0][0] != 1:
                return "model: downstream_input differs between the two screens"
            if m[0][1] != i[0]:
                return "downstream_input: model %s impl %s" % (common.short(m[0][1]), common.short(i[0]))
            if not complete:
                return None
            chunks, sel = m[1]
            for k, c in enumerate(chunks):
                if not common.is_ok(c):
                    return "score chunk %d: model refuses (%s), calculate_scores.main wrote a file" % (k, common.short(c))
                if [x[0] for x in c[1]] != i[1][k]:
                    return "score chunk %d: model hands the scorer plates %s, the command scored %s" % (k, [x[0] for x in c[1]], i[1][k])
            if nan_scores:
                return None
            if not common.is_ok(sel):
                return "selection: model refuses (%s), select_next_plate.main wrote %r" % (common.short(sel), i[2])
            want = "-1" if sel[1] == [] else str(sel[1][0])
            if want != i[2]:
                return "selection: model selects %s, select_next_plate.main wrote %r" % (want, i[2])
            return None
        return dict(wire=wire, impl=impl, pred=pred, features=feats, cmp=cmpf)

    if kind in ("rel", "cli"):
        sb = screenlib.build(concrete(sd, True))
        # read-only view queries first (what scoring / plotting code does with a screen before the next training): they
        # must leave the screen as it was - a query that flips the mask changes what "the observed experiments" are
        ro = _readonly_queries(sa)
        _readonly_queries(sb)
        ra, rb = wire_rows(sa), wire_rows(sb)
        ia, ib = train_result(model, sa, 1), train_result(model, sb, 1)
        iw = train_result(model, sa, 0)
        wire = [req(model, 1, ra, arity, flags), req(model, 1, rb, arity, flags), req(model, 0, ra, arity, flags), [2, ra, rb]]
        wire.append([3, screenlib.wire_mk_args(concrete(sd, True))])
        if model == INT:
            wire.append(req(model, 1, ra, arity, repaired))
        impl = [ia, ib, iw, view_of(sa), [r[:4] + r[5:] for r in rb]]
        pred = ro
        # 1. non-interference: the two runs, bit for bit
        if pred is None and train_bits(model, ia) != train_bits(model, ib):
            pred = "noninterference-training-data: training arrays / lookup differ between the two screens"
        if pred is None and view_of(sa) != view_of(sb):
            pred = "noninterference-ids: ids or mask differ between the two screens"
        if kind == "rel":
            da, db = downstream(model, sa, desc["cfg"]), downstream(model, sb, desc["cfg"])
            if pred is None:
                for (sta, fa), (stb, fb) in zip(da, db):
                    if sta != stb or fa != fb:
                        pred = "noninterference-%s: differs between the two screens (%s / %s)" % (sta, fa[:60], fb[:60])
                        break
                if pred is None and len(da) != len(db):
                    pred = "noninterference-stages: one run stopped earlier than the other"
            if pred is None:
                for st, f in da:
                    if st == "observation-reads-downstream" and f != "0":
                        pred = "downstream-reads-observations: distance / scoring / selection read .observations %s time(s)" % f
            feats += ["downstream-" + (da[-1][0] + "-raised" if da[-1][1].startswith("raised") else "complete")]
            feats += ["scorer-" + desc["cfg"]["scorer"]] + (["batch"] if desc["cfg"]["batch"] else [])
        else:
            ca, cb = cli_run(model, sa, desc["seed"]), cli_run(model, sb, desc["seed"])
            if desc.get("planted") is not None:
                feats.append("cli-planted-" + ("nan" if math.isnan(fv(desc["planted"])) else "negative"))
            neg, nan = has_bad([o for _, _, o in observed_rows(sa)])
            if pred is None and (neg or nan) and isinstance(ca, dict):
                pred = "cli-accepts-%s: train_model.main trained and wrote %d posterior sample(s) although an OBSERVED experiment holds a %s value (add_observations on the observed subset %s)" % (
                    "nan" if nan else "negative", ca["thetas"].count("('W'") or 1, "NaN" if nan else "negative",
                    "refuses it" if isinstance(ia, ImplError) else "accepts it too")
            if pred is None and ca != cb:
                k = [x for x in ca if ca.get(x) != cb.get(x)] if isinstance(ca, dict) and isinstance(cb, dict) else ["status"]
                pred = "noninterference-cli-%s: train_model.main differs between the two screens" % (k[0] if k else "status")
            if pred is None and isinstance(ca, dict) and ca["training"] != train_bits(model, ia):
                pred = "cli-training-data: train_model.main trained on other data than subset_observed + add_observations"
            if pred is None and isinstance(ca, dict) and ca.get("training_after") != ca["training"]:
                pred = "cli-training-data-after-sampling: the model's training arrays after sampling.sample differ from those add_observations stored"
            if pred is None and not isinstance(ca, dict) and not isinstance(ia, ImplError):
                pred = "cli-failed: train_model.main raised %r" % (ca,)
        # 2. a screen that still has masked rows is refused when handed over directly
        if pred is None and n_masked > 0 and not isinstance(iw, ImplError):
            pred = "%s-accepts-masked-rows: add_observations accepted a screen with %d masked rows" % (model, n_masked)
        # 3. trained on exactly the documented rows, each once, transformed as documented
        if pred is None:
            pred = check_training(model, sa, ia)
        # 3b. ... also when the same observed experiments arrive in several add_observations calls (SparseDrugCombo: the
        # interaction model recomputes its single-effect table per call, so only its one-call behaviour is documented)
        if pred is None and model == SDC and not isinstance(ia, ImplError) and n_obs >= 2:
            ic = train_result(model, sa, 3)
            feats.append("fed-in-pieces")
            if train_bits(model, ic) != train_bits(model, ia):
                pred = "%s-piecewise-training-differs: the observed experiments handed over in consecutive pieces give another training state than in one call (%s)" % (
                    model, train_bits(model, ic)[:80])
        feats += repl_features(sd) + (["trivial"] if n_masked == 0 or n_obs == 0 else [])

        def cmpf(m, i):
            if isinstance(m, str):
                return "model driver failure: " + m
            for k, what in enumerate(["train A", "train B", "add_observations(whole screen)"]):
                d = cmp_answer(model, m[k], i[k], what)
                if d:
                    return d
            if m[3][0] != 1:
                return "model: downstream_input differs between the two screens"
            if m[3][1] != i[3]:
                return "downstream_input: model %s impl %s" % (common.short(m[3][1]), common.short(i[3]))
            if not common.is_ok(m[4]) or m[4][1] != i[4]:
                return "rows of the shared Screen model (mk_screen + bit decoding) differ from the real screen B: model %s impl %s" % (
                    common.short(m[4]), common.short(i[4]))
            if model == INT and pred is None:
                d = cmp_answer(model, m[5], i[0], "train A (repaired variant, property predicate holds)")
                if d:
                    return d
            return None
        return dict(wire=wire, impl=impl, pred=pred, features=feats, cmp=cmpf)

    if kind == "refuse":
        via = desc["via"]
        ra = wire_rows(sa)
        ia = train_result(model, sa, via)
        if via == 4:
            feats.append("union-of-plates-handed-over")
            via = 0       # for the model and the predicate: add_observations on all rows of the screen
        wire = [req(model, via, ra, arity, flags)] + ([req(model, via, ra, arity, repaired)] if model == INT else [])
        pred = None
        if via == 0:
            if n_masked > 0:
                if not isinstance(ia, ImplError):
                    pred = "%s-accepts-masked-rows: add_observations accepted a screen with %d masked rows" % (model, n_masked)
            else:
                tids = np.asarray(sa.treatment_ids)
                given = [(int(sa.sample_ids[i]), [int(t) for t in tids[i]], float(sa.observations[i])) for i in range(sa.size)]
                pred = check_training(model, sa, ia, given=given)
        else:
            pred = check_training(model, sa, ia)
        p = desc.get("planted")
        if p is not None:
            v = fv(p)
            feats.append("planted-nan" if math.isnan(v) else "planted-negative" if v < 0 else "planted-edge")
        else:
            feats.append("nothing-planted")
        feats.append("via-%d" % via)
        if via == 0 and n_masked:
            feats.append("masked-handed-over")

        def cmpf(m, i):
            if isinstance(m, str):
                return "model driver failure: " + m
            d = cmp_answer(model, m[0], i[0], "add")
            if d:
                return d
            if model == INT and pred is None:
                return cmp_answer(model, m[1], i[0], "add (repaired variant, property predicate holds)")
            return None
        return dict(wire=wire, impl=[ia], pred=pred, features=feats + (["trivial"] if p is None and not (via == 0 and n_masked) else []), cmp=cmpf)

    if kind == "inner":
        ra = wire_rows(sa)
        ia = train_result(model, sa, 2)

        def cmpf(m, i):
            if isinstance(m, str):
                return "model driver failure: " + m
            return cmp_answer(model, m[0], i[0], "_add_observations")
        return dict(wire=[req(model, 2, ra, arity, flags)], impl=[ia], pred=None,
                    features=feats + (["masked-rows-present"] if n_masked else []), cmp=cmpf)
    raise ValueError(kind)


# --------------------------------------------------------------------------- the handed view

VIEW_ATTRS = ["size", "sample_ids", "plate_ids", "treatment_ids", "sample_names", "plate_names", "treatment_names", "treatment_doses",
              "observation_mask", "observations", "single_treatment_effects"]


def _attr_bits(obj, name):
    with warnings.catch_warnings():
        warnings.simplefilter("ignore")
        try:
            with quiet_logs():
                v = getattr(obj, name)
        except Exception as e:  # noqa
            return "raised %s" % type(e).__name__
    if v is None:
        return "None"
    a = np.asarray(v)
    if a.dtype.kind == "f":
        return repr((a.shape, [fhex(x) for x in a.ravel().tolist()]))
    return repr((a.shape, a.ravel().tolist()))


def run_view(desc):
    """'the data handed to the model': every public array attribute of subset_observed() - the object train_model.main hands to
    add_observations - must be the same for the two screens; the same for the observed part of what the scorer is handed."""
    sd = desc["screen"]
    sa = impl_call(screenlib.build, concrete(sd, False))
    if isinstance(sa, ImplError):
        return dict(wire=None, impl=sa, pred=None, features=["trivial", "screen-rejected"])
    sb = screenlib.build(concrete(sd, True))
    va, vb = sa.subset_observed(), sb.subset_observed()
    n_masked = int((~sa.observation_mask).sum())
    feats = ["view"] + row_features(sa) + repl_features(sd)
    pred = None
    if (va is None) != (vb is None):
        pred = "handed-view-presence: subset_observed() is None for one screen only"
    elif va is not None:
        diffs = [a for a in VIEW_ATTRS if _attr_bits(va, a) != _attr_bits(vb, a)]
        others = [a for a in diffs if a != "single_treatment_effects"]
        if others:
            pred = "handed-view-%s: attribute %s of subset_observed() differs between the two screens" % (others[0], others[0])
        elif diffs:
            pred = ("handed-view-single_treatment_effects: subset_observed().single_treatment_effects differs between the two screens "
                    "(%s / %s): the parent's table is computed from all rows, masked wells included" % (
                        _attr_bits(va, diffs[0])[:70], _attr_bits(vb, diffs[0])[:70]))
            feats.append("view-single-effects-differ")
    ra = wire_rows(sa)
    ste = None
    if va is not None:
        with warnings.catch_warnings():
            warnings.simplefilter("ignore")
            with quiet_logs():
                t = va.single_treatment_effects
        ste = None if t is None else [[float(x) for x in row] for row in np.asarray(t).tolist()]
    wire = [[6, sd["arity"], ra], [2, ra, wire_rows(sb)]]

    def cmpf(m, i):
        if isinstance(m, str):
            return "model driver failure: " + m
        if va is None:
            return None
        coded = m[0][0]
        if coded == []:
            return None if i is None else "single_treatment_effects: model None (KeyError), implementation returned a table"
        if i is None:
            return "single_treatment_effects: implementation None, model returned a table"
        tab = coded[0]
        if len(tab) != len(i):
            return "single_treatment_effects: %d rows in the model, %d in the implementation" % (len(tab), len(i))
        for k, (a, b) in enumerate(zip(tab, i)):
            if len(a) != len(b) or not all(oval_close(x, y, 1e-12) for x, y in zip(a, b)):
                return "single_treatment_effects row %d: model %s impl %s" % (k, a, b)
        if m[1][0] != 1:
            return "model: downstream_input differs between the two screens"
        return None
    return dict(wire=wire, impl=ste, pred=pred, features=feats + (["trivial"] if n_masked == 0 or va is None else []), cmp=cmpf)


# --------------------------------------------------------------------------- ComboGridFactorModel

GRID = "grid"


def grid_model(screen):
    from batchie.data import ExperimentSpace
    from batchie.models.grid_combo import ComboGridFactorModel
    return ComboGridFactorModel(experiment_space=ExperimentSpace.from_screen(screen), n_unique_samples=int(screen.n_unique_samples),
                                unique_drug_names=np.unique(screen.treatment_names), log_conc_range=(-3.0, 3.0), n_grid=4,
                                n_embedding_dimensions=2, n_sigma_embedding_dimensions=2)


def grid_training(m):
    cols = [m.sample_ids, m.drug_ids_1, m.drug_ids_2, m.log_concs_1, m.log_concs_2, m.y]
    n = m.n_obs()
    if any(len(c) != n for c in cols):
        raise AssertionError("grid training arrays of different lengths")
    return [[int(a), int(b), int(c), float(d), float(e), float(y)] for a, b, c, d, e, y in zip(*cols)]


def grid_result(screen, via):
    def go():
        m = grid_model(screen)
        feed(m, screen, via)
        return grid_training(m)
    return impl_call(go)


def grid_bits(res):
    return "raised %s" % res.cls if isinstance(res, ImplError) else repr([[a, b, c, fhex(d), fhex(e), fhex(y)] for a, b, c, d, e, y in res])


def grid_doc_rows(screen, m):
    """what the class documents per observed row, computed here row by row: (sample id, drug id 1, drug id 2, clip(y, 0, 1)); a
    treatment is the control when it is named so or its dose has no finite log10 > -inf; single agents sit in slot 1"""
    out = []
    idx = dict(m.drugname2idx)
    for i in range(screen.size):
        if not bool(screen.observation_mask[i]):
            continue
        ids = []
        for nm, dose in zip(screen.treatment_names[i][:2], screen.treatment_doses[i][:2]):
            ctrl = (nm == screen.control_treatment_name) or not (float(dose) > 0)
            ids.append(-1 if ctrl else int(idx[nm]))
        if ids[0] < 0:
            ids = [ids[1], -1]
        o = float(screen.observations[i])
        out.append((int(screen.sample_ids[i]), ids[0], ids[1], min(max(o, 0.0), 1.0)))
    return out


def run_grid(desc):
    sd, mode = desc["screen"], desc["mode"]
    sa = impl_call(screenlib.build, concrete(sd, False))
    if isinstance(sa, ImplError):
        return dict(wire=None, impl=sa, pred=None, features=["trivial", "screen-rejected"])
    arity = sd["arity"]
    feats = ["grid", "grid-" + mode] + row_features(sa) + (["arity-%d" % arity] if arity != 2 else [])
    n_masked = int((~sa.observation_mask).sum())
    n_obs = int(sa.observation_mask.sum())
    sb = screenlib.build(concrete(sd, True))
    ra, rb = wire_rows(sa), wire_rows(sb)
    ia, ib = grid_result(sa, 1), grid_result(sb, 1)
    iw = grid_result(sa, 0)
    ii = grid_result(sa, 2)
    pred = None
    if grid_bits(ia) != grid_bits(ib):
        pred = "noninterference-training-data: the grid model's training arrays differ between the two screens"
    if pred is None and n_masked > 0 and not isinstance(iw, ImplError):
        pred = "grid-accepts-masked-rows: add_observations accepted a screen with %d masked rows" % n_masked
    obs = [o for _, _, o in observed_rows(sa)]
    neg, nan = has_bad(obs)
    raised = isinstance(ia, ImplError)
    if pred is None and (neg or nan) and not raised:
        pred = "grid-accepts-%s: a %s observation was accepted silently" % (("negative", "negative") if neg else ("nan", "NaN"))
    if pred is None and not (neg or nan) and arity == 2:
        if raised:
            pred = "grid-refuses-valid-input: %s on observed rows without negative / NaN values" % ia.cls
        else:
            try:
                doc = grid_doc_rows(sa, grid_model(sa))
            except Exception as e:  # noqa
                doc = None
            got = [(t[0], t[1], t[2], t[5]) for t in ia]
            if doc is not None and got != doc:
                key = lambda x: tuple(x)
                pred = ("grid-training-order-differs: same rows, different order" if sorted(got, key=key) == sorted(doc, key=key)
                        else "grid-training-rows-differ: %d rows trained, %d observed; first difference %s" % (
                            len(got), len(doc), next(((g, d) for g, d in zip(got, doc) if g != d), None)))
    if pred is None and isinstance(ii, ImplError) and ii.cls == "AssertionError":
        pred = "grid-training-arrays-inconsistent: after _add_observations on a screen with %d masked rows the six training arrays have different lengths (%s)" % (n_masked, ii.msg[:60])
    if pred is None and not raised and n_obs >= 2:
        ic = grid_result(sa, 3)
        feats.append("fed-in-pieces")
        if grid_bits(ic) != grid_bits(ia):
            pred = "grid-piecewise-training-differs: the observed experiments handed over in consecutive pieces give another training state than in one call"
    p = desc.get("planted")
    if p is not None:
        v = fv(p)
        feats.append("planted-nan" if math.isnan(v) else "planted-negative" if v < 0 else "planted-edge")
    feats += repl_features(sd) + (["trivial"] if (n_masked == 0 or n_obs == 0) and p is None else [])
    wire = [[5, 1, ra], [5, 1, rb], [5, 0, ra], [5, 2, ra], [2, ra, rb]]
    impl = [ia, ib, iw, ii, view_of(sa)]

    def one(m, i, what):
        ierr = isinstance(i, ImplError)
        if common.is_err(m):
            if not ierr:
                return "%s: model refuses (tag %s), implementation accepted" % (what, m[1])
            if m[1] == 1 and "masked" not in i.msg:
                return "%s: model says masked-row refusal, implementation raised %r" % (what, i)
            if m[1] == 2 and not (i.cls == "ValueError" and "non-negative" in i.msg):
                return "%s: model says negative / NaN refusal, implementation raised %r" % (what, i)
            return None
        if not common.is_ok(m):
            return "%s: model output is not a result: %s" % (what, common.short(m))
        if ierr:
            return None if (arity != 2 or i.cls == "KeyError") else "%s: implementation raised %r, model returned a value" % (what, i)
        if len(m[1]) != len(i):
            return "%s: %d training rows in the model, %d in the implementation" % (what, len(m[1]), len(i))
        for k, (a, b) in enumerate(zip(m[1], i)):
            if a[0] != b[0]:
                return "%s: training row %d sample id: model %s impl %s" % (what, k, a[0], b[0])
            if not oval_close(a[1], b[5], 0.0):
                return "%s: training row %d y: model %s impl %r" % (what, k, a[1], b[5])
        return None

    def cmpf(m, i):
        if isinstance(m, str):
            return "model driver failure: " + m
        for k, what in enumerate(["grid train A", "grid train B", "grid add_observations(whole screen)", "grid _add_observations"]):
            d = one(m[k], i[k], what)
            if d:
                return d
        if m[4][0] != 1:
            return "model: downstream_input differs between the two screens"
        return None
    return dict(wire=wire, impl=impl, pred=pred, features=feats, cmp=cmpf)


def cli_run(model, screen, seed):
    """batchie.cli.train_model.main() in-process; returns dict(training=..., thetas=...) or ImplError"""
    from batchie.cli import train_model
    from batchie.core import ThetaHolder
    from batchie.fast_mvn import sample_mvn_from_precision

    os.makedirs(common.WORK, exist_ok=True)
    tmp = tempfile.mkdtemp(dir=common.WORK)
    captured = {}
    orig_sample = train_model.sampling.sample

    def spy(model, **kw):
        captured["training"] = train_bits(SDC if type(model).__name__ == "SparseDrugCombo" else INT,
                                          training_of(model) if type(model).__name__ == "SparseDrugCombo"
                                          else [lookup_of(model), training_of(model)])
        captured["n_obs"] = model.n_obs()
        r = orig_sample(model=model, **kw)
        # ... and after sampling (reset_model / step must not re-create, duplicate or drop training rows: `each exactly once`)
        captured["training_after"] = train_bits(SDC if type(model).__name__ == "SparseDrugCombo" else INT,
                                                training_of(model) if type(model).__name__ == "SparseDrugCombo"
                                                else [lookup_of(model), training_of(model)])
        return r

    def go():
        data = os.path.join(tmp, "data.h5")
        out = os.path.join(tmp, "thetas.h5")
        screen.save_h5(data)
        argv = ["train_model", "--model", _cls(model).__name__, "--model-param", "n_embedding_dimensions=2",
                "--n-burnin", "1", "--n-samples", "2", "--thin", "1", "--n-chains", "2", "--chain-index", "1",
                "--seed", str(seed), "--data", data, "--output", out]
        np.random.seed(seed)
        rng = np.random.default_rng(seed + 1)
        with mock.patch.object(sys, "argv", argv), \
                mock.patch.object(train_model.sampling, "sample", spy), \
                mock.patch.object(train_model.log_config, "configure_logging", lambda args: None), \
                mock.patch.object(_mod(model), "sample_mvn_from_precision", functools.partial(sample_mvn_from_precision, rng=rng)), \
                warnings.catch_warnings(), np.errstate(all="ignore"):
            warnings.simplefilter("ignore")
            train_model.main()
        th = ThetaHolder.load_h5(out)
        return dict(training=captured.get("training"), n_obs=captured.get("n_obs"), training_after=captured.get("training_after"),
                    thetas=repr([theta_bytes(th.get_theta(i)) for i in range(th.n_thetas)]))
    try:
        r = impl_call(go)
    finally:
        shutil.rmtree(tmp, ignore_errors=True)
    return r if isinstance(r, dict) else repr(r)


def pipeline_run(model, screen, cfg, seed):
    """The four command-line steps in-process, each through its main() and files only: train_model -> calculate_distance_matrix
    (every chunk) -> calculate_scores (every chunk) -> select_next_plate.  Randomness pinned as in cli_run (numpy's global generator
    and the unseeded default_rng() of fast_mvn during training; the other steps derive theirs from --seed).
    Returns (stages, info): stages = ordered [(stage, fingerprint)], ending at the first stage that raises; info = what the model
    is compared with (plate ids per score chunk, the slots, the selected id, the batch ids)."""
    from batchie.cli import calculate_distance_matrix as m_dist
    from batchie.cli import calculate_scores as m_scores
    from batchie.cli import select_next_plate as m_select
    from batchie.cli import train_model as m_train
    from batchie.core import ThetaHolder
    from batchie.distance_calculation import ChunkedDistanceMatrix
    from batchie.fast_mvn import sample_mvn_from_precision
    from batchie.scoring.main import ChunkedScoresHolder

    os.makedirs(common.WORK, exist_ok=True)
    tmp = tempfile.mkdtemp(dir=common.WORK)
    out, info = [], dict(batch=batch_ids(screen, cfg["batch"]))
    stage = "train"

    def call(mod, argv, *ctx):
        with contextlib.ExitStack() as st:
            st.enter_context(mock.patch.object(sys, "argv", [argv[0]] + [str(a) for a in argv[1:]]))
            st.enter_context(mock.patch.object(mod.log_config, "configure_logging", lambda args: None))
            for c in ctx:
                st.enter_context(c)
            st.enter_context(warnings.catch_warnings())
            warnings.simplefilter("ignore")
            st.enter_context(np.errstate(all="ignore"))
            st.enter_context(quiet_logs())
            mod.main()

    try:
        data = os.path.join(tmp, "data.h5")
        screen.save_h5(data)
        thetas = os.path.join(tmp, "thetas.h5")
        np.random.seed(seed)
        rng = np.random.default_rng(seed + 1)
        call(m_train, ["train_model", "--model", _cls(model).__name__, "--model-param", "n_embedding_dimensions=2", "--n-burnin", 1,
                       "--n-samples", 3, "--thin", 1, "--n-chains", 1, "--chain-index", 0, "--seed", seed, "--data", data,
                       "--output", thetas],
             mock.patch.object(_mod(model), "sample_mvn_from_precision", functools.partial(sample_mvn_from_precision, rng=rng)))
        th = ThetaHolder.load_h5(thetas)
        out.append(("thetas", repr([theta_bytes(th.get_theta(i)) for i in range(th.n_thetas)])))
        with tripwire() as reads:
            stage = "distance"
            nd = cfg["n_chunks_d"]
            dfiles = [os.path.join(tmp, "dist%d.h5" % k) for k in range(nd)]
            for k in range(nd):
                call(m_dist, ["calculate_distance_matrix", "--data", data, "--thetas", thetas, "--distance-metric", "MSEDistance",
                              "--n-chunks", nd, "--chunk-index", k, "--output", dfiles[k]])
            dm = ChunkedDistanceMatrix.concat([ChunkedDistanceMatrix.load(f) for f in dfiles])
            out.append(("distance", dm.to_dense().tobytes().hex()))
            stage = "scores"
            ns = cfg["n_chunks_s"]
            sfiles = [os.path.join(tmp, "scores%d.h5" % k) for k in range(ns)]
            for k in range(ns):
                call(m_scores, ["calculate_scores", "--data", data, "--thetas", thetas, "--distance-matrix"] + dfiles +
                     ["--scorer", cfg["scorer"], "--n-chunks", ns, "--chunk-index", k, "--seed", seed + 2, "--output", sfiles[k]] +
                     (["--batch-plate-ids"] + info["batch"] if info["batch"] else []))
            hs = [ChunkedScoresHolder.load_h5(f) for f in sfiles]
            info["chunks"] = [[int(x) for x in h.plate_ids.tolist()] for h in hs]
            info["slots"] = [[int(p), float(v)] for h in hs for p, v in zip(h.plate_ids.tolist(), h.scores.tolist())]
            out.append(("scores", repr([([fhex(x) for x in h.scores.tolist()], [int(x) for x in h.plate_ids.tolist()]) for h in hs])))
            stage = "selection"
            sel = os.path.join(tmp, "selected.txt")
            call(m_select, ["select_next_plate", "--data", data, "--scores"] + sfiles + ["--seed", seed + 3, "--output", sel] +
                 (["--policy", "KPerSamplePlatePolicy", "--policy-param", "k=%d" % cfg["policy"]] if cfg.get("policy") is not None else []) +
                 (["--batch-plate-id"] + info["batch"] if info["batch"] else []))
            txt = open(sel).read().strip()
            info["selected"] = txt
            out.append(("selection", txt))
        out.append(("observation-reads-downstream", repr(reads[0])))
    except BaseException as e:  # noqa - SystemExit of argparse included
        if isinstance(e, (KeyboardInterrupt, common.CaseTimeout)):
            raise
        out.append((stage, "raised %s: %s" % (type(e).__name__, str(e)[:80])))
        info["raised"] = stage
    finally:
        shutil.rmtree(tmp, ignore_errors=True)
    return out, info


def signature(desc, res):
    p = res.get("pred") or ""
    return p.split(":")[0] if p else None


def _fine_signature(desc):
    """signature plus, for the mask defect, whether an all-control row is among the trained rows"""
    try:
        r = run(desc)
    except Exception:  # noqa
        return None
    p = r.get("pred")
    if not p:
        return None
    return (signature(desc, r), "exactly the 0 all-control" in p)


def shrink(desc):
    """drop one row at a time, keeping the same predicate failure (same signature)"""
    if desc.get("kind") == "cli_args":
        return
    sd = desc["screen"]
    rows = sd["rows"]
    if len(rows) <= 1:
        return
    sig0 = _fine_signature(desc)
    for i in range(len(rows)):
        cand = dict(desc, screen=dict(sd, rows=rows[:i] + rows[i + 1:]))
        if sig0 is None or _fine_signature(cand) == sig0:
            yield cand


def extra(tier):
    """Self-test of the detection: realistic leaks are planted by monkeypatching inside this process
    (nothing under /repo is touched) and the property predicate must report each of them."""
    import random

    from batchie import core
    from batchie import data as D
    from batchie.scoring import size as sz

    impl_flags()
    rng = random.Random(404)
    descs = []
    while len(descs) < (8 if tier == "quick" else 24):
        sd = gen_structured(rng, tier)
        descs.append(dict(kind="rel", model=[SDC, INT][len(descs) % 2], screen=sd, cfg=dict(gen_cfg(rng, sd), scorer="size")))

    def sigs():
        out = set()
        for d in descs:
            r = run(d)
            if r.get("pred"):
                out.add(signature(d, r))
        return out

    def whole(self):
        return self.subset(np.ones(self.size, dtype=bool))

    def noguard(self, data):
        self._add_observations(data)

    def peek(self, plates, distance_matrix, samples, rng, progress_bar):
        return {k: float(np.nansum(np.nan_to_num(p.observations, posinf=9.0, neginf=-9.0))) + p.size for k, p in plates.items()}

    res = []
    with mock.patch.object(D.Screen, "subset_observed", whole), mock.patch.object(core.BayesianModel, "add_observations", noguard):
        got = sigs()
    res.append(("detects: training on the whole screen instead of subset_observed()", "noninterference-training-data" in got, sorted(got)))
    with mock.patch.object(core.BayesianModel, "add_observations", noguard):
        got = sigs()
    res.append(("detects: add_observations without the masked-row guard", {"sdc-accepts-masked-rows", "interaction-accepts-masked-rows"} <= got, sorted(got)))
    with mock.patch.object(sz.SizeScorer, "score", peek):
        got = sigs()
    res.append(("detects: a scorer that reads plate.observations", bool({"noninterference-scores", "downstream-reads-observations"} & got), sorted(got)))
    return res
